#!/usr/bin/env python3
# Regenerates MANIFEST.json from the table below (kept in the repo so the manifest stays consistent).
import json
checks = {
 "C01": dict(technique="runtime monitoring: generated programs executed under real /bin/bash, stdout/exit/stderr judged by an independent reference interpreter",
   text="Differential runtime monitoring: enumerated operator/statement/loop families plus a seeded random sweep of scalar programs are transpiled by the real library, executed by the real bash in an empty sandbox and compared byte-for-byte with an independent reference interpreter; non-termination is decided on logical shell steps.",
   note="Trusted: the RefLang reference interpreter (Go meaning + README deviations), /bin/bash 5.2. Bounded program size/nesting; shell-neutral strings.", ref="§3 C01"),
 "C02": dict(technique="runtime monitoring: generated multi-function programs executed under real /bin/bash, judged by an independent reference interpreter with frames",
   text="Differential runtime monitoring of call semantics: name-reuse, global-write, arity, return-register and simultaneous-assignment families plus a random sweep over a tiny identifier pool; every program runs under real bash and is compared with the reference interpreter (frames, by-value scalars, by-reference slices).",
   note="Trusted: RefLang interpreter, /bin/bash 5.2. Programs mixing a variable read with a call that writes it in one statement are discarded (unspecified in Go).", ref="§3 C02"),
 "C03": dict(technique="runtime monitoring: generated slice/string programs executed under real /bin/bash, judged by an independent reference interpreter",
   text="Differential runtime monitoring of slice and string operations: all substring index pairs up to length 12, growth/gap-fill for old lengths 0..12, aliasing chains, copy for all length pairs, range forms, plus a random sweep with arbitrary int index expressions.",
   note="Trusted: RefLang interpreter (slices as shared growable vectors), /bin/bash 5.2. Undefined cases (out-of-range, resize while ranging, copy into longer dst) discarded.", ref="§3 C03"),
 "C19": dict(technique="runtime monitoring: the built tsh binary run as a process with before/after file-system stamps, the library as byte reference, and strace fault injection on the output write", cat="fault_enumeration",
   text="Process-level monitor with fault enumeration: generated command lines (option orders, spellings, repeated targets, input names, output directories, stale outputs), 10 accepted and 8 rejected programs, bad options; for each run exit status and recursive before/after stamps of the work tree are judged against the library's output; the write faults enumerated are: output path is a directory, every write() fails with ENOSPC, rename onto the output fails, open/write of the output path fails (strace injection; a run without an injected fault is inconclusive).",
   note="Trusted: stamps (size, mode, mtime, SHA-256), strace 6.1 injection (verified per run by the (INJECTED) marker), the library as reference.", ref="§3 C19"),
 "C18": dict(technique="runtime monitoring: probe programs invoked by executed scripts record argv, act as tagged pipeline filters and produce requested output/status; logs, stdout and captured values compared with a model",
   text="Probe-based monitor: the harness installs probe programs in the sandbox; argument cells (payloads, every printable character, empty strings, 0-5 arguments) x position x form (literal, variable, run-time, concatenation, call result), program names (identifier, literal paths incl. blanks), pipelines of 1-3 tagged stages, capture with 0-3 trailing newlines, statuses 0..255 on last and non-last stages, statement vs capture, top level vs function; the oracle is a model of the probes (expected argv logs, stdout, captured value and status) plus the sandbox snapshot.",
   note="Trusted: the probe model, sandbox snapshot. Bash only; literal spellings of \" $ ` \\ avoided (C08 finding).", ref="§3 C18"),
 "C17": dict(technique="runtime monitoring: executed write/append/read/exists histories; printed results and a recursive snapshot of the sandbox file system compared with a model file system",
   text="History monitor against a model file system: single-store cells over 33 path spellings x contents (payloads, every printable character, newlines) x literal/run-time origin x top level/function x literal/computed append flag, and enumerated + random histories of write/append/read/exists over three paths; after each script the complete sandbox (every path, every byte) must equal the model, so a write touching another path is seen.",
   note="Trusted: RefLang interpreter's file model, sandbox snapshot. Bash only; literal spellings of \" $ ` \\ avoided (C08 finding).", ref="§3 C17"),
 "C16": dict(technique="runtime monitoring: every emitted script of a whole-language workload goes through the shell's own syntax check (bash -n) and a structural linter over the emitted Batch text; converter call trace bracketing as supplementary monitor",
   text="Output monitor over a whole-language workload (each builtin alone, empty blocks everywhere, nesting 1-6, 0-12 functions, loop/switch/function families, multi-file shapes, random programs including input/read/write/exists/@prog): Bash scripts must pass 'bash -n'; Batch scripts are parsed with the cmd model's block parser and linted: balanced blocks, labels defined once, goto/call targets defined, calls only to contained helpers/functions, helpers contained exactly when reachable, loop/if/return jumps confined to their construct (region count cross-checked with the generating program).",
   note="Trusted: bash -n, the linter's label-family conventions (a changed convention makes the jump rule inconclusive, not violated).", ref="§3 C16"),
 "C15": dict(technique="runtime monitoring: differential execution of the compiled library under bash against Go's strings package on enumerated argument tuples",
   text="Differential monitor: for each of the 19 library functions, argument tuples over all strings of length 0-3 on {a, b, blank} plus longer overlapping strings, counts -2..4, slices of up to 4 elements, whitespace mixes; each call is compiled, executed under real bash and compared with the Go function of the same name (results framed so blanks and empties show).",
   note="Trusted: Go's strings package. ASCII arguments; the thorough tier covers ~35 000 tuples (pairs of 3-character strings thinned to one third).", ref="§3 C15"),
 "C14": dict(technique="runtime monitoring: offline checker over a recorded event log of Transpile calls across histories, processes and tree locations (hash equality per program and target)",
   text="History monitor: every ordered pair of (program, target) calls and random histories of 3-15 calls on one transpiler object, the corpus in 8/64 fresh processes and in relocated copies of the source tree (deep path, blanks, relative path); an offline checker over the event log requires one script hash per (program, target); a recording wrapper at the Converter boundary additionally requires identical call traces.",
   note="Trusted: the event log and its checker. A fresh converter per call, as the contract states; error texts compared only as 'is an error'.", ref="§3 C14"),
 "C13": dict(technique="runtime monitoring: hostile inputs fed to the real Transpile in supervised child processes; result-shape predicate, panic/death/hang detection with isolated confirmation",
   text="Robustness monitor: all single-token edits of a corpus of valid programs, double edits, random bytes and token soups, semantic near-misses, file/import configurations including all 512 import graphs over three files; every input runs in a supervised worker process under recover(); the oracle is the result shape (exactly one of script/error, non-empty error, no panic, no process death, return within the bound).",
   note="Trusted: the supervision harness. Termination bound is a watchdog 3-4 orders of magnitude above normal cost, confirmed in isolation before it is reported.", ref="§3 C13"),
 "C12": dict(technique="runtime monitoring: metamorphic comparison of the real Transpile's output for a program and its token-preserving re-layouts",
   text="Metamorphic monitor: the suite's own programs, std/, examples/, generated and hand-written programs are re-laid-out (CRLF, re-indentation, trailing blanks, blank/comment lines at every break, comments and blanks in every gap, final newline, blank removal) as whole-file and single-site edits; a variant counts only when the reference lexer confirms the token list is preserved; acceptance and emitted bytes must be identical for both targets.",
   note="Trusted: the reference lexer's notion of token preservation. Only the main file is re-laid-out.", ref="§3 C12"),
 "C11": dict(technique="runtime monitoring: generated token lists rendered to text and fed to the real Tokenize; (type, value, row, column) compared with the generating list, reference lexer and go/scanner as witnesses",
   text="Generator-based monitor of the real lexer: every vocabulary token alone, all ordered pairs of ~110 class representatives x 9 separator kinds, negative-literal contexts, comment / multi-line-token position cases, random sequences; the oracle is the generating token list with renderer-counted positions, cross-checked by an independent maximal-munch reference lexer and by go/scanner; error cases for unterminated literals and bytes outside the grammar.",
   note="Trusted: the generating list + reference lexer (cross-checked against go/scanner on Go-compatible text). Float spellings, '-' after '}'/'++'/'--', byte-vs-character columns after non-ASCII text are not asserted.", ref="§3 C11"),
 "C09": dict(technique="runtime monitoring: generated multi-file programs executed under real bash against a reference interpreter with module semantics, plus a link monitor over the emitted text",
   text="Module monitor: 13 import-graph shapes (chains, fan-outs with top-level calls, diamonds, repeated aliases, std + local) with deliberately equal names in every file; every imported file is re-rendered until all 16 first hex digits of its content-hash prefix were executed; scripts run under real bash and are compared with the reference interpreter; a text monitor requires every invoked function to be defined earlier and nothing to be defined twice; negative cases for private/unknown/duplicate names.",
   note="Trusted: RefLang module semantics (each file's top-level code runs once at first import), link monitor regexes. Multiply-reached files carry only pure definitions.", ref="§3 C09"),
 "C08": dict(technique="runtime monitoring: one program per (origin, data path, character, position) cell executed under real bash in a sandbox; stdout/stderr/exit and the complete sandbox file system (canary files) judged against the reference",
   text="Table monitor with canaries: 5 origins x 14 data paths x 97 characters x 4 positions plus 36 hostile payloads and random strings; each cell's program runs under real bash in a fresh sandbox; the oracle is the reference interpreter's bytes, an empty stderr, exit 0 and the predicted sandbox file system - any stray file (e.g. CANARY created by executed data, a redirect target) is a violation.",
   note="Trusted: RefLang interpreter (strings as byte vectors), sandbox snapshot. Bash only. Known finding: literal expansion of \" $ ` \\ (recorded by cell pattern).", ref="§3 C08", cat="exploration"),
 "C07": dict(technique="runtime monitoring: exhaustive (definition site, use site) table over a block skeleton fed to the real Transpile, verdicts compared with a scope calculator",
   text="Exhaustive table monitor over a 25-site block skeleton: every ordered pair of definition and use site x definition/use kinds, redefinitions, header variables, function definition x call site, break/continue/return/func placement at every site, import-boundary uses at every site, plus fixed scope cells; both targets; expected verdict computed by an independent scope calculator over the block tree.",
   note="Trusted: the scope calculator (rules of the property statement). One skeleton (nesting depth 3); break in a switch outside loops not asserted.", ref="§3 C07"),
 "C06": dict(technique="runtime monitoring: exhaustive position x type x context table of minimal programs fed to the real Transpile for both targets, verdicts compared with a typing oracle",
   text="Exhaustive table monitor: ~230 typed positions x 8 offered types (28 spellings) x 5 contexts, each rendered as a program that is otherwise well typed, transpiled for Bash and Batch by the real library; accept/reject must equal the table's verdict and agree between targets; a crash instead of an error is a violation. Thorough adds 20 000 generated programs with one ill-typed position.",
   note="Trusted: the verdict table (Go typing rules + README signatures). Exclusions as stated by the property; nil offered where a slice is wanted is not asserted.", ref="§3 C06"),
 "C05": dict(technique="runtime monitoring: emitted Batch scripts executed under an executable model of cmd.exe's documented rules (calibrated on the upstream-validated Windows suite), judged by the reference interpreter and the real Bash run",
   text="Model-based runtime monitor: the Windows half of the repository's suite runs under the cmd model (155 tests, expectations validated upstream on real cmd.exe); the C01-C04 families at 32 bit, Batch-specific families (label allocation over all loop skeletons also inside functions, digit-width crossings 9->10 and 99->100, frames and panic placements, cmd-special print lines) and a random sweep are transpiled to Batch, executed under the model in both readings of the one uncertain rule, and compared with the reference interpreter and with the real Bash run of the same program. Unmodelled constructs make a case inconclusive.",
   note="Trusted: the cmd model (rule cards in DESIGN.md Appendix A; real cmd.exe is not available in the sandbox), the reference interpreter at 32 bit.", ref="§3 C05"),
 "C04": dict(technique="runtime monitoring: trace-line sequence of effectful functions in executed scripts compared with the reference evaluation order",
   text="Trace monitoring: numbered effectful calls are placed at every operand position x statement kind x context; the emitted script's trace (order and multiplicity of the calls) must equal the reference interpreter's left-to-right, exactly-once, eager trace.",
   note="Trusted: RefLang interpreter's evaluation order, /bin/bash 5.2. Switch tags and range operands never effectful (excluded).", ref="§3 C04"),
}
not_built = {}
props = [json.loads(l) for l in open('/verif/properties.jsonl')]
man = {
 "version": 1,
 "setup_cmd": "cd /verif && ./setup.sh",
 "hooks": {"guard": "verif", "enable": "go build -tags verif (the harness links /repo's working tree through a replace directive; no hook source files are needed so far)",
           "baseline_off_cmd": "cd /repo && go test -vet=off -count=1 -timeout 25m ./...", "source_commits": [], "add_only": True},
 "engines": [{"name": "tsverif", "path": "/verif/harness", "serves_properties": sorted(checks), "kind_free_text": "Go harness: RefLang generator + reference interpreter, real Transpile in-process, real bash in sandboxes, cmd.exe model, offline oracles"}],
 "checks": [], "not_applicable": [],
 "notes": "All checks: ./check <ID> quick|thorough. Known findings: /verif/known_findings.json. Design: /verif/DESIGN.md.",
}
for p in props:
    i = p["id"]
    if i in checks:
        c = checks[i]
        man["checks"].append({"property_id": i, "quick_cmd": f"./check {i} quick", "thorough_cmd": f"./check {i} thorough",
          "evidence_file": f"/verif/evidence/{i}.json", "replay_cmd_template": "cat {path}/case.json", "engine": "tsverif",
          "level_claimed": {"category": c.get("cat", "exploration"), "text": c["text"], "design_ref": c["ref"]},
          "level_note": c["note"], "technique": c["technique"]})
    else:
        man["not_applicable"].append({"property_id": i, "reason": not_built.get(i, "check not built yet (work in progress; see DESIGN.md §7 build order)")})
json.dump(man, open('/verif/MANIFEST.json', 'w'), indent=1)
print("checks:", len(man["checks"]), "not_applicable:", len(man["not_applicable"]))
