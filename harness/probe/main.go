// probe: helper executable for the command-call checks (C18). Its behaviour is
// selected by the name it is invoked under (argv[0] base name):
//
//	p_rec*          records its arguments, prints nothing
//	p_say*          args: <hex of bytes to print> <exit status>; records, prints, exits
//	p_tag<X>*       filter: copies stdin to stdout, prefixing every line with "<X>:"; optional first arg = exit status
//
// Every invocation appends one line "ARGV <hex(arg1)> <hex(arg2)> ..." to
// ./log.<name> (per program name, so that concurrently running pipeline stages
// do not interleave).
package main

import (
	"bufio"
	"encoding/hex"
	"os"
	"path/filepath"
	"strconv"
	"strings"
)

func main() {
	name := filepath.Base(os.Args[0])
	rec := []string{"ARGV"}
	for _, a := range os.Args[1:] {
		rec = append(rec, "x"+hex.EncodeToString([]byte(a)))
	}
	key := strings.ReplaceAll(name, " ", "_")
	f, err := os.OpenFile("log."+key, os.O_APPEND|os.O_CREATE|os.O_WRONLY, 0o644)
	if err == nil {
		f.WriteString(strings.Join(rec, " ") + "\n")
		f.Close()
	}
	switch {
	case strings.HasPrefix(name, "p_say"):
		code := 0
		if len(os.Args) > 1 {
			b, _ := hex.DecodeString(os.Args[1])
			os.Stdout.Write(b)
		}
		if len(os.Args) > 2 {
			code, _ = strconv.Atoi(os.Args[2])
		}
		os.Exit(code)
	case strings.HasPrefix(name, "p_tag"):
		tag := strings.TrimPrefix(name, "p_tag")
		if i := strings.IndexAny(tag, " ."); i >= 0 {
			tag = tag[:i]
		}
		in := bufio.NewReader(os.Stdin)
		out := bufio.NewWriter(os.Stdout)
		for {
			line, err := in.ReadString('\n')
			if len(line) > 0 {
				out.WriteString(tag + ":" + line)
			}
			if err != nil {
				break
			}
		}
		out.Flush()
		code := 0
		if len(os.Args) > 1 {
			code, _ = strconv.Atoi(os.Args[1])
		}
		os.Exit(code)
	}
}
