package main

import (
	"fmt"
	"math/rand"
	"os"
	"os/exec"
	"path/filepath"
	"regexp"
	"sort"
	"strconv"
	"strings"
	"sync"
	"time"

	"github.com/monstermichl/typeshell/transpiler"
)

// c14race (run from a binary built with -race): G goroutines, each with its own transpiler
// objects and converters, transpile the C14 corpus concurrently. The property says a result
// depends only on file bytes and target; state shared between calls at package level (a cache, a
// counter, a converter singleton) is what would break it, and under concurrency the race
// detector sees every unsynchronised access to such state, whether or not this run's outputs
// happened to differ. Outputs are compared as well.
func init() {
	extraCommands["c14race"] = func(args []string) {
		if len(args) < 3 {
			fmt.Fprintln(os.Stderr, "usage: tsverif c14race <dir> <seed> <calls-per-goroutine>")
			os.Exit(2)
		}
		root := args[0]
		seed, _ := strconv.ParseInt(args[1], 10, 64)
		per, _ := strconv.Atoi(args[2])
		corpus := c14Corpus(nil)
		for _, p := range corpus {
			WriteSources(filepath.Join(root, p.name), p.files, "main.tsh")
		}
		const G = 16
		var mu sync.Mutex
		shas := map[string]map[string]bool{}
		events := 0
		var wg sync.WaitGroup
		for g := 0; g < G; g++ {
			wg.Add(1)
			go func(g int) {
				defer wg.Done()
				r := rand.New(rand.NewSource(seed*14000093 + int64(g)))
				tr := transpiler.New()
				for i := 0; i < per; i++ {
					p := corpus[r.Intn(len(corpus))]
					t := []Target{Bash, Batch}[r.Intn(2)]
					if r.Intn(3) == 0 {
						tr = transpiler.New()
					}
					var out string
					func() {
						defer func() {
							if rec := recover(); rec != nil {
								out = "panic"
							}
						}()
						s, err := tr.Transpile(filepath.Join(root, p.name, "main.tsh"), newConverter(t))
						if err != nil {
							out = "error"
						} else {
							out = shaOf(s)
						}
					}()
					mu.Lock()
					k := p.name + "/" + string(t)
					if shas[k] == nil {
						shas[k] = map[string]bool{}
					}
					shas[k][out] = true
					events++
					mu.Unlock()
				}
			}(g)
		}
		wg.Wait()
		mismatch := []string{}
		for k, v := range shas {
			if len(v) > 1 {
				mismatch = append(mismatch, k)
			}
		}
		sort.Strings(mismatch)
		fmt.Printf("c14race race_detector=%v goroutines=%d events=%d groups=%d mismatches=%d %s\n", raceEnabled, G, events, len(shas), len(mismatch), strings.Join(mismatch, ","))
	}
}

var raceFrameRe = regexp.MustCompile(`(?m)^  (\S+)\(`)

// runC14Race runs the race-instrumented binary (built by ./check for the thorough tier) and
// records its reports (deduplicated by the pair of innermost library frames) as inconclusive
// leads in the evidence: concurrency is outside C14's quantifier, so a race alone is no verdict.
func runC14Race(c *Check, root string) {
	exe, _ := os.Executable()
	bin := filepath.Join(filepath.Dir(exe), "tsverif-race")
	if _, err := os.Stat(bin); err != nil {
		c.Inconclusive("race-instrumented harness not built (tsverif-race missing); the race observation was skipped")
		return
	}
	dir := filepath.Join(root, "race")
	os.MkdirAll(dir, 0o755)
	logBase := filepath.Join(dir, "race.log")
	cmd := exec.Command(bin, "c14race", filepath.Join(dir, "src"), fmt.Sprint(c.Seed), "400")
	cmd.Env = append(os.Environ(), "GORACE=halt_on_error=0 log_path="+logBase)
	done := make(chan struct{})
	var out []byte
	var err error
	go func() { out, err = cmd.CombinedOutput(); close(done) }()
	select {
	case <-done:
	case <-time.After(40 * time.Minute):
		cmd.Process.Kill()
		<-done
		c.Inconclusive("race-instrumented run exceeded its 40 min watchdog")
		return
	}
	line := ""
	for _, l := range strings.Split(string(out), "\n") {
		if strings.HasPrefix(l, "c14race ") {
			line = l
		}
	}
	if line == "" || !strings.Contains(line, "race_detector=true") {
		c.Inconclusive("race-instrumented run did not complete: " + clip(string(out), 300) + fmt.Sprint(err))
		return
	}
	c.Extra["race_run"] = line
	logs, _ := filepath.Glob(logBase + ".*")
	reports := 0
	seen := map[string]bool{}
	for _, lf := range logs {
		data, _ := os.ReadFile(lf)
		for _, blk := range strings.Split(string(data), "==================") {
			if !strings.Contains(blk, "WARNING: DATA RACE") {
				continue
			}
			reports++
			fr := raceFrameRe.FindAllStringSubmatch(blk, -1)
			sig := []string{}
			for _, f := range fr {
				if strings.Contains(f[1], "typeshell") && len(sig) < 2 {
					sig = append(sig, f[1])
				}
			}
			key := strings.Join(sig, " <-> ")
			if seen[key] {
				continue
			}
			seen[key] = true
			// C14 quantifies over sequences of calls, not over concurrent schedules: shared state that
			// races is a lead (the sequential histories decide whether outputs depend on it), not a verdict
			c.Inconclusive("race detector: package-level state shared between concurrent Transpile calls on separate objects: " + key)
			c.mu.Lock()
			c.Extra["race_report_"+fmt.Sprint(len(seen))] = clip(blk, 3000)
			c.mu.Unlock()
		}
	}
	c.Extra["race_reports"] = reports
	var ev, mm int
	fmt.Sscanf(line[strings.Index(line, "events="):], "events=%d", &ev)
	fmt.Sscanf(line[strings.Index(line, "mismatches="):], "mismatches=%d", &mm)
	c.Eval(fmt.Sprintf("race-run/%d", ev), ev > 0)
	if mm > 0 {
		c.Inconclusive("concurrent Transpile calls on separate objects returned different text for the same (program, target): " + line)
	}
}
