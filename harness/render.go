package main

import (
	"fmt"
	"strconv"
	"strings"
)

// Renderer: RefLang -> TypeShell source text in the repository's house style
// (tabs, LF, blanks around binary operators). Parentheses are inserted exactly
// where Go's precedence/associativity needs them to preserve the AST shape, or
// where the AST carries an explicit Group node.

func prec(e Expr) int {
	switch x := e.(type) {
	case Bin:
		switch x.Op {
		case "*", "/", "%":
			return 5
		}
		return 4
	case Cmp:
		return 3
	case Logic:
		if x.Op == "&&" {
			return 2
		}
		return 1
	case Not:
		return 6
	}
	return 7
}

func quoteTsh(s string, raw bool) string {
	if raw && !strings.ContainsAny(s, "`\r") {
		return "`" + s + "`"
	}
	var b strings.Builder
	b.WriteByte('"')
	for i := 0; i < len(s); i++ {
		c := s[i]
		switch c {
		case '"':
			b.WriteString(`\"`)
		case '\\':
			b.WriteString(`\\`)
		case '\n':
			b.WriteString(`\n`)
		case '\t':
			b.WriteString(`\t`)
		case '\r':
			b.WriteString(`\r`)
		default:
			b.WriteByte(c)
		}
	}
	b.WriteByte('"')
	return b.String()
}

// quoteTshEscaped spells bytes as byte escapes (see StrLit.Esc).
func quoteTshEscaped(s string, mode int) string {
	var b strings.Builder
	b.WriteByte('"')
	for i := 0; i < len(s); i++ {
		c := s[i]
		switch {
		case mode == 3 || (c >= 0x80 && mode == 1):
			fmt.Fprintf(&b, "\\x%02x", c)
		case c >= 0x80 && mode == 2:
			fmt.Fprintf(&b, "\\%03o", c)
		case c == '"':
			b.WriteString(`\"`)
		case c == '\\':
			b.WriteString(`\\`)
		case c == '\n':
			b.WriteString(`\n`)
		case c == '\t':
			b.WriteString(`\t`)
		case c == '\r':
			b.WriteString(`\r`)
		default:
			b.WriteByte(c)
		}
	}
	b.WriteByte('"')
	return b.String()
}

func renderExpr(e Expr) string {
	switch x := e.(type) {
	case IntLit:
		return strconv.FormatInt(x.V, 10)
	case PaddedInt:
		return x.Text
	case BoolLit:
		if x.V {
			return "true"
		}
		return "false"
	case StrLit:
		if x.Esc != 0 && !x.Raw {
			return quoteTshEscaped(x.V, x.Esc)
		}
		return quoteTsh(x.V, x.Raw)
	case NilLit:
		return "nil"
	case VarRef:
		return x.Name
	case Group:
		return "(" + renderExpr(x.E) + ")"
	case Bin:
		return renderBinary(e, x.Op, x.L, x.R)
	case Cmp:
		return renderBinary(e, x.Op, x.L, x.R)
	case Logic:
		return renderBinary(e, x.Op, x.L, x.R)
	case Not:
		s := renderExpr(x.E)
		if prec(x.E) < 6 {
			s = "(" + s + ")"
		}
		return "!" + s
	case Call:
		name := x.Fn
		if x.Alias != "" {
			name = x.Alias + "." + x.Fn
		}
		return name + "(" + renderArgs(x.Args) + ")"
	case Len:
		return "len(" + renderExpr(x.E) + ")"
	case Itoa:
		return "itoa(" + renderExpr(x.E) + ")"
	case Index:
		return x.Name + "[" + renderExpr(x.I) + "]"
	case Substr:
		lo, hi := "", ""
		if x.Lo != nil {
			lo = renderExpr(x.Lo)
		}
		if x.Hi != nil {
			hi = renderExpr(x.Hi)
		}
		return x.Name + "[" + lo + ":" + hi + "]"
	case SliceLit:
		return "[]" + x.Elem.String() + "{" + renderArgs(x.Elems) + "}"
	case Copy:
		return "copy(" + x.Dst + ", " + renderExpr(x.Src) + ")"
	case Exists:
		return "exists(" + renderExpr(x.Path) + ")"
	case Read:
		return "read(" + renderExpr(x.Path) + ")"
	case Input:
		if x.Prompt == nil {
			return "input()"
		}
		return "input(" + renderExpr(x.Prompt) + ")"
	case AppCall:
		parts := []string{}
		for _, st := range x.Stages {
			n := st.Name
			if st.NameLit {
				n = quoteTsh(st.Name, false)
			}
			parts = append(parts, "@"+n+"("+renderArgs(st.Args)+")")
		}
		return strings.Join(parts, " | ")
	}
	panic(fmt.Sprintf("renderExpr: unknown node %T", e))
}

func renderBinary(e Expr, op string, l, r Expr) string {
	p := prec(e)
	ls, rs := renderExpr(l), renderExpr(r)
	if prec(l) < p {
		ls = "(" + ls + ")"
	}
	if prec(r) <= p {
		rs = "(" + rs + ")"
	}
	return ls + " " + op + " " + rs
}

func renderArgs(args []Expr) string {
	parts := make([]string, len(args))
	for i, a := range args {
		parts[i] = renderExpr(a)
	}
	return strings.Join(parts, ", ")
}

type renderer struct {
	b strings.Builder
}

func (r *renderer) line(ind int, s string) {
	r.b.WriteString(strings.Repeat("\t", ind))
	r.b.WriteString(s)
	r.b.WriteByte('\n')
}

func renderSimple(s Stmt) string {
	switch x := s.(type) {
	case VarDecl:
		names := strings.Join(x.Names, ", ")
		if x.Short {
			return names + " := " + renderArgs(x.Values)
		}
		out := "var " + names
		if x.Type != TVoid {
			ty := x.Type.String()
			if x.ErrTy && x.Type == TString {
				ty = "error"
			}
			out += " " + ty
		}
		if len(x.Values) > 0 {
			out += " = " + renderArgs(x.Values)
		}
		return out
	case Assign:
		return strings.Join(x.Names, ", ") + " = " + renderArgs(x.Values)
	case OpAssign:
		return x.Name + " " + x.Op + "= " + renderExpr(x.V)
	case IncDec:
		if x.Inc {
			return x.Name + "++"
		}
		return x.Name + "--"
	case SliceSet:
		return x.Name + "[" + renderExpr(x.I) + "] = " + renderExpr(x.V)
	case Break:
		return "break"
	case Continue:
		return "continue"
	case Print:
		return "print(" + renderArgs(x.Args) + ")"
	case Panic:
		return "panic(" + renderExpr(x.E) + ")"
	case ExprStmt:
		return renderExpr(x.E)
	case Return:
		if len(x.Values) == 0 {
			return "return"
		}
		return "return " + renderArgs(x.Values)
	case Write:
		out := "write(" + renderExpr(x.Path) + ", " + renderExpr(x.Data)
		if x.Append != nil {
			out += ", " + renderExpr(x.Append)
		}
		return out + ")"
	case RawStmt:
		return x.Text
	}
	panic(fmt.Sprintf("renderSimple: unknown node %T", s))
}

func (r *renderer) block(ind int, body []Stmt) {
	for _, s := range body {
		r.stmt(ind, s)
	}
}

func (r *renderer) stmt(ind int, s Stmt) {
	switch x := s.(type) {
	case If:
		for i, br := range x.Branches {
			if i == 0 {
				r.line(ind, "if "+renderExpr(br.Cond)+" {")
			} else {
				r.line(ind, "} else if "+renderExpr(br.Cond)+" {")
			}
			r.block(ind+1, br.Body)
		}
		if x.HasElse {
			r.line(ind, "} else {")
			r.block(ind+1, x.Else)
		}
		r.line(ind, "}")
	case Switch:
		if x.Tag == nil {
			r.line(ind, "switch {")
		} else {
			r.line(ind, "switch "+renderExpr(x.Tag)+" {")
		}
		for _, c := range x.Cases {
			if c.Default {
				r.line(ind, "default:")
			} else {
				r.line(ind, "case "+renderExpr(c.E)+":")
			}
			r.block(ind+1, c.Body)
		}
		r.line(ind, "}")
	case For:
		switch x.Kind {
		case ForEver:
			r.line(ind, "for {")
		case ForCond:
			r.line(ind, "for "+renderExpr(x.Cond)+" {")
		case ForThree:
			h := "for "
			if x.Init != nil {
				h += renderSimple(x.Init)
			}
			h += ";"
			if x.Cond != nil {
				h += " " + renderExpr(x.Cond)
			}
			h += ";"
			if x.Post != nil {
				h += " " + renderSimple(x.Post)
			}
			r.line(ind, h+" {")
		case ForRange:
			h := "for " + x.RangeIdx
			if x.RangeVal != "" {
				h += ", " + x.RangeVal
			}
			r.line(ind, h+" := range "+renderExpr(x.Over)+" {")
		}
		r.block(ind+1, x.Body)
		r.line(ind, "}")
	case FuncDecl:
		ps := make([]string, len(x.Params))
		for i, p := range x.Params {
			ps[i] = p.Name + " " + p.T.String()
		}
		h := "func " + x.Name + "(" + strings.Join(ps, ", ") + ")"
		switch len(x.Results) {
		case 0:
		case 1:
			h += " " + x.Results[0].String()
		default:
			rs := make([]string, len(x.Results))
			for i, t := range x.Results {
				rs[i] = t.String()
			}
			h += " (" + strings.Join(rs, ", ") + ")"
		}
		r.line(ind, h+" {")
		r.block(ind+1, x.Body)
		r.line(ind, "}")
	default:
		text := renderSimple(s)
		if _, isRaw := s.(RawStmt); !isRaw {
			// a line break inside the text belongs to a raw string literal: its continuation lines are data
			r.line(ind, text)
			break
		}
		for _, l := range strings.Split(text, "\n") {
			r.line(ind, l)
		}
	}
}

func RenderFile(f *File) string {
	r := &renderer{}
	if len(f.Imports) == 1 {
		im := f.Imports[0]
		if im.Alias != "" {
			r.line(0, "import "+im.Alias+" "+quoteTsh(im.Path, false))
		} else {
			r.line(0, "import "+quoteTsh(im.Path, false))
		}
		r.line(0, "")
	} else if len(f.Imports) > 1 {
		r.line(0, "import (")
		for _, im := range f.Imports {
			if im.Alias != "" {
				r.line(1, im.Alias+" "+quoteTsh(im.Path, false))
			} else {
				r.line(1, quoteTsh(im.Path, false))
			}
		}
		r.line(0, ")")
		r.line(0, "")
	}
	r.block(0, f.Stmts)
	return r.b.String()
}

func RenderStmts(stmts []Stmt) string {
	r := &renderer{}
	r.block(0, stmts)
	return r.b.String()
}
