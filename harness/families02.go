package main

import (
	"fmt"
)

func fn(name string, params []Param, results []Type, body ...Stmt) Stmt {
	return FuncDecl{Name: name, Params: params, Results: results, Body: body}
}
func call(name string, args ...Expr) Expr  { return Call{Fn: name, Args: args} }
func ret(vals ...Expr) Stmt                { return Return{vals} }
func callS(name string, args ...Expr) Stmt { return ExprStmt{Call{Fn: name, Args: args}} }
func forUp(ctr string, k int64, body ...Stmt) Stmt {
	return For{Kind: ForThree, Init: def(ctr, il(0)), Cond: cmp("<", vr(ctr), il(k)), Post: IncDec{ctr, true}, Body: body}
}

// G1: the same identifier in several roles in different frames.
func g1NameReuse() []BashCase {
	cases := []BashCase{}
	roles := []string{"param", "local", "loopvar", "rangevar-none"}
	tops := []string{"loopvar", "global-after", "block-local", "global-before-other-name"}
	for _, rf := range roles {
		for _, rg := range roles {
			for _, top := range tops {
				// f
				var f Stmt
				switch rf {
				case "param":
					f = fn("f", []Param{{"x", TInt}}, []Type{TInt}, set("x", bin("+", vr("x"), il(1))), pr(sl("f"), vr("x")), ret(bin("*", vr("x"), il(2))))
				case "local":
					f = fn("f", []Param{{"a", TInt}}, []Type{TInt}, def("x", bin("+", vr("a"), il(1))), OpAssign{"x", "+", il(1)}, pr(sl("f"), vr("x")), ret(bin("*", vr("x"), il(2))))
				case "loopvar":
					f = fn("f", []Param{{"a", TInt}}, []Type{TInt}, def("s", il(0)), forUp("x", 3, OpAssign{"s", "+", bin("+", vr("x"), vr("a"))}), pr(sl("f"), vr("s")), ret(vr("s")))
				default:
					f = fn("f", []Param{{"a", TInt}}, []Type{TInt}, pr(sl("f"), vr("a")), ret(bin("+", vr("a"), il(7))))
				}
				// g calls f
				var g Stmt
				switch rg {
				case "param":
					g = fn("g", []Param{{"x", TInt}}, []Type{TInt}, def("r", call("f", vr("x"))), pr(sl("g"), vr("x"), vr("r")), ret(bin("+", vr("x"), vr("r"))))
				case "local":
					g = fn("g", []Param{{"y", TInt}}, []Type{TInt}, def("x", bin("+", vr("y"), il(100))), def("r", call("f", vr("y"))), pr(sl("g"), vr("x"), vr("r")), ret(bin("+", vr("x"), vr("r"))))
				case "loopvar":
					g = fn("g", []Param{{"y", TInt}}, []Type{TInt}, def("t", il(0)), forUp("x", 2, OpAssign{"t", "+", call("f", bin("+", vr("x"), vr("y")))}, pr(sl("g"), vr("x"), vr("t"))), ret(vr("t")))
				default:
					g = fn("g", []Param{{"y", TInt}}, []Type{TInt}, ret(call("f", call("f", vr("y")))))
				}
				stmts := []Stmt{}
				if top == "global-before-other-name" {
					stmts = append(stmts, def("w", il(5)))
				}
				stmts = append(stmts, f, g)
				switch top {
				case "loopvar":
					stmts = append(stmts, forUp("x", 3, pr(sl("top"), vr("x"), call("f", vr("x"))), pr(sl("top2"), vr("x"), call("g", vr("x"))), pr(sl("top3"), vr("x"), call("g", call("f", vr("x"))))))
				case "global-after":
					stmts = append(stmts, def("x", il(50)), pr(call("f", vr("x")), vr("x")), pr(call("g", vr("x")), vr("x")), pr(call("g", call("f", vr("x"))), vr("x")))
				case "block-local":
					stmts = append(stmts, ifs(bl(true), def("x", il(20)), pr(call("f", vr("x")), vr("x")), pr(call("g", vr("x")), vr("x")), set("x", call("f", vr("x"))), pr(vr("x"))))
				default:
					stmts = append(stmts, pr(call("f", vr("w")), vr("w")), pr(call("g", vr("w")), vr("w")))
				}
				cases = append(cases, BashCase{Key: fmt.Sprintf("G1/f=%s/g=%s/top=%s", rf, rg, top), Prog: SingleFile(stmts)})
			}
		}
	}
	return cases
}

// G2: a global defined before a function is written in place by it.
func g2GlobalWrites() []BashCase {
	type wk struct {
		name string
		pre  []Stmt
		body []Stmt
		obs  []Expr
	}
	kinds := []wk{
		{"assign", []Stmt{def("gv", il(10))}, []Stmt{set("gv", bin("+", vr("gv"), vr("a")))}, []Expr{vr("gv")}},
		{"assign-const", []Stmt{def("gv", il(10))}, []Stmt{set("gv", vr("a"))}, []Expr{vr("gv")}},
		{"add", []Stmt{def("gv", il(10))}, []Stmt{OpAssign{"gv", "+", vr("a")}}, []Expr{vr("gv")}},
		{"sub", []Stmt{def("gv", il(10))}, []Stmt{OpAssign{"gv", "-", vr("a")}}, []Expr{vr("gv")}},
		{"mul", []Stmt{def("gv", il(10))}, []Stmt{OpAssign{"gv", "*", vr("a")}}, []Expr{vr("gv")}},
		{"div", []Stmt{def("gv", il(1000))}, []Stmt{OpAssign{"gv", "/", vr("a")}}, []Expr{vr("gv")}},
		{"mod", []Stmt{def("gv", il(1000))}, []Stmt{OpAssign{"gv", "%", bin("+", vr("a"), il(6))}}, []Expr{vr("gv")}},
		{"inc", []Stmt{def("gv", il(10))}, []Stmt{IncDec{"gv", true}}, []Expr{vr("gv")}},
		{"dec", []Stmt{def("gv", il(10))}, []Stmt{IncDec{"gv", false}}, []Expr{vr("gv")}},
		{"string-add", []Stmt{def("gv", sl("s"))}, []Stmt{OpAssign{"gv", "+", Itoa{vr("a")}}}, []Expr{vr("gv")}},
		{"bool-assign", []Stmt{def("gv", bl(false))}, []Stmt{set("gv", cmp(">", vr("a"), il(1)))}, []Expr{vr("gv")}},
		{"multi-assign", []Stmt{def("gv", il(10)), def("gw", il(20))}, []Stmt{Assign{[]string{"gv", "gw"}, []Expr{bin("+", vr("a"), il(1)), bin("+", vr("a"), il(2))}}}, []Expr{vr("gv"), vr("gw")}},
		{"multi-return-assign", []Stmt{def("gv", il(10)), def("gw", il(20)), fn("two", []Param{{"p", TInt}}, []Type{TInt, TInt}, ret(bin("+", vr("p"), il(1)), bin("*", vr("p"), il(3))))}, []Stmt{Assign{[]string{"gv", "gw"}, []Expr{call("two", vr("a"))}}}, []Expr{vr("gv"), vr("gw")}},
		{"var-typed-global", []Stmt{VarDecl{Names: []string{"gv"}, Type: TInt}}, []Stmt{set("gv", bin("+", vr("gv"), vr("a")))}, []Expr{vr("gv")}},
		{"slice-elem", []Stmt{def("gs", SliceLit{TInt, []Expr{il(1), il(2)}})}, []Stmt{SliceSet{"gs", il(1), bin("+", Index{"gs", il(1)}, vr("a"))}, SliceSet{"gs", Len{vr("gs")}, vr("a")}}, []Expr{Index{"gs", il(1)}, Len{vr("gs")}}},
		{"slice-copy", []Stmt{def("gs", SliceLit{TInt, []Expr{il(1), il(2)}})}, []Stmt{def("n", Copy{"gs", SliceLit{TInt, []Expr{vr("a"), bin("+", vr("a"), il(1))}}}), pr(sl("copied"), vr("n"))}, []Expr{Index{"gs", il(0)}, Index{"gs", il(1)}, Len{vr("gs")}}},
		{"slice-copy-strings", []Stmt{def("gs", SliceLit{TString, []Expr{sl("a"), sl("b c")}}), def("src", SliceLit{TString, []Expr{sl("x y"), sl("")}})}, []Stmt{def("n", Copy{"gs", vr("src")}), SliceSet{"src", il(0), Itoa{vr("a")}}, pr(sl("copied"), vr("n"))}, []Expr{Index{"gs", il(0)}, Index{"gs", il(1)}, Len{vr("gs")}, Index{"src", il(0)}}},
		{"in-nested-block", []Stmt{def("gv", il(10))}, []Stmt{ifs(cmp(">", vr("a"), il(0)), forUp("k", 2, OpAssign{"gv", "+", vr("a")}))}, []Expr{vr("gv")}},
		{"local-same-name-elsewhere", []Stmt{def("gv", il(10)), fn("other", nil, nil, def("lv", il(1)), pr(vr("lv")))}, []Stmt{def("lv", il(3)), set("gv", bin("+", vr("gv"), bin("*", vr("lv"), vr("a"))))}, []Expr{vr("gv")}},
	}
	cases := []BashCase{}
	for _, k := range kinds {
		stmts := append([]Stmt{}, k.pre...)
		stmts = append(stmts, fn("f", []Param{{"a", TInt}}, nil, k.body...))
		// second function reading the globals
		obsArgs := append([]Expr{sl("h")}, k.obs...)
		stmts = append(stmts, fn("h", nil, nil, pr(obsArgs...)))
		stmts = append(stmts, pr(append([]Expr{sl("before")}, k.obs...)...))
		stmts = append(stmts, callS("f", il(5)), pr(append([]Expr{sl("after1")}, k.obs...)...), callS("h"))
		stmts = append(stmts, forUp("i", 2, callS("f", bin("+", vr("i"), il(2))), pr(append([]Expr{sl("loop")}, k.obs...)...)), callS("h"))
		cases = append(cases, BashCase{Key: "G2/" + k.name, Prog: SingleFile(stmts)})
	}
	return cases
}

func typedSample(t Type, i int) Expr {
	switch t {
	case TInt:
		return il(int64(3 + i))
	case TBool:
		return bl(i%2 == 0)
	case TString:
		return sl(fmt.Sprintf("s%d", i))
	}
	return SliceLit{t.Elem(), nil}
}

// G3: arity sweep.
func g3Arity() []BashCase {
	cases := []BashCase{}
	types := []Type{TInt, TString, TBool}
	for _, np := range []int{0, 1, 2, 3, 4, 9, 10, 12} {
		for nr := 0; nr <= 3; nr++ {
			if np > 4 && nr > 1 {
				continue
			}
			for rot := 0; rot < 3; rot++ {
				params := []Param{}
				for i := 0; i < np; i++ {
					params = append(params, Param{fmt.Sprintf("p%d", i), types[(i+rot)%3]})
				}
				results := []Type{}
				retVals := []Expr{}
				for i := 0; i < nr; i++ {
					rt := types[(i+rot+1)%3]
					results = append(results, rt)
					// build a value of type rt from the parameters
					var e Expr = typedSample(rt, i)
					for _, p := range params {
						if p.T == rt {
							switch rt {
							case TInt:
								e = bin("+", e, vr(p.Name))
							case TString:
								e = bin("+", e, vr(p.Name))
							case TBool:
								e = cmp("!=", e, vr(p.Name))
							}
						}
					}
					retVals = append(retVals, e)
				}
				body := []Stmt{}
				pargs := []Expr{sl("in")}
				for _, p := range params {
					pargs = append(pargs, vr(p.Name))
				}
				body = append(body, pr(pargs...))
				if nr > 0 {
					body = append(body, ret(retVals...))
				}
				stmts := []Stmt{fn("fx", params, results, body...)}
				// helper producing an int through a call, for "arguments that are calls"
				stmts = append(stmts, fn("mk", []Param{{"v", TInt}}, []Type{TInt}, ret(bin("+", vr("v"), il(1)))))
				args := []Expr{}
				args2 := []Expr{}
				for i, p := range params {
					args = append(args, typedSample(p.T, i+5))
					if p.T == TInt {
						args2 = append(args2, call("mk", il(int64(i))))
					} else {
						args2 = append(args2, typedSample(p.T, i+9))
					}
				}
				mkcall := func(a []Expr) Expr { return Call{Fn: "fx", Args: a} }
				switch nr {
				case 0:
					stmts = append(stmts, ExprStmt{mkcall(args)}, ExprStmt{mkcall(args2)})
				case 1:
					stmts = append(stmts, def("r", mkcall(args)), pr(vr("r")), VarDecl{Names: []string{"q"}, Type: results[0], Values: []Expr{mkcall(args2)}}, pr(vr("q")), set("r", mkcall(args2)), pr(vr("r"), mkcall(args)), ExprStmt{mkcall(args)})
				default:
					names := []string{"r0", "r1", "r2"}[:nr]
					names2 := []string{"q0", "q1", "q2"}[:nr]
					obs := func(ns []string) []Expr {
						out := []Expr{}
						for _, n := range ns {
							out = append(out, vr(n))
						}
						return out
					}
					stmts = append(stmts, VarDecl{Names: names, Short: true, Values: []Expr{mkcall(args)}}, pr(obs(names)...))
					stmts = append(stmts, VarDecl{Names: names2, Values: []Expr{mkcall(args2)}}, pr(obs(names2)...))
					stmts = append(stmts, Assign{names, []Expr{mkcall(args2)}}, pr(obs(names)...), ExprStmt{mkcall(args)})
				}
				cases = append(cases, BashCase{Key: fmt.Sprintf("G3/params=%d/results=%d/rot=%d", np, nr, rot), Prog: SingleFile(stmts)})
			}
		}
	}
	return cases
}

// G4: return-register hazards and nested calls.
func g4ReturnRegisters() []BashCase {
	one := fn("one", []Param{{"a", TInt}}, []Type{TInt}, ret(bin("+", vr("a"), il(1))))
	two := fn("two", []Param{{"a", TInt}}, []Type{TInt, TInt}, ret(vr("a"), bin("*", vr("a"), il(2))))
	three := fn("three", []Param{{"a", TInt}}, []Type{TInt, TString, TBool}, ret(bin("-", vr("a"), il(1)), Itoa{vr("a")}, cmp(">", vr("a"), il(2))))
	nest := fn("nest", []Param{{"a", TInt}}, []Type{TInt, TInt}, ret(call("one", vr("a")), call("one", bin("+", vr("a"), il(10)))))
	viaTwo := fn("viaTwo", []Param{{"a", TInt}}, []Type{TInt, TInt}, VarDecl{Names: []string{"x", "y"}, Short: true, Values: []Expr{call("two", vr("a"))}}, def("z", call("one", vr("y"))), ret(vr("z"), vr("x")))
	str := fn("str", []Param{{"s", TString}, {"n", TInt}}, []Type{TString}, ret(bin("+", vr("s"), Itoa{call("one", vr("n"))})))
	pre := []Stmt{one, two, three, nest, viaTwo, str}
	progs := map[string][]Stmt{
		"multi-then-single":   {VarDecl{Names: []string{"a", "b"}, Short: true, Values: []Expr{call("two", il(1))}}, def("c", call("one", il(5))), pr(vr("a"), vr("b"), vr("c"))},
		"single-then-multi":   {def("c", call("one", il(5))), VarDecl{Names: []string{"a", "b"}, Short: true, Values: []Expr{call("two", il(1))}}, pr(vr("a"), vr("b"), vr("c"))},
		"nested-returns":      {VarDecl{Names: []string{"p", "q"}, Short: true, Values: []Expr{call("nest", il(3))}}, pr(vr("p"), vr("q"))},
		"via-two":             {VarDecl{Names: []string{"p", "q"}, Short: true, Values: []Expr{call("viaTwo", il(4))}}, pr(vr("p"), vr("q"))},
		"deep-nesting":        {pr(call("one", call("one", call("one", il(1))))), pr(bin("+", call("one", il(1)), bin("*", call("one", il(2)), call("one", il(3)))))},
		"call-arg-of-multi":   {VarDecl{Names: []string{"m", "n"}, Short: true, Values: []Expr{call("two", call("one", il(2)))}}, pr(vr("m"), vr("n"))},
		"three-values":        {VarDecl{Names: []string{"i", "s", "b"}, Short: true, Values: []Expr{call("three", il(3))}}, pr(vr("i"), vr("s"), vr("b")), Assign{[]string{"i", "s", "b"}, []Expr{call("three", il(1))}}, pr(vr("i"), vr("s"), vr("b"))},
		"string-through-call": {pr(call("str", sl("n"), il(4)), call("str", call("str", sl("a"), il(1)), il(2)))},
		"same-call-twice":     {pr(bin("-", call("one", il(10)), call("one", il(3))), cmp("<", call("one", il(1)), call("one", il(2))))},
		"multi-in-loop":       {def("acc", il(0)), forUp("i", 3, VarDecl{Names: []string{"u", "v"}, Short: true, Values: []Expr{call("two", vr("i"))}}, OpAssign{"acc", "+", bin("+", vr("u"), vr("v"))}, pr(vr("i"), vr("u"), vr("v"), vr("acc")))},
		"call-in-condition":   {ifs(cmp("==", call("one", il(1)), il(2)), pr(sl("yes"))), If{Branches: []IfBranch{{cmp("==", call("one", il(1)), il(3)), []Stmt{pr(sl("no"))}}, {cmp("==", call("one", il(2)), il(3)), []Stmt{pr(sl("elif"))}}}}},
		"call-in-index":       {def("xs", SliceLit{TInt, []Expr{il(10), il(20), il(30)}}), pr(Index{"xs", call("one", il(0))}, Index{"xs", call("one", call("one", il(0)))})},
		"return-call-of-call": {fn("w", []Param{{"a", TInt}}, []Type{TInt}, ret(call("one", call("one", vr("a"))))), pr(call("w", il(1)))},
		"void-then-value":     {fn("v", []Param{{"a", TInt}}, nil, pr(sl("v"), vr("a"))), callS("v", il(1)), def("r", call("one", il(1))), callS("v", vr("r")), pr(vr("r"))},
		"early-return":        {fn("er", []Param{{"a", TInt}}, []Type{TInt}, ifs(cmp(">", vr("a"), il(5)), ret(il(100))), forUp("k", 4, ifs(cmp("==", vr("k"), vr("a")), ret(bin("*", vr("k"), il(10))))), ret(il(-1))), pr(call("er", il(9)), call("er", il(2)), call("er", il(4)), call("er", il(5)))},
		"return-in-switch":    {fn("rs", []Param{{"a", TInt}}, []Type{TString}, Switch{Tag: vr("a"), Cases: []SwitchCase{{E: il(1), Body: []Stmt{ret(sl("one"))}}, {E: il(2), Body: []Stmt{ret(sl("two"))}}}}, ret(sl("many"))), pr(call("rs", il(1)), call("rs", il(2)), call("rs", il(3)))},
		"slice-by-reference":  {fn("add", []Param{{"s", TSliceInt}, {"v", TInt}}, nil, SliceSet{"s", Len{vr("s")}, vr("v")}), def("xs", SliceLit{TInt, []Expr{il(1)}}), callS("add", vr("xs"), il(2)), callS("add", vr("xs"), il(3)), pr(Len{vr("xs")}, Index{"xs", il(2)})},
		"scalar-by-value":     {fn("chg", []Param{{"v", TInt}, {"s", TString}, {"b", TBool}}, nil, set("v", il(99)), set("s", sl("changed")), set("b", bl(true)), pr(vr("v"), vr("s"), vr("b"))), def("v", il(1)), def("s", sl("orig")), def("b", bl(false)), callS("chg", vr("v"), vr("s"), vr("b")), pr(vr("v"), vr("s"), vr("b"))},
	}
	cases := []BashCase{}
	for _, k := range sortedStmtKeys(progs) {
		cases = append(cases, BashCase{Key: "G4/" + k, Prog: SingleFile(append(append([]Stmt{}, pre...), progs[k]...))})
	}
	return cases
}

// G5: simultaneous assignment uses the old values on the right.
func g5Simultaneous() []BashCase {
	progs := map[string][]Stmt{
		"swap":                 {def("a", il(1)), def("b", il(2)), Assign{[]string{"a", "b"}, []Expr{vr("b"), vr("a")}}, pr(vr("a"), vr("b"))},
		"fib-step":             {def("a", il(1)), def("b", il(1)), forUp("i", 5, Assign{[]string{"a", "b"}, []Expr{vr("b"), bin("+", vr("a"), vr("b"))}}, pr(vr("a"), vr("b")))},
		"rotate3":              {def("a", il(1)), def("b", il(2)), def("c", il(3)), Assign{[]string{"a", "b", "c"}, []Expr{vr("b"), vr("c"), vr("a")}}, pr(vr("a"), vr("b"), vr("c"))},
		"swap-strings":         {def("s", sl("left")), def("t", sl("right")), Assign{[]string{"s", "t"}, []Expr{vr("t"), vr("s")}}, pr(vr("s"), vr("t"))},
		"swap-bools":           {def("p", bl(true)), def("q", bl(false)), Assign{[]string{"p", "q"}, []Expr{vr("q"), vr("p")}}, pr(vr("p"), vr("q"))},
		"swap-in-func":         {fn("sw", []Param{{"a", TInt}, {"b", TInt}}, []Type{TInt, TInt}, Assign{[]string{"a", "b"}, []Expr{vr("b"), vr("a")}}, ret(vr("a"), vr("b"))), VarDecl{Names: []string{"x", "y"}, Short: true, Values: []Expr{call("sw", il(1), il(2))}}, pr(vr("x"), vr("y"))},
		"swap-globals-in-func": {def("ga", il(1)), def("gb", il(2)), fn("sw", nil, nil, Assign{[]string{"ga", "gb"}, []Expr{vr("gb"), vr("ga")}}), callS("sw"), pr(vr("ga"), vr("gb"))},
		"expr-both-sides":      {def("a", il(3)), def("b", il(4)), Assign{[]string{"a", "b"}, []Expr{bin("+", vr("a"), vr("b")), bin("-", vr("a"), vr("b"))}}, pr(vr("a"), vr("b"))},
		"independent":          {def("a", il(3)), def("b", il(4)), Assign{[]string{"a", "b"}, []Expr{il(7), il(8)}}, pr(vr("a"), vr("b"))},
		"callee-with-own-multi-assign": {fn("sw", []Param{{"a", TInt}, {"b", TInt}}, []Type{TInt}, Assign{[]string{"a", "b"}, []Expr{vr("b"), vr("a")}}, ret(bin("+", bin("*", vr("a"), il(10)), vr("b")))), def("x", il(2)), def("y", il(5)), Assign{[]string{"x", "y"}, []Expr{vr("y"), call("sw", il(3), il(4))}}, pr(vr("x"), vr("y")), VarDecl{Names: []string{"p", "q"}, Short: true, Values: []Expr{bin("+", vr("x"), il(2)), call("sw", vr("x"), vr("y"))}}, pr(vr("p"), vr("q"))},
		"callee-multi-assign-nested":   {fn("inner", []Param{{"a", TInt}}, []Type{TInt}, VarDecl{Names: []string{"u", "v"}, Short: true, Values: []Expr{bin("+", vr("a"), il(1)), bin("+", vr("a"), il(2))}}, ret(bin("*", vr("u"), vr("v")))), fn("outer", []Param{{"a", TInt}}, []Type{TInt, TInt}, VarDecl{Names: []string{"m", "n"}, Short: true, Values: []Expr{vr("a"), call("inner", vr("a"))}}, ret(vr("m"), vr("n"))), VarDecl{Names: []string{"r1", "r2"}, Short: true, Values: []Expr{call("outer", il(3))}}, def("k", il(1)), def("l", il(2)), Assign{[]string{"k", "l"}, []Expr{bin("+", vr("l"), il(10)), call("inner", vr("k"))}}, pr(vr("r1"), vr("r2"), vr("k"), vr("l"))},
		"define-from-others":   {def("a", il(3)), def("b", il(4)), VarDecl{Names: []string{"c", "d"}, Short: true, Values: []Expr{vr("b"), vr("a")}}, pr(vr("c"), vr("d"))},
	}
	cases := []BashCase{}
	for _, k := range sortedStmtKeys(progs) {
		cases = append(cases, BashCase{Key: "G5/" + k, Prog: SingleFile(progs[k])})
	}
	// every kind of right-hand side that reads a target assigned EARLIER in the same list: the old value counts.
	// n (int), s (string), b (bool), xs ([]int) are targets; the reading expression sits in a later position.
	readers := []struct {
		name   string
		target string // the later target receiving the reading expression
		ttype  Type
		e      Expr
		first  string // the earlier target it reads
	}{
		{"itoa-of-int", "s", TString, Itoa{vr("n")}, "n"},
		{"int-plus", "m", TInt, bin("+", vr("n"), il(100)), "n"},
		{"group", "m", TInt, Group{vr("n")}, "n"},
		{"negated-product", "m", TInt, bin("*", vr("n"), il(-1)), "n"},
		{"comparison", "b", TBool, cmp("==", vr("n"), il(5)), "n"},
		{"len-of-string", "m", TInt, Len{vr("s")}, "s"},
		{"string-index", "t", TString, Index{"s", il(0)}, "s"},
		{"substring", "t", TString, Substr{"s", il(0), il(2)}, "s"},
		{"concat", "t", TString, bin("+", vr("s"), sl("!")), "s"},
		{"string-compare", "b", TBool, cmp("==", vr("s"), sl("old")), "s"},
		{"not", "c", TBool, Not{vr("b")}, "b"},
		{"and", "c", TBool, logic("&&", vr("b"), bl(true)), "b"},
		{"slice-index-by-target", "m", TInt, Index{"xs", vr("n")}, "n"},
		{"call-arg", "m", TInt, call("idf", vr("n")), "n"},
	}
	newVal := map[string]Expr{"n": il(1), "s": sl("NEW"), "b": bl(false)}
	oldDefs := []Stmt{fn("idf", []Param{{"p", TInt}}, []Type{TInt}, ret(vr("p"))), def("n", il(5)), def("s", sl("old")), def("b", bl(true)), def("xs", SliceLit{TInt, []Expr{il(10), il(11), il(12), il(13), il(14), il(15)}}), def("m", il(0)), def("t", sl("")), def("c", bl(false))}
	for _, rd := range readers {
		asg := Assign{[]string{rd.first, rd.target}, []Expr{newVal[rd.first], rd.e}}
		show := pr(vr("n"), framed(vr("s")), vr("b"), vr("m"), framed(vr("t")), vr("c"))
		top := append(append([]Stmt{}, oldDefs...), asg, show)
		cases = append(cases, BashCase{Key: "G5/reader/" + rd.name + "/top", Prog: SingleFile(top)})
		// inside a function, on the globals
		inFn := append(append([]Stmt{}, oldDefs...), fn("step", nil, nil, asg), callS("step"), show)
		cases = append(cases, BashCase{Key: "G5/reader/" + rd.name + "/func-globals", Prog: SingleFile(inFn)})
		// three positions: the reader last, an unrelated value in between
		asg3 := Assign{[]string{rd.first, "k", rd.target}, []Expr{newVal[rd.first], il(7), rd.e}}
		top3 := append(append([]Stmt{}, oldDefs...), def("k", il(0)), asg3, show, pr(vr("k")))
		cases = append(cases, BashCase{Key: "G5/reader/" + rd.name + "/three", Prog: SingleFile(top3)})
	}
	return cases
}

// G6: loop state across calls. A function holding a loop of each kind is left in every way
// (return from inside at the first / a middle iteration, return from a nested inner loop, break,
// normal end) and then called again; and it is called from inside a caller's loop of each kind, so
// that hidden per-loop state (first-iteration flags, counters, end labels) of callee and caller,
// and of two activations of the same function, would meet.
func g6LoopStateAcrossCalls() []BashCase {
	type lk struct {
		name string
		mk   func(ctr string, limit Expr, body ...Stmt) []Stmt // statements forming a loop that counts ctr from 0 below limit
	}
	kinds := []lk{
		{"three", func(ctr string, limit Expr, body ...Stmt) []Stmt {
			return []Stmt{For{Kind: ForThree, Init: def(ctr, il(0)), Cond: cmp("<", vr(ctr), limit), Post: IncDec{ctr, true}, Body: body}}
		}},
		{"cond", func(ctr string, limit Expr, body ...Stmt) []Stmt {
			// the increment comes first so that a continue in the body cannot skip it; ctr runs 0..limit-1 in the body
			b := append([]Stmt{IncDec{ctr, true}}, body...)
			return []Stmt{def(ctr, il(-1)), For{Kind: ForCond, Cond: cmp("<", bin("+", vr(ctr), il(1)), limit), Body: b}}
		}},
		{"ever", func(ctr string, limit Expr, body ...Stmt) []Stmt {
			b := append([]Stmt{IncDec{ctr, true}, ifs(cmp(">=", vr(ctr), limit), Break{})}, body...)
			return []Stmt{def(ctr, il(-1)), For{Kind: ForEver, Body: b}}
		}},
		{"three-no-init", func(ctr string, limit Expr, body ...Stmt) []Stmt {
			return []Stmt{def(ctr, il(0)), For{Kind: ForThree, Cond: cmp("<", vr(ctr), limit), Post: OpAssign{ctr, "+", il(1)}, Body: body}}
		}},
	}
	exits := []string{"return-first", "return-middle", "return-nested", "break-middle", "run-out"}
	cases := []BashCase{}
	for _, callee := range kinds {
		for _, ex := range exits {
			// scan(limit, stop): walks i over 0..limit-1 and leaves according to ex when i == stop
			var body []Stmt
			switch ex {
			case "return-first", "return-middle":
				body = []Stmt{ifs(cmp("==", vr("i"), vr("stop")), ret(bin("*", vr("i"), il(10)))), OpAssign{"acc", "+", vr("i")}}
			case "return-nested":
				inner := callee.mk("j", il(3), ifs(logic("&&", cmp("==", vr("i"), vr("stop")), cmp("==", vr("j"), il(1))), ret(bin("+", bin("*", vr("i"), il(10)), vr("j")))), OpAssign{"acc", "+", vr("j")})
				body = inner
			case "break-middle":
				body = []Stmt{ifs(cmp("==", vr("i"), vr("stop")), Break{}), OpAssign{"acc", "+", vr("i")}}
			case "run-out":
				body = []Stmt{OpAssign{"acc", "+", vr("i")}}
			}
			fbody := []Stmt{def("acc", il(0))}
			fbody = append(fbody, callee.mk("i", vr("limit"), body...)...)
			fbody = append(fbody, ret(bin("-", il(0), vr("acc"))))
			scan := fn("scan", []Param{{"limit", TInt}, {"stop", TInt}}, []Type{TInt}, fbody...)
			stopFor := func(k int64) Expr {
				if ex == "return-first" {
					return il(0)
				}
				return il(k)
			}
			// sequence of calls at top level: early exit, full run, early exit again, empty loop
			seq := []Stmt{scan, pr(call("scan", il(4), stopFor(2))), pr(call("scan", il(4), il(9))), pr(call("scan", il(5), stopFor(1))), pr(call("scan", il(0), il(0))), pr(call("scan", il(3), stopFor(2)))}
			cases = append(cases, BashCase{Key: "G6/sequence/" + callee.name + "/" + ex, Prog: SingleFile(seq)})
			// called from inside a caller loop of each kind (also from a function), the caller's counter is printed
			for _, caller := range kinds {
				loop := caller.mk("k", il(4), pr(sl("k"), vr("k"), call("scan", il(4), stopFor(1))), pr(sl("again"), call("scan", bin("+", vr("k"), il(1)), vr("k"))))
				top := append([]Stmt{scan}, loop...)
				top = append(top, pr(sl("end")))
				cases = append(cases, BashCase{Key: "G6/in-caller-loop/" + caller.name + "/" + callee.name + "/" + ex, Prog: SingleFile(top)})
				inFn := []Stmt{scan, fn("drive", nil, nil, append(append([]Stmt{}, loop...), pr(sl("driven")))...), callS("drive"), callS("drive"), pr(sl("end"))}
				cases = append(cases, BashCase{Key: "G6/in-caller-function/" + caller.name + "/" + callee.name + "/" + ex, Prog: SingleFile(inFn)})
			}
		}
	}
	return cases
}

// G7: names of one frame that look like names derived from another frame: a global spelled
// <function>_<local>, a local spelled <x>_<y> in function <f> next to local <y> in function <f>_<x>.
func g7DerivedNames() []BashCase {
	cases := []BashCase{}
	cases = append(cases, BashCase{Key: "G7/global-named-function-underscore-local", Prog: SingleFile([]Stmt{
		def("scale_factor", il(10)),
		fn("scale", []Param{{"v", TInt}}, []Type{TInt}, def("factor", il(2)), ret(bin("*", vr("v"), vr("factor")))),
		pr(call("scale", il(3)), vr("scale_factor")), pr(bin("*", call("scale", il(1)), vr("scale_factor"))),
	})})
	cases = append(cases, BashCase{Key: "G7/local-of-prefix-function", Prog: SingleFile([]Stmt{
		fn("get_max", []Param{{"a", TInt}}, []Type{TInt}, def("v", bin("+", vr("a"), il(1000))), ret(vr("v"))),
		fn("get", []Param{{"a", TInt}}, []Type{TInt}, def("max_v", il(20)), def("r", call("get_max", vr("a"))), ret(bin("+", vr("r"), vr("max_v")))),
		pr(call("get", il(0))),
	})})
	cases = append(cases, BashCase{Key: "G7/param-and-global", Prog: SingleFile([]Stmt{
		def("add_n", il(7)), def("n_add", il(9)),
		fn("add", []Param{{"n", TInt}}, []Type{TInt}, set("add_n", bin("+", vr("add_n"), il(1))), ret(bin("+", vr("n"), vr("n_add")))),
		def("got", call("add", il(1))), pr(vr("got"), vr("add_n"), vr("n_add")),
	})})
	// a parameter that is never used may be called _ : it still takes its place in the argument list
	cases = append(cases, BashCase{Key: "G7/underscore-parameters", Prog: SingleFile([]Stmt{
		fn("pick", []Param{{"_", TInt}, {"x", TInt}}, []Type{TInt}, ret(vr("x"))),
		fn("mid", []Param{{"a", TInt}, {"_", TString}, {"c", TInt}}, []Type{TInt}, ret(bin("+", bin("*", vr("a"), il(10)), vr("c")))),
		fn("last", []Param{{"s", TString}, {"_", TBool}}, []Type{TString}, ret(bin("+", vr("s"), sl("!")))),
		fn("only", []Param{{"_", TSliceInt}}, []Type{TInt}, ret(il(9))),
		pr(call("pick", il(1), il(2)), call("mid", il(3), sl("s"), il(4)), call("last", sl("w"), bl(true)), call("only", SliceLit{TInt, []Expr{il(1)}})),
		pr(call("pick", call("pick", il(5), il(6)), call("mid", il(7), sl(""), il(8)))),
	})})
	// a short definition inside a function whose names mix a global with a new local: the global is written in
	// place, the local belongs to the frame (values from a list, from a call, in both orders)
	cases = append(cases, BashCase{Key: "G7/partial-definition-global-and-local", Prog: SingleFile([]Stmt{
		def("balance", il(100)), def("label", sl("start")),
		fn("two", []Param{{"n", TInt}}, []Type{TInt, TBool}, ret(bin("+", vr("n"), il(1)), cmp(">", vr("n"), il(100)))),
		fn("named", nil, []Type{TBool, TString}, ret(bl(true), sl("named"))),
		fn("viaCall", nil, nil, VarDecl{Names: []string{"balance", "ok"}, Short: true, Values: []Expr{call("two", vr("balance"))}}, pr(sl("viaCall"), vr("balance"), vr("ok"))),
		fn("viaCallLocalFirst", nil, nil, VarDecl{Names: []string{"fine", "label"}, Short: true, Values: []Expr{call("named")}}, pr(sl("localFirst"), vr("fine"), vr("label"))),
		fn("viaList", nil, nil, VarDecl{Names: []string{"balance", "extra"}, Short: true, Values: []Expr{il(7), il(8)}}, pr(sl("viaList"), vr("balance"), vr("extra"))),
		fn("viaListLocalFirst", nil, nil, VarDecl{Names: []string{"extra", "balance"}, Short: true, Values: []Expr{il(1), bin("+", vr("balance"), il(1))}}, pr(sl("listLocalFirst"), vr("extra"), vr("balance"))),
		callS("viaCall"), pr(vr("balance")), callS("viaCall"), pr(vr("balance")), callS("viaCallLocalFirst"), pr(vr("label")), callS("viaList"), pr(vr("balance")), callS("viaListLocalFirst"), pr(vr("balance")),
	})})
	cases = append(cases, BashCase{Key: "G7/empty-string-arguments", Prog: SingleFile([]Stmt{
		fn("tag", []Param{{"prefix", TString}, {"name", TString}, {"suffix", TString}}, []Type{TString}, ret(bin("+", bin("+", bin("+", bin("+", sl("<"), vr("prefix")), sl("|")), vr("name")), bin("+", bin("+", sl("|"), vr("suffix")), sl(">"))))),
		fn("mixed", []Param{{"a", TString}, {"n", TInt}, {"b", TString}, {"f", TBool}}, nil, pr(framed(vr("a")), vr("n"), framed(vr("b")), vr("f"))),
		pr(call("tag", sl(""), sl("b"), sl("c")), call("tag", sl("a"), sl(""), sl("c")), call("tag", sl("a"), sl("b"), sl("")), call("tag", sl(""), sl(""), sl("c")), call("tag", sl(""), sl(""), sl(""))),
		callS("mixed", sl(""), il(1), sl(""), bl(true)), callS("mixed", sl(""), il(0), sl("x"), bl(false)),
		VarDecl{Names: []string{"e"}, Type: TString}, pr(call("tag", vr("e"), sl("b"), vr("e"))), callS("mixed", vr("e"), il(2), vr("e"), bl(true)),
		pr(call("tag", sl(" "), sl("  "), sl("	"))),
	})})
	cases = append(cases, BashCase{Key: "G7/same-call-twice-in-one-expression", Prog: SingleFile([]Stmt{
		fn("sq", []Param{{"a", TInt}}, []Type{TInt}, ret(bin("*", vr("a"), vr("a")))),
		fn("add", []Param{{"a", TInt}, {"b", TInt}}, []Type{TInt}, ret(bin("+", vr("a"), vr("b")))),
		fn("pair", nil, []Type{TInt, TInt}, ret(call("sq", il(2)), call("sq", il(3)))),
		pr(bin("+", call("sq", il(2)), call("sq", il(3))), call("add", call("sq", il(2)), call("sq", il(3))), call("add", call("add", il(1), il(2)), call("add", il(3), il(4)))),
		pr(call("sq", il(2)), call("sq", il(3))), VarDecl{Names: []string{"u", "w"}, Short: true, Values: []Expr{call("pair")}}, pr(vr("u"), vr("w")),
		fn("inner", nil, []Type{TInt}, ret(bin("-", call("sq", il(5)), call("sq", il(4))))), pr(call("inner")),
	})})
	return cases
}

func c02Families(c *Check) []BashCase {
	cases := []BashCase{}
	cases = append(cases, g1NameReuse()...)
	cases = append(cases, g2GlobalWrites()...)
	cases = append(cases, g3Arity()...)
	cases = append(cases, g4ReturnRegisters()...)
	cases = append(cases, g5Simultaneous()...)
	cases = append(cases, g6LoopStateAcrossCalls()...)
	cases = append(cases, g7DerivedNames()...)
	// G9: the name-reuse matrix again with the shared identifier spelled like an exported name (capital first
	// letter, all capitals): the spelling of a local decides nothing about its frame
	for i, bc := range g1NameReuse() {
		to := []string{"Total", "X", "MaxValue"}[i%3]
		cases = append(cases, BashCase{Key: "G9/" + to + "/" + bc.Key, Prog: renameProgram(bc.Prog, "x", to)})
	}
	// arguments and results that are slices (reference semantics across frames): the aliasing family of C03
	for _, bc := range s3Aliasing() {
		bc.Key = "G8/" + bc.Key
		cases = append(cases, bc)
	}
	return cases
}

func init() { register("C02", checkC02) }

func checkC02(c *Check) {
	c.Rule = "enumerated families (name-reuse matrix, global-write matrix, arity sweep, return-register hazards, simultaneous assignment, loop state across calls: 4 callee loop kinds x 5 ways of leaving x 4 caller loop kinds) plus a seeded random sweep of programs with 1-5 functions over a tiny name pool; non-trivial = the reference run executed at least one call and printed at least one line; distinct = SHA-256 of the source text"
	c.Assumptions = []string{"reference interpreter implements frames (scalars by value, slices by reference, globals in place)", "/bin/bash 5.2", "programs whose statement both reads a variable and calls a function writing it are discarded (unspecified in Go)"}
	nontrivial := func(r Result) bool {
		if len(r.Stdout) == 0 {
			return false
		}
		for k := range r.Features {
			if len(k) > 5 && k[:5] == "call:" {
				return true
			}
		}
		return false
	}
	cases := []BashCase{}
	for _, fc := range c02Families(c) {
		fc.NonTrivial = nontrivial
		cases = append(cases, fc)
	}
	c.Extra["enumerated_cases"] = len(cases)
	nrand := c.Pick(1500, 25000)
	cfg := genConfigs["c02"]
	cfg.NoNotNot = c.Gated("notnot")
	cfg.NoCmpChain = c.Gated("cmpchain")
	cfg.MultiAssign = !c.Gated("multiassign")
	for i := 0; i < nrand; i++ {
		seed := c.Seed*2000003 + int64(i)
		g := NewGen(seed, cfg)
		cases = append(cases, BashCase{Key: fmt.Sprintf("random/c02/seed=%d", seed), Prog: g.Program(), NonTrivial: nontrivial})
	}
	if c.Thorough() {
		oracleSelfCheck(c, cases, 3000)
	} else {
		oracleSelfCheck(c, cases, 300)
	}
	runProbes(c, bashProbeJudge)
	runBashCases(c, withTight(cases, 4))
}
