//go:build !norecorder

package main

import (
	"fmt"
	"strings"

	"github.com/monstermichl/typeshell/parser"
	"github.com/monstermichl/typeshell/transpiler"
)

// recordingConverter wraps a real converter and records every call made at the
// transpiler.Converter interface boundary (no repository change needed).
type recordingConverter struct {
	inner transpiler.Converter
	trace []string
}

func newRecorder(t Target) *recordingConverter {
	return &recordingConverter{inner: newConverter(t)}
}

func (r *recordingConverter) log(name string, args ...interface{}) {
	parts := make([]string, len(args))
	for i, a := range args {
		parts[i] = fmt.Sprintf("%q", fmt.Sprint(a))
	}
	r.trace = append(r.trace, name+"("+strings.Join(parts, ",")+")")
}

func (r *recordingConverter) StringToString(value string) string {
	out := r.inner.StringToString(value)
	r.log("StringToString", value)
	return out
}
func (r *recordingConverter) Dump() (string, error) { r.log("Dump"); return r.inner.Dump() }
func (r *recordingConverter) Extension() string     { return r.inner.Extension() }
func (r *recordingConverter) ProgramStart() error {
	r.log("ProgramStart")
	return r.inner.ProgramStart()
}
func (r *recordingConverter) ProgramEnd() error { r.log("ProgramEnd"); return r.inner.ProgramEnd() }
func (r *recordingConverter) VarDefinition(name string, value string, global bool) error {
	r.log("VarDefinition", name, value, global)
	return r.inner.VarDefinition(name, value, global)
}
func (r *recordingConverter) VarAssignment(name string, value string, global bool) error {
	r.log("VarAssignment", name, value, global)
	return r.inner.VarAssignment(name, value, global)
}
func (r *recordingConverter) SliceAssignment(name string, index string, value string, defaultValue string, global bool) error {
	r.log("SliceAssignment", name, index, value, defaultValue, global)
	return r.inner.SliceAssignment(name, index, value, defaultValue, global)
}
func (r *recordingConverter) FuncStart(name string, params []string, returnTypes []parser.ValueType) error {
	r.log("FuncStart", name, params, len(returnTypes))
	return r.inner.FuncStart(name, params, returnTypes)
}
func (r *recordingConverter) FuncEnd() error { r.log("FuncEnd"); return r.inner.FuncEnd() }
func (r *recordingConverter) Return(values []transpiler.ReturnValue) error {
	vs := []string{}
	for _, v := range values {
		vs = append(vs, v.Value())
	}
	r.log("Return", vs)
	return r.inner.Return(values)
}
func (r *recordingConverter) IfStart(condition string) error {
	r.log("IfStart", condition)
	return r.inner.IfStart(condition)
}
func (r *recordingConverter) IfEnd() error { r.log("IfEnd"); return r.inner.IfEnd() }
func (r *recordingConverter) ElseIfStart(condition string) error {
	r.log("ElseIfStart", condition)
	return r.inner.ElseIfStart(condition)
}
func (r *recordingConverter) ElseIfEnd() error { r.log("ElseIfEnd"); return r.inner.ElseIfEnd() }
func (r *recordingConverter) ElseStart() error { r.log("ElseStart"); return r.inner.ElseStart() }
func (r *recordingConverter) ElseEnd() error   { r.log("ElseEnd"); return r.inner.ElseEnd() }
func (r *recordingConverter) ForStart() error  { r.log("ForStart"); return r.inner.ForStart() }
func (r *recordingConverter) ForIncrementStart() error {
	r.log("ForIncrementStart")
	return r.inner.ForIncrementStart()
}
func (r *recordingConverter) ForIncrementEnd() error {
	r.log("ForIncrementEnd")
	return r.inner.ForIncrementEnd()
}
func (r *recordingConverter) ForCondition(condition string) error {
	r.log("ForCondition", condition)
	return r.inner.ForCondition(condition)
}
func (r *recordingConverter) ForEnd() error   { r.log("ForEnd"); return r.inner.ForEnd() }
func (r *recordingConverter) Break() error    { r.log("Break"); return r.inner.Break() }
func (r *recordingConverter) Continue() error { r.log("Continue"); return r.inner.Continue() }
func (r *recordingConverter) Print(value []string) error {
	r.log("Print", value)
	return r.inner.Print(value)
}
func (r *recordingConverter) Panic(value string) error {
	r.log("Panic", value)
	return r.inner.Panic(value)
}
func (r *recordingConverter) WriteFile(path string, content string, append string) error {
	r.log("WriteFile", path, content, append)
	return r.inner.WriteFile(path, content, append)
}
func (r *recordingConverter) Nop() error { r.log("Nop"); return r.inner.Nop() }
func (r *recordingConverter) UnaryOperation(expr string, operator parser.UnaryOperator, valueType parser.ValueType, valueUsed bool) (string, error) {
	s, err := r.inner.UnaryOperation(expr, operator, valueType, valueUsed)
	r.log("UnaryOperation", expr, operator, valueType.String(), valueUsed, s)
	return s, err
}
func (r *recordingConverter) BinaryOperation(left string, operator parser.BinaryOperator, right string, valueType parser.ValueType, valueUsed bool) (string, error) {
	s, err := r.inner.BinaryOperation(left, operator, right, valueType, valueUsed)
	r.log("BinaryOperation", left, operator, right, valueType.String(), valueUsed, s)
	return s, err
}
func (r *recordingConverter) Comparison(left string, operator parser.CompareOperator, right string, valueType parser.ValueType, valueUsed bool) (string, error) {
	s, err := r.inner.Comparison(left, operator, right, valueType, valueUsed)
	r.log("Comparison", left, operator, right, valueType.String(), valueUsed, s)
	return s, err
}
func (r *recordingConverter) LogicalOperation(left string, operator parser.LogicalOperator, right string, valueType parser.ValueType, valueUsed bool) (string, error) {
	s, err := r.inner.LogicalOperation(left, operator, right, valueType, valueUsed)
	r.log("LogicalOperation", left, operator, right, valueUsed, s)
	return s, err
}
func (r *recordingConverter) VarEvaluation(name string, valueUsed bool, global bool) (string, error) {
	s, err := r.inner.VarEvaluation(name, valueUsed, global)
	r.log("VarEvaluation", name, valueUsed, global, s)
	return s, err
}
func (r *recordingConverter) SliceInstantiation(values []string, valueUsed bool) (string, error) {
	s, err := r.inner.SliceInstantiation(values, valueUsed)
	r.log("SliceInstantiation", values, valueUsed, s)
	return s, err
}
func (r *recordingConverter) SliceEvaluation(name string, index string, valueUsed bool) (string, error) {
	s, err := r.inner.SliceEvaluation(name, index, valueUsed)
	r.log("SliceEvaluation", name, index, valueUsed, s)
	return s, err
}
func (r *recordingConverter) SliceLen(name string, valueUsed bool) (string, error) {
	s, err := r.inner.SliceLen(name, valueUsed)
	r.log("SliceLen", name, valueUsed, s)
	return s, err
}
func (r *recordingConverter) StringSubscript(value string, startIndex string, endIndex string, valueUsed bool) (string, error) {
	s, err := r.inner.StringSubscript(value, startIndex, endIndex, valueUsed)
	r.log("StringSubscript", value, startIndex, endIndex, valueUsed, s)
	return s, err
}
func (r *recordingConverter) StringLen(value string, valueUsed bool) (string, error) {
	s, err := r.inner.StringLen(value, valueUsed)
	r.log("StringLen", value, valueUsed, s)
	return s, err
}
func (r *recordingConverter) Group(value string, valueUsed bool) (string, error) {
	s, err := r.inner.Group(value, valueUsed)
	r.log("Group", value, valueUsed, s)
	return s, err
}
func (r *recordingConverter) FuncCall(name string, args []string, returnTypes []parser.ValueType, valueUsed bool) ([]string, error) {
	in := append([]string{}, args...)
	s, err := r.inner.FuncCall(name, args, returnTypes, valueUsed)
	r.log("FuncCall", name, in, len(returnTypes), valueUsed, s)
	return s, err
}
func (r *recordingConverter) AppCall(calls []transpiler.AppCall, valueUsed bool) ([]string, error) {
	desc := []string{}
	for _, c := range calls {
		desc = append(desc, c.Name()+fmt.Sprint(c.Args()))
	}
	s, err := r.inner.AppCall(calls, valueUsed)
	r.log("AppCall", desc, valueUsed, s)
	return s, err
}
func (r *recordingConverter) Input(prompt string, valueUsed bool) (string, error) {
	s, err := r.inner.Input(prompt, valueUsed)
	r.log("Input", prompt, valueUsed, s)
	return s, err
}
func (r *recordingConverter) Copy(destination string, source string, valueUsed bool, global bool) (string, error) {
	s, err := r.inner.Copy(destination, source, valueUsed, global)
	r.log("Copy", destination, source, valueUsed, global, s)
	return s, err
}
func (r *recordingConverter) Exists(path string, valueUsed bool) (string, error) {
	s, err := r.inner.Exists(path, valueUsed)
	r.log("Exists", path, valueUsed, s)
	return s, err
}
func (r *recordingConverter) ReadFile(path string, valueUsed bool) (string, error) {
	s, err := r.inner.ReadFile(path, valueUsed)
	r.log("ReadFile", path, valueUsed, s)
	return s, err
}
