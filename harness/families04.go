package main

import (
	"strings"
	"fmt"
)

// C04: effectful helpers. Each prints its tag and bumps a dedicated global
// counter that is only read by the final statement of the program.
func c04Prelude() []Stmt {
	return []Stmt{
		def("cnt", il(0)),
		def("on", bl(true)),
		def("off", bl(false)),
		def("xs", SliceLit{TInt, []Expr{il(10), il(20), il(30), il(40), il(50)}}),
		def("str", sl("abcdefgh")),
		VarDecl{Names: []string{"dst"}, Type: TSliceInt},
		fn("t", []Param{{"n", TInt}}, []Type{TInt}, pr(sl("t"), vr("n")), IncDec{"cnt", true}, ret(vr("n"))),
		fn("b", []Param{{"n", TInt}, {"v", TBool}}, []Type{TBool}, pr(sl("b"), vr("n")), IncDec{"cnt", true}, ret(vr("v"))),
		fn("s", []Param{{"n", TInt}, {"v", TString}}, []Type{TString}, pr(sl("s"), vr("n")), IncDec{"cnt", true}, ret(vr("v"))),
		fn("sli", []Param{{"n", TInt}}, []Type{TSliceInt}, pr(sl("sli"), vr("n")), IncDec{"cnt", true}, ret(SliceLit{TInt, []Expr{vr("n"), bin("+", vr("n"), il(1)), bin("+", vr("n"), il(2))}})),
		fn("f3", []Param{{"p", TInt}, {"q", TInt}, {"r", TInt}}, []Type{TInt}, pr(sl("f3"), vr("p"), vr("q"), vr("r")), ret(bin("+", bin("*", vr("p"), il(100)), bin("+", bin("*", vr("q"), il(10)), vr("r"))))),
		fn("f2s", []Param{{"p", TString}, {"q", TBool}}, []Type{TString}, pr(sl("f2s"), vr("p"), vr("q")), ret(bin("+", vr("p"), sl("!")))),
	}
}

func T(n int64) Expr            { return call("t", il(n)) }
func Bf(n int64, v bool) Expr   { return call("b", il(n), bl(v)) }
func Sf(n int64, v string) Expr { return call("s", il(n), sl(v)) }

type exprTemplate struct {
	name string
	t    Type
	e    Expr
}

func c04Templates() []exprTemplate {
	return []exprTemplate{
		{"add", TInt, bin("+", T(1), T(2))},
		{"sub-mul", TInt, bin("-", T(1), bin("*", T(2), T(3)))},
		{"group-mul", TInt, bin("*", Group{bin("+", T(1), T(2))}, T(3))},
		{"sub-group-right", TInt, bin("-", T(1), Group{bin("+", T(2), T(3))})},
		{"mul-group-right", TInt, bin("*", T(1), Group{bin("-", T(2), T(3))})},
		{"group-both-sides", TInt, bin("-", Group{bin("+", T(1), T(2))}, Group{bin("*", T(3), T(4))})},
		{"cmp-group-right", TBool, cmp("<", T(1), Group{bin("+", T(2), T(3))})},
		{"and-group-right", TBool, logic("&&", Bf(1, true), Group{logic("||", Bf(2, false), Bf(3, true))})},
		{"concat-group-right", TString, bin("+", Sf(1, "a"), Group{bin("+", Sf(2, "b"), Sf(3, "c"))})},
		{"call-minus-group-of-calls-nested", TInt, bin("-", T(1), Group{bin("-", T(2), Group{bin("-", T(3), T(4))})})},
		{"div-mod", TInt, bin("+", bin("/", T(9), T(2)), bin("%", T(7), T(3)))},
		{"four-ops", TInt, bin("-", bin("+", T(1), bin("*", T(2), T(3))), bin("/", T(8), T(4)))},
		{"cmp-int", TBool, cmp("<", T(1), T(2))},
		{"cmp-sum", TBool, cmp(">=", bin("+", T(1), T(2)), bin("*", T(3), T(4)))},
		{"cmp-str", TBool, cmp("==", Sf(1, "a"), Sf(2, "b"))},
		{"cmp-bool", TBool, cmp("!=", Bf(1, true), Bf(2, false))},
		{"cmp-chain", TBool, cmp("==", cmp("<", T(1), T(2)), Bf(3, true))},
		{"and-false-first", TBool, logic("&&", Bf(1, false), Bf(2, true))},
		{"and-true-first", TBool, logic("&&", Bf(1, true), Bf(2, false))},
		{"or-true-first", TBool, logic("||", Bf(1, true), Bf(2, false))},
		{"or-false-first", TBool, logic("||", Bf(1, false), Bf(2, true))},
		{"and-or", TBool, logic("||", logic("&&", Bf(1, false), Bf(2, true)), Bf(3, true))},
		{"or-and", TBool, logic("||", Bf(1, true), logic("&&", Bf(2, false), Bf(3, true)))},
		{"not", TBool, Not{Bf(1, true)}},
		{"not-group", TBool, Not{Group{logic("&&", Bf(1, true), Bf(2, true))}}},
		{"call-args", TInt, call("f3", T(1), T(2), T(3))},
		{"nested-call-args", TInt, call("f3", T(1), call("f3", T(2), T(3), T(4)), T(5))},
		{"call-of-sum", TInt, call("t", bin("+", T(1), T(2)))},
		{"mixed-args", TString, call("f2s", Sf(1, "p"), Bf(2, true))},
		{"slice-read-index", TInt, Index{"xs", T(1)}},
		{"slice-read-sum-index", TInt, Index{"xs", bin("+", T(1), T(2))}},
		{"slice-read-twice", TInt, bin("+", Index{"xs", T(1)}, Index{"xs", T(2)})},
		{"string-index", TString, Index{"str", T(1)}},
		{"string-index-sum", TString, Index{"str", bin("+", T(1), T(2))}},
		{"substr-both", TString, Substr{"str", T(1), T(4)}},
		{"substr-hi", TString, Substr{"str", nil, T(3)}},
		{"substr-lo", TString, Substr{"str", T(2), nil}},
		{"len-string", TInt, Len{Sf(1, "abc")}},
		{"len-concat", TInt, Len{bin("+", Sf(1, "ab"), Sf(2, "c"))}},
		{"len-slice", TInt, Len{call("sli", il(1))}},
		{"itoa", TString, Itoa{T(1)}},
		{"itoa-sum", TString, bin("+", Itoa{T(1)}, Itoa{bin("+", T(2), T(3))})},
		{"concat", TString, bin("+", bin("+", Sf(1, "a"), Sf(2, "b")), Sf(3, "c"))},
		{"copy-source", TInt, Copy{"dst", call("sli", il(1))}},
		{"slice-literal-len", TInt, Len{SliceLit{TInt, []Expr{T(1), T(2), T(3)}}}},
		// constant operands: an absorbing or neutral literal (or a variable holding it) next to an effectful
		// operand decides the value but not whether the operand is evaluated
		{"false-and-call", TBool, logic("&&", bl(false), Bf(1, true))},
		{"true-or-call", TBool, logic("||", bl(true), Bf(1, false))},
		{"true-and-call", TBool, logic("&&", bl(true), Bf(1, true))},
		{"false-or-call", TBool, logic("||", bl(false), Bf(1, true))},
		{"call-and-false", TBool, logic("&&", Bf(1, true), bl(false))},
		{"call-or-true", TBool, logic("||", Bf(1, false), bl(true))},
		{"const-var-and-call", TBool, logic("&&", vr("off"), Bf(1, true))},
		{"const-var-or-call", TBool, logic("||", vr("on"), Bf(1, false))},
		{"group-false-and-call-or-call", TBool, logic("||", Group{logic("&&", bl(false), Bf(1, true))}, Bf(2, true))},
		{"not-false-or-call", TBool, logic("||", Not{bl(false)}, Bf(1, true))},
		{"false-and-compare-of-calls", TBool, logic("&&", bl(false), cmp("<", T(1), T(2)))},
		{"zero-times-call", TInt, bin("*", il(0), T(1))},
		{"call-times-zero", TInt, bin("*", T(1), il(0))},
		{"call-times-one", TInt, bin("*", T(1), il(1))},
		{"zero-plus-call", TInt, bin("+", il(0), T(1))},
		{"call-minus-same-call", TInt, bin("-", T(1), T(1))},
		{"zero-divided-by-call", TInt, bin("/", il(0), T(1))},
		{"call-mod-one", TInt, bin("%", T(1), il(1))},
		{"empty-plus-call", TString, bin("+", sl(""), Sf(1, "a"))},
		{"same-call-equal", TBool, cmp("==", T(1), T(1))},
	}
}

// statement kinds wrapping an expression of type t
func c04StmtKinds(tpl exprTemplate, id int) map[string][]Stmt {
	v := fmt.Sprintf("v%d", id)
	out := map[string][]Stmt{
		"define":   {def(v, tpl.e), pr(sl("="), vr(v))},
		"var":      {VarDecl{Names: []string{v}, Type: tpl.t, Values: []Expr{tpl.e}}, pr(sl("="), vr(v))},
		"assign":   {VarDecl{Names: []string{v}, Type: tpl.t}, set(v, tpl.e), pr(sl("="), vr(v))},
		"print":    {pr(tpl.e)},
		"print-2":  {pr(sl("<"), tpl.e, sl(">"))},
		"exprstmt": {ExprStmt{tpl.e}},
	}
	switch tpl.t {
	case TInt:
		out["opassign"] = []Stmt{def(v, il(1000)), OpAssign{v, "+", tpl.e}, pr(sl("="), vr(v))}
		out["slice-write-value"] = []Stmt{SliceSet{"xs", il(0), tpl.e}, pr(sl("="), Index{"xs", il(0)})}
		out["multi-define"] = []Stmt{VarDecl{Names: []string{v, v + "b"}, Short: true, Values: []Expr{tpl.e, T(90)}}, pr(sl("="), vr(v), vr(v+"b"))}
	case TString:
		out["opassign"] = []Stmt{def(v, sl("pre")), OpAssign{v, "+", tpl.e}, pr(sl("="), vr(v))}
	case TBool:
		out["if-cond"] = []Stmt{If{Branches: []IfBranch{{tpl.e, []Stmt{pr(sl("then"))}}}, HasElse: true, Else: []Stmt{pr(sl("else"))}}}
		// the condition in every position a condition can stand in, with and without alternatives
		out["if-bare"] = []Stmt{If{Branches: []IfBranch{{tpl.e, []Stmt{pr(sl("then"))}}}}, pr(sl("after"))}
		out["if-with-elseif"] = []Stmt{If{Branches: []IfBranch{{tpl.e, []Stmt{pr(sl("then"))}}, {Bf(40, true), []Stmt{pr(sl("second"))}}}}, pr(sl("after"))}
		out["elseif-cond"] = []Stmt{If{Branches: []IfBranch{{Bf(41, false), []Stmt{pr(sl("first"))}}, {tpl.e, []Stmt{pr(sl("then"))}}}}, pr(sl("after"))}
		out["tagless-case"] = []Stmt{Switch{Cases: []SwitchCase{{E: tpl.e, Body: []Stmt{pr(sl("then"))}}}}, pr(sl("after"))}
		out["nested-if-bare"] = []Stmt{ifs(vr("on"), If{Branches: []IfBranch{{tpl.e, []Stmt{pr(sl("then"))}}}}), pr(sl("after"))}
		out["for-three-cond"] = []Stmt{For{Kind: ForThree, Init: def(v, il(0)), Cond: logic("&&", cmp("<", vr(v), il(2)), Group{tpl.e}), Post: IncDec{v, true}, Body: []Stmt{pr(sl("body"), vr(v))}}, pr(sl("after"))}
		out["for-cond"] = []Stmt{def(v, il(0)), For{Kind: ForCond, Cond: logic("&&", cmp("<", vr(v), il(2)), tpl.e), Body: []Stmt{IncDec{v, true}, pr(sl("body"), vr(v))}}}
	}
	if _, isCall := tpl.e.(Call); !isCall {
		if _, isCopy := tpl.e.(Copy); !isCopy {
			// a bare expression whose value is not used: the parser accepts most forms (unlike Go); the
			// accepted ones must still evaluate their operands once (cases of rejected forms are discarded)
			out["exprstmt-bare"] = out["exprstmt"]
			out["exprstmt-group"] = []Stmt{ExprStmt{Group{tpl.e}}}
			delete(out, "exprstmt")
		}
	}
	return out
}

func c04Families(c *Check) []BashCase {
	cases := []BashCase{}
	final := pr(sl("cnt"), vr("cnt"))
	for ti, tpl := range c04Templates() {
		kinds := c04StmtKinds(tpl, ti)
		for _, kn := range sortedStmtKeys(kinds) {
			body := kinds[kn]
			mr := strings.HasPrefix(kn, "exprstmt-")
			// context: top level
			cases = append(cases, BashCase{Key: fmt.Sprintf("E/%s/%s/top", tpl.name, kn), MayReject: mr, Prog: SingleFile(append(append(c04Prelude(), body...), final))})
			// context: function body (statement) and return position
			fbody := append([]Stmt{}, body...)
			stm := append(c04Prelude(), fn("ctx", nil, nil, fbody...), callS("ctx"), callS("ctx"), final)
			cases = append(cases, BashCase{Key: fmt.Sprintf("E/%s/%s/func", tpl.name, kn), MayReject: mr, Prog: SingleFile(stm)})
			// context: loop body, two iterations (multiplicity per iteration)
			stm = append(c04Prelude(), forUp("it", 2, body...), final)
			cases = append(cases, BashCase{Key: fmt.Sprintf("E/%s/%s/loop", tpl.name, kn), MayReject: mr, Prog: SingleFile(stm)})
		}
		// return position
		stm := append(c04Prelude(), fn("ctx", nil, []Type{tpl.t}, ret(tpl.e)), pr(call("ctx")), def("keep", call("ctx")), pr(vr("keep")), final)
		cases = append(cases, BashCase{Key: fmt.Sprintf("E/%s/return", tpl.name), Prog: SingleFile(stm)})
		if tpl.t == TInt {
			stm = append(c04Prelude(), fn("ctx2", nil, []Type{TInt, TInt}, ret(tpl.e, T(77))), VarDecl{Names: []string{"ra", "rb"}, Short: true, Values: []Expr{call("ctx2")}}, pr(vr("ra"), vr("rb")), final)
			cases = append(cases, BashCase{Key: fmt.Sprintf("E/%s/return2", tpl.name), Prog: SingleFile(stm)})
			// argument of a call nested in an operand
			stm = append(c04Prelude(), pr(bin("+", T(50), call("f3", tpl.e, T(60), T(70)))), final)
			cases = append(cases, BashCase{Key: fmt.Sprintf("E/%s/nested-arg", tpl.name), Prog: SingleFile(stm)})
			// slice write index
			stm = append(c04Prelude(), SliceSet{"xs", bin("%", tpl.e, il(5)), T(80)}, pr(Index{"xs", il(0)}, Index{"xs", il(1)}, Index{"xs", il(2)}, Index{"xs", il(3)}, Index{"xs", il(4)}), final)
			cases = append(cases, BashCase{Key: fmt.Sprintf("E/%s/slice-write-index", tpl.name), Prog: SingleFile(stm)})
		}
		if tpl.t == TString {
			stm = append(c04Prelude(), ifs(bl(false), Panic{tpl.e}), ifs(cmp("==", vr("cnt"), il(0)), Panic{tpl.e}), pr(sl("not reached")))
			cases = append(cases, BashCase{Key: fmt.Sprintf("E/%s/panic-arg", tpl.name), Prog: SingleFile(stm)})
		}
	}
	// loop conditions that measure something the body changes, or that call: evaluated before every iteration
	loops := map[string][]Stmt{
		"for3-len-of-call":        {For{Kind: ForThree, Init: def("i", il(0)), Cond: cmp("<", vr("i"), Len{Sf(1, "abc")}), Post: IncDec{"i", true}, Body: []Stmt{pr(sl("body"), vr("i"))}}},
		"for3-len-of-growing-slice": {def("q", SliceLit{TInt, []Expr{il(1)}}), For{Kind: ForThree, Init: def("i", il(0)), Cond: cmp("<", vr("i"), Len{vr("q")}), Post: IncDec{"i", true}, Body: []Stmt{ifs(cmp("<", Len{vr("q")}, il(4)), SliceSet{"q", Len{vr("q")}, bin("+", vr("i"), il(10))}), pr(sl("body"), vr("i"), Len{vr("q")})}}, pr(Len{vr("q")})},
		"for3-len-of-growing-string": {def("w", sl("a")), For{Kind: ForThree, Init: def("i", il(0)), Cond: cmp("<", vr("i"), Len{vr("w")}), Post: IncDec{"i", true}, Body: []Stmt{ifs(cmp("<", Len{vr("w")}, il(4)), OpAssign{"w", "+", sl("b")}), pr(sl("body"), vr("i"), vr("w"))}}},
		"for3-bound-variable-changes": {def("lim", il(2)), For{Kind: ForThree, Init: def("i", il(0)), Cond: cmp("<", vr("i"), vr("lim")), Post: IncDec{"i", true}, Body: []Stmt{ifs(cmp("==", vr("i"), il(1)), set("lim", il(4))), pr(sl("body"), vr("i"))}}},
		// the measured slice grows inside a callee (through a parameter, through a global): nothing in the loop's own text assigns it
		"for3-len-grown-by-callee-param":  {fn("grow", []Param{{"v", TSliceInt}}, nil, ifs(cmp("<", Len{vr("v")}, il(4)), SliceSet{"v", Len{vr("v")}, bin("*", Len{vr("v")}, il(3))})), def("q", SliceLit{TInt, []Expr{il(1)}}), For{Kind: ForThree, Init: def("i", il(0)), Cond: cmp("<", vr("i"), Len{vr("q")}), Post: IncDec{"i", true}, Body: []Stmt{callS("grow", vr("q")), pr(sl("body"), vr("i"), Len{vr("q")})}}, pr(Len{vr("q")})},
		"for3-len-grown-by-callee-global": {def("work", SliceLit{TString, []Expr{sl("a")}}), fn("more", nil, nil, ifs(cmp("<", Len{vr("work")}, il(3)), SliceSet{"work", Len{vr("work")}, sl("n")})), For{Kind: ForThree, Init: def("i", il(0)), Cond: cmp("<", vr("i"), Len{vr("work")}), Post: IncDec{"i", true}, Body: []Stmt{callS("more"), pr(sl("body"), vr("i"))}}, pr(Len{vr("work")})},
		"cond-len-grown-by-callee-result":  {def("text", sl("a")), fn("longer", []Param{{"w", TString}}, []Type{TString}, ret(bin("+", vr("w"), sl("b")))), def("i", il(0)), For{Kind: ForCond, Cond: cmp("<", vr("i"), Len{vr("text")}), Body: []Stmt{ifs(cmp("<", Len{vr("text")}, il(4)), set("text", call("longer", vr("text")))), IncDec{"i", true}, pr(sl("body"), vr("i"))}}},
		"for3-call-bound":         {For{Kind: ForThree, Init: def("i", il(0)), Cond: cmp("<", vr("i"), T(3)), Post: IncDec{"i", true}, Body: []Stmt{pr(sl("body"), vr("i"))}}},
		"for3-len-of-slice-call":  {For{Kind: ForThree, Init: def("i", il(0)), Cond: cmp("<", vr("i"), Len{call("sli", il(1))}), Post: IncDec{"i", true}, Body: []Stmt{pr(sl("body"), vr("i"))}}},
		"for3-post-calls":         {For{Kind: ForThree, Init: def("i", T(0)), Cond: cmp("<", vr("i"), il(3)), Post: OpAssign{"i", "+", T(1)}, Body: []Stmt{pr(sl("body"), vr("i"))}}},
		"cond-len-of-shrinking":   {def("w", sl("abcd")), For{Kind: ForCond, Cond: cmp(">", Len{vr("w")}, il(0)), Body: []Stmt{set("w", Substr{"w", il(1), nil}), pr(sl("body"), framed(vr("w")))}}},
		"cond-reversed-operands":  {def("q", SliceLit{TInt, []Expr{il(1)}}), For{Kind: ForThree, Init: def("i", il(0)), Cond: cmp(">", Len{vr("q")}, vr("i")), Post: IncDec{"i", true}, Body: []Stmt{ifs(cmp("<", Len{vr("q")}, il(3)), SliceSet{"q", Len{vr("q")}, il(5)}), pr(sl("body"), vr("i"))}}},
	}
	for _, k := range sortedStmtKeys(loops) {
		cases = append(cases, BashCase{Key: "E/loop-cond/" + k + "/top", Prog: SingleFile(append(append(c04Prelude(), loops[k]...), final))})
		// inside a function: function definitions of the case, and the globals defined before them, stay at top level
		lastFn := -1
		for i, st := range loops[k] {
			if _, isFn := st.(FuncDecl); isFn {
				lastFn = i
			}
		}
		hoisted, inner := loops[k][:lastFn+1], loops[k][lastFn+1:]
		cases = append(cases, BashCase{Key: "E/loop-cond/" + k + "/func", Prog: SingleFile(append(append(c04Prelude(), hoisted...), fn("ctx", nil, nil, inner...), callS("ctx"), callS("ctx"), final))})
	}
	// switches whose case expressions repeat textually: each one is still evaluated (the calls differ in effect)
	sw := map[string][]Stmt{
		"duplicate-case-calls-tagged":  {Switch{Tag: il(3), Cases: []SwitchCase{{E: T(1), Body: []Stmt{pr(sl("first"))}}, {E: T(1), Body: []Stmt{pr(sl("second"))}}, {E: T(3), Body: []Stmt{pr(sl("third"))}}, {E: T(3), Body: []Stmt{pr(sl("fourth"))}}, {Default: true, Body: []Stmt{pr(sl("default"))}}}}},
		"duplicate-case-calls-tagless": {Switch{Cases: []SwitchCase{{E: Bf(1, false), Body: []Stmt{pr(sl("first"))}}, {E: Bf(1, false), Body: []Stmt{pr(sl("second"))}}, {E: Bf(2, true), Body: []Stmt{pr(sl("third"))}}, {E: Bf(2, true), Body: []Stmt{pr(sl("fourth"))}}}}},
		"duplicate-case-counter":       {def("tick", il(0)), fn("next", nil, []Type{TInt}, IncDec{"tick", true}, IncDec{"cnt", true}, ret(vr("tick"))), Switch{Tag: il(2), Cases: []SwitchCase{{E: call("next"), Body: []Stmt{pr(sl("one"))}}, {E: call("next"), Body: []Stmt{pr(sl("two"))}}, {E: call("next"), Body: []Stmt{pr(sl("three"))}}}}, pr(vr("tick"))},
		"duplicate-if-conditions":      {If{Branches: []IfBranch{{Bf(1, false), []Stmt{pr(sl("a"))}}, {Bf(1, false), []Stmt{pr(sl("b"))}}, {Bf(1, true), []Stmt{pr(sl("c"))}}}, HasElse: true, Else: []Stmt{pr(sl("d"))}}},
		"if-chain-same-left-operand":   {def("tick", il(0)), fn("next", nil, []Type{TInt}, IncDec{"tick", true}, IncDec{"cnt", true}, pr(sl("next"), vr("tick")), ret(vr("tick"))), If{Branches: []IfBranch{{cmp("==", call("next"), T(5)), []Stmt{pr(sl("a"))}}, {cmp("==", call("next"), T(2)), []Stmt{pr(sl("b"))}}, {cmp("==", call("next"), T(9)), []Stmt{pr(sl("c"))}}}, HasElse: true, Else: []Stmt{pr(sl("d"))}}, pr(vr("tick"))},
		"if-chain-same-right-operand":  {If{Branches: []IfBranch{{cmp("==", T(1), T(7)), []Stmt{pr(sl("a"))}}, {cmp("==", T(2), T(7)), []Stmt{pr(sl("b"))}}, {cmp("<", T(3), T(7)), []Stmt{pr(sl("c"))}}}}},
		"continue-in-else-if-of-for3":  {For{Kind: ForThree, Init: def("i", T(0)), Cond: cmp("<", vr("i"), T(4)), Post: OpAssign{"i", "+", T(1)}, Body: []Stmt{If{Branches: []IfBranch{{cmp("==", vr("i"), il(9)), []Stmt{pr(sl("never"))}}, {cmp("==", vr("i"), il(1)), []Stmt{Continue{}}}}, HasElse: true, Else: []Stmt{pr(sl("else"), vr("i"))}}, pr(sl("body"), vr("i"))}}},
		"continue-in-later-case-of-for3": {For{Kind: ForThree, Init: def("i", il(0)), Cond: cmp("<", vr("i"), il(4)), Post: OpAssign{"i", "+", T(1)}, Body: []Stmt{Switch{Tag: vr("i"), Cases: []SwitchCase{{E: il(7), Body: []Stmt{pr(sl("seven"))}}, {E: il(1), Body: []Stmt{Continue{}}}, {E: il(2), Body: []Stmt{pr(sl("two")), Continue{}}}, {Default: true, Body: []Stmt{pr(sl("default"), vr("i"))}}}}, pr(sl("body"), vr("i"))}}},
		"same-call-both-sides":         {pr(cmp("==", T(1), T(1)), bin("+", T(2), T(2)), logic("&&", Bf(3, true), Bf(3, true)))},
	}
	for _, k := range sortedStmtKeys(sw) {
		cases = append(cases, BashCase{Key: "E/repeated-expressions/" + k + "/top", Prog: SingleFile(append(append(c04Prelude(), sw[k]...), final))})
		fnBody, fnDefs := []Stmt{}, []Stmt{}
		for _, st := range sw[k] {
			if _, isFn := st.(FuncDecl); isFn {
				fnDefs = append(fnDefs, st)
			} else if d, isDef := st.(VarDecl); isDef && len(d.Names) == 1 && d.Names[0] == "tick" {
				fnDefs = append(fnDefs, st)
			} else {
				fnBody = append(fnBody, st)
			}
		}
		cases = append(cases, BashCase{Key: "E/repeated-expressions/" + k + "/func", Prog: SingleFile(append(append(c04Prelude(), fnDefs...), fn("ctx", nil, nil, fnBody...), callS("ctx"), callS("ctx"), final))})
	}
	// operands that read the state of the file system stand before a call that changes it, in one statement
	fsCases := map[string][]Stmt{
		"exists-then-create": {fn("create", []Param{{"p", TString}}, []Type{TBool}, IncDec{"cnt", true}, Write{Path: vr("p"), Data: sl("made")}, ret(bl(true))), pr(Exists{sl("late.txt")}, call("create", sl("late.txt")), Exists{sl("late.txt")}), def("both", logic("||", Exists{sl("late2.txt")}, Not{call("create", sl("late2.txt"))})), pr(vr("both"))},
		"read-then-change":   {fn("change", []Param{{"p", TString}}, []Type{TString}, IncDec{"cnt", true}, Write{Path: vr("p"), Data: sl("new")}, ret(sl("changed"))), Write{Path: sl("doc.txt"), Data: sl("old")}, pr(Read{sl("doc.txt")}, call("change", sl("doc.txt")), Read{sl("doc.txt")}), def("j", bin("+", bin("+", Read{sl("doc.txt")}, call("change", sl("doc.txt"))), Itoa{Len{Read{sl("doc.txt")}}})), pr(vr("j"))},
	}
	fsCases["write-operands-in-order"] = []Stmt{Write{Path: Sf(1, "j.txt"), Data: Sf(2, "one"), Append: Bf(3, false)}, Write{Path: Sf(4, "j.txt"), Data: Sf(5, "two"), Append: Bf(6, true)}, Write{Path: bin("+", Sf(7, "j"), Sf(8, ".txt")), Data: bin("+", Sf(9, "th"), Sf(10, "ree")), Append: logic("||", Bf(11, false), Bf(12, true))}, pr(Read{sl("j.txt")}), pr(Exists{Sf(13, "j.txt")}, Read{Sf(14, "j.txt")})}
	fsCases["write-flag-decided-by-effect"] = []Stmt{fn("keep", []Param{{"p", TString}}, []Type{TBool}, IncDec{"cnt", true}, pr(sl("keep"), vr("cnt")), ret(cmp(">", vr("cnt"), il(2)))), fn("line", nil, []Type{TString}, IncDec{"cnt", true}, ret(bin("+", sl("entry "), Itoa{vr("cnt")}))), Write{Path: sl("journal.txt"), Data: call("line"), Append: call("keep", sl("journal.txt"))}, Write{Path: sl("journal.txt"), Data: call("line"), Append: call("keep", sl("journal.txt"))}, Write{Path: sl("journal.txt"), Data: call("line"), Append: call("keep", sl("journal.txt"))}, pr(Read{sl("journal.txt")})}
	for _, k := range sortedStmtKeys(fsCases) {
		cases = append(cases, BashCase{Key: "E/file-state/" + k + "/top", Prog: SingleFile(append(append(c04Prelude(), fsCases[k]...), final))})
	}
	// arguments of command calls: every stage's arguments in source order, over the whole chain
	for _, plen := range []int{1, 2, 3} {
		for _, capture := range []bool{false, true} {
			stages := []AppStage{}
			for k := 0; k < plen; k++ {
				stages = append(stages, AppStage{Name: "true", NameLit: true, Args: []Expr{Sf(int64(10*k+1), "a"), sl("lit"), Sf(int64(10*k+2), "b")}})
			}
			var st []Stmt
			if capture {
				st = []Stmt{VarDecl{Names: []string{"o", "e", "code"}, Short: true, Values: []Expr{AppCall{stages}}}, pr(framed(vr("o")), vr("code"))}
			} else {
				st = []Stmt{ExprStmt{AppCall{stages}}}
			}
			hook := func(stages [][]string, fs map[string][]byte) (string, int) { return "", 0 }
			cases = append(cases, BashCase{Key: fmt.Sprintf("E/command-arguments/len=%d/capture=%v/top", plen, capture), AppHook: hook, Prog: SingleFile(append(append(c04Prelude(), st...), final))})
			cases = append(cases, BashCase{Key: fmt.Sprintf("E/command-arguments/len=%d/capture=%v/func", plen, capture), AppHook: hook, Prog: SingleFile(append(c04Prelude(), fn("ctx", nil, nil, st...), callS("ctx"), callS("ctx"), final))})
		}
	}
	// control-flow positions
	ctl := map[string][]Stmt{
		"if-chain-all-conditions-first": {If{Branches: []IfBranch{{Bf(1, false), []Stmt{pr(sl("br1"))}}, {Bf(2, false), []Stmt{pr(sl("br2"))}}, {Bf(3, true), []Stmt{pr(sl("br3")), ExprStmt{T(31)}}}, {Bf(4, true), []Stmt{pr(sl("br4"))}}}, HasElse: true, Else: []Stmt{pr(sl("else"))}}},
		"if-chain-first-taken":          {If{Branches: []IfBranch{{Bf(1, true), []Stmt{pr(sl("br1")), ExprStmt{T(11)}}}, {Bf(2, true), []Stmt{pr(sl("br2"))}}}, HasElse: true, Else: []Stmt{pr(sl("else"))}}},
		"if-chain-none-taken":           {If{Branches: []IfBranch{{Bf(1, false), []Stmt{pr(sl("br1"))}}, {cmp("<", T(2), T(1)), []Stmt{pr(sl("br2"))}}}, HasElse: true, Else: []Stmt{pr(sl("else")), ExprStmt{T(9)}}}},
		"nested-if-in-branch":           {If{Branches: []IfBranch{{Bf(1, true), []Stmt{ifs(Bf(2, true), pr(sl("inner")))}}, {Bf(3, true), []Stmt{pr(sl("br2"))}}}}},
		"else-holding-only-an-if/outer-taken":     {If{Branches: []IfBranch{{Bf(1, true), []Stmt{pr(sl("A"))}}}, HasElse: true, Else: []Stmt{If{Branches: []IfBranch{{Bf(2, true), []Stmt{pr(sl("inner"))}}}}}}},
		"else-holding-only-an-if/outer-not-taken": {If{Branches: []IfBranch{{Bf(1, false), []Stmt{pr(sl("A"))}}}, HasElse: true, Else: []Stmt{If{Branches: []IfBranch{{Bf(2, true), []Stmt{pr(sl("inner"))}}, {Bf(3, true), []Stmt{pr(sl("inner2"))}}}, HasElse: true, Else: []Stmt{pr(sl("inner-else"))}}}}},
		"else-holding-only-a-switch/outer-taken":  {def("x", il(2)), If{Branches: []IfBranch{{Bf(1, true), []Stmt{pr(sl("A"))}}}, HasElse: true, Else: []Stmt{Switch{Tag: vr("x"), Cases: []SwitchCase{{E: T(2), Body: []Stmt{pr(sl("c2"))}}, {Default: true, Body: []Stmt{pr(sl("d"))}}}}}}},
		"else-if-then-else-with-if/second-taken":  {If{Branches: []IfBranch{{Bf(1, false), []Stmt{pr(sl("A"))}}, {Bf(2, true), []Stmt{pr(sl("B"))}}}, HasElse: true, Else: []Stmt{If{Branches: []IfBranch{{Bf(3, true), []Stmt{pr(sl("inner"))}}}}}}},
		"if-branch-holding-only-an-if/not-taken":  {If{Branches: []IfBranch{{Bf(1, false), []Stmt{If{Branches: []IfBranch{{Bf(2, true), []Stmt{pr(sl("inner"))}}}}}}}, HasElse: true, Else: []Stmt{pr(sl("E"))}}},
		"loop-body-holding-only-an-if":            {def("i", il(0)), For{Kind: ForCond, Cond: cmp("<", vr("i"), il(2)), Body: []Stmt{IncDec{"i", true}, If{Branches: []IfBranch{{cmp("==", vr("i"), il(1)), []Stmt{pr(sl("one"))}}}, HasElse: true, Else: []Stmt{If{Branches: []IfBranch{{Bf(5, true), []Stmt{pr(sl("inner"), vr("i"))}}}}}}}}},
		"case-body-holding-only-an-if":            {def("x", il(1)), Switch{Tag: vr("x"), Cases: []SwitchCase{{E: il(1), Body: []Stmt{pr(sl("c1"))}}, {Default: true, Body: []Stmt{If{Branches: []IfBranch{{Bf(2, true), []Stmt{pr(sl("inner"))}}}}}}}}},
		"if-chain-empty-last-elseif":    {If{Branches: []IfBranch{{Bf(1, false), []Stmt{pr(sl("br1"))}}, {Bf(2, true), []Stmt{}}}}, pr(sl("after"))},
		"if-chain-empty-trailing-elseifs": {If{Branches: []IfBranch{{Bf(1, false), []Stmt{pr(sl("br1"))}}, {Bf(2, false), []Stmt{}}, {Bf(3, false), []Stmt{}}}}, pr(sl("after"))},
		"if-chain-empty-middle":         {If{Branches: []IfBranch{{Bf(1, false), []Stmt{}}, {Bf(2, false), []Stmt{}}, {Bf(3, true), []Stmt{pr(sl("br3"))}}}}, pr(sl("after"))},
		"if-single-empty":               {If{Branches: []IfBranch{{Bf(1, true), []Stmt{}}}}, If{Branches: []IfBranch{{cmp("<", T(2), T(3)), []Stmt{}}}, HasElse: true, Else: []Stmt{}}, pr(sl("after"))},
		"if-chain-empty-else":           {If{Branches: []IfBranch{{Bf(1, false), []Stmt{pr(sl("br1"))}}, {Bf(2, false), []Stmt{pr(sl("br2"))}}}, HasElse: true, Else: []Stmt{}}, pr(sl("after"))},
		"switch-empty-last-case":        {def("x", il(2)), Switch{Tag: vr("x"), Cases: []SwitchCase{{E: T(1), Body: []Stmt{pr(sl("c1"))}}, {E: T(2), Body: []Stmt{}}}}, pr(sl("after"))},
		"switch-empty-trailing-cases":   {def("x", il(9)), Switch{Tag: vr("x"), Cases: []SwitchCase{{E: T(1), Body: []Stmt{pr(sl("c1"))}}, {E: T(2), Body: []Stmt{}}, {E: T(3), Body: []Stmt{}}}}, pr(sl("after"))},
		"switch-tagless-empty-cases":    {Switch{Cases: []SwitchCase{{E: Bf(1, false), Body: []Stmt{}}, {E: Bf(2, true), Body: []Stmt{}}, {E: Bf(3, true), Body: []Stmt{}}}}, pr(sl("after"))},
		"switch-empty-default":          {def("x", il(5)), Switch{Tag: vr("x"), Cases: []SwitchCase{{E: T(1), Body: []Stmt{pr(sl("c1"))}}, {E: T(2), Body: []Stmt{}}, {Default: true, Body: []Stmt{}}}}, pr(sl("after"))},
		// a branch that ends in a jump and is taken: the conditions behind it have been evaluated all the same
		"elseif-behind-continue":        {For{Kind: ForThree, Init: def("i", il(0)), Cond: cmp("<", vr("i"), il(3)), Post: IncDec{"i", true}, Body: []Stmt{If{Branches: []IfBranch{{cmp("==", vr("i"), il(1)), []Stmt{pr(sl("skip")), Continue{}}}, {Bf(2, true), []Stmt{pr(sl("second"), vr("i"))}}, {Bf(3, true), []Stmt{pr(sl("third"))}}}, HasElse: true, Else: []Stmt{pr(sl("else"))}}, pr(sl("body"), vr("i"))}}},
		"elseif-behind-break":           {For{Kind: ForThree, Init: def("i", il(0)), Cond: cmp("<", vr("i"), il(3)), Post: IncDec{"i", true}, Body: []Stmt{If{Branches: []IfBranch{{cmp("==", vr("i"), il(1)), []Stmt{pr(sl("stop")), Break{}}}, {Bf(2, false), []Stmt{pr(sl("second"))}}}}, pr(sl("body"), vr("i"))}}},
		"elseif-behind-return":          {fn("pick", []Param{{"k", TInt}}, []Type{TInt}, If{Branches: []IfBranch{{cmp("==", vr("k"), il(1)), []Stmt{ret(il(10))}}, {Bf(2, true), []Stmt{ret(il(20))}}, {Bf(3, true), []Stmt{ret(il(30))}}}}, ret(il(40))), pr(call("pick", il(1)), call("pick", il(2)))},
		"cases-behind-continue":         {For{Kind: ForThree, Init: def("i", il(0)), Cond: cmp("<", vr("i"), il(3)), Post: IncDec{"i", true}, Body: []Stmt{Switch{Tag: vr("i"), Cases: []SwitchCase{{E: T(1), Body: []Stmt{pr(sl("one")), Continue{}}}, {E: T(2), Body: []Stmt{pr(sl("two"))}}, {Default: true, Body: []Stmt{pr(sl("other"))}}}}, pr(sl("body"), vr("i"))}}},
		"cases-behind-return":           {fn("name", []Param{{"k", TInt}}, []Type{TString}, Switch{Tag: vr("k"), Cases: []SwitchCase{{E: T(1), Body: []Stmt{ret(sl("one"))}}, {E: T(2), Body: []Stmt{ret(sl("two"))}}, {E: T(3), Body: []Stmt{ret(sl("three"))}}}}, ret(sl("many"))), pr(call("name", il(1)), call("name", il(3)), call("name", il(9)))},
		"switch-case-expressions":       {def("x", il(2)), Switch{Tag: vr("x"), Cases: []SwitchCase{{E: T(1), Body: []Stmt{pr(sl("c1"))}}, {E: T(2), Body: []Stmt{pr(sl("c2")), ExprStmt{T(22)}}}, {Default: true, Body: []Stmt{pr(sl("d"))}}, {E: T(3), Body: []Stmt{pr(sl("c3"))}}}}},
		"switch-tagless":                {Switch{Cases: []SwitchCase{{E: Bf(1, false), Body: []Stmt{pr(sl("c1"))}}, {Default: true, Body: []Stmt{pr(sl("d")), ExprStmt{T(5)}}}, {E: Bf(2, false), Body: []Stmt{pr(sl("c2"))}}}}},
		"switch-string":                 {def("k", sl("b")), Switch{Tag: vr("k"), Cases: []SwitchCase{{E: Sf(1, "a"), Body: []Stmt{pr(sl("ca"))}}, {E: Sf(2, "b"), Body: []Stmt{pr(sl("cb"))}}, {E: Sf(3, "b"), Body: []Stmt{pr(sl("cb2"))}}}}},
		"for-three-clauses":             {For{Kind: ForThree, Init: def("i", T(0)), Cond: cmp("<", vr("i"), T(3)), Post: set("i", bin("+", vr("i"), T(1))), Body: []Stmt{pr(sl("body"), vr("i"))}}},
		"for-three-continue":            {For{Kind: ForThree, Init: def("i", T(0)), Cond: cmp("<", vr("i"), T(4)), Post: OpAssign{"i", "+", T(1)}, Body: []Stmt{ifs(cmp("==", vr("i"), il(1)), Continue{}), pr(sl("body"), vr("i"))}}},
		"for-cond":                      {def("i", il(0)), For{Kind: ForCond, Cond: logic("&&", Bf(1, true), cmp("<", vr("i"), T(2))), Body: []Stmt{IncDec{"i", true}, pr(sl("body"), vr("i"))}}},
		"for-cond-break":                {def("i", il(0)), For{Kind: ForCond, Cond: Bf(1, true), Body: []Stmt{IncDec{"i", true}, ifs(cmp(">", vr("i"), T(2)), Break{}), pr(sl("body"), vr("i"))}}},
		"for-nested-conditions":         {For{Kind: ForThree, Init: def("i", il(0)), Cond: cmp("<", vr("i"), T(2)), Post: IncDec{"i", true}, Body: []Stmt{For{Kind: ForThree, Init: def("j", T(10)), Cond: cmp("<", vr("j"), T(12)), Post: IncDec{"j", true}, Body: []Stmt{pr(sl("body"), vr("i"), vr("j"))}}}}},
		"slice-literal-elements":        {def("a", SliceLit{TInt, []Expr{T(1), bin("+", T(2), T(3)), T(4)}}), pr(Index{"a", il(0)}, Index{"a", il(1)}, Index{"a", il(2)})},
		"slice-literal-strings":         {def("a", SliceLit{TString, []Expr{Sf(1, "x"), Sf(2, "y")}}), pr(Index{"a", il(0)}, Index{"a", il(1)})},
		"slice-write-index-then-value":  {SliceSet{"xs", T(1), T(2)}, pr(Index{"xs", il(1)})},
		"slice-write-growth":            {SliceSet{"xs", bin("+", T(5), T(2)), T(3)}, pr(Len{vr("xs")}, Index{"xs", il(7)}, Index{"xs", il(6)})},
		"print-many":                    {pr(T(1), Sf(2, "two"), Bf(3, true), bin("+", T(4), T(5)))},
		"multi-assign-order":            {def("p", il(0)), def("q", il(0)), Assign{[]string{"p", "q"}, []Expr{T(1), T(2)}}, pr(vr("p"), vr("q"))},
		// functions that do nothing (empty body, or only a return): their arguments are evaluated all the same
		"stub-function-arguments":       {fn("stub", []Param{{"a", TInt}, {"b", TString}}, nil), callS("stub", T(1), Sf(2, "x")), callS("stub", bin("+", T(3), T(4)), sl("lit")), pr(sl("after"))},
		"stub-function-with-result":     {fn("zero", []Param{{"a", TInt}}, []Type{TInt}, ret(il(0))), pr(call("zero", T(1)), bin("+", call("zero", T(2)), T(3))), callS("zero", T(4))},
		"stub-function-in-conditions":   {fn("yes", []Param{{"a", TInt}}, []Type{TBool}, ret(bl(true))), fn("nop", nil, nil), If{Branches: []IfBranch{{call("yes", T(1)), []Stmt{callS("nop"), pr(sl("A"))}}, {call("yes", T(2)), []Stmt{pr(sl("B"))}}}}, forUp("k", 2, callS("nop"), ExprStmt{call("yes", T(5))})},
		"args-with-global-effects":      {pr(call("f3", T(1), T(2), T(3)), call("f3", T(4), T(5), T(6)))},
		"call-statement-args":           {callS("f3", T(1), T(2), T(3)), callS("t", T(4))},
		"return-values-order":           {fn("rv", nil, []Type{TInt, TString, TBool}, ret(T(1), Sf(2, "s"), Bf(3, true))), VarDecl{Names: []string{"r1", "r2", "r3"}, Short: true, Values: []Expr{call("rv")}}, pr(vr("r1"), vr("r2"), vr("r3"))},
		"condition-in-function-loop":    {fn("lp", []Param{{"n", TInt}}, []Type{TInt}, def("acc", il(0)), For{Kind: ForThree, Init: def("i", il(0)), Cond: cmp("<", vr("i"), call("t", vr("n"))), Post: IncDec{"i", true}, Body: []Stmt{OpAssign{"acc", "+", T(100)}}}, ret(vr("acc"))), pr(call("lp", il(2)))},
	}
	for _, k := range sortedStmtKeys(ctl) {
		cases = append(cases, BashCase{Key: "E/ctl/" + k, Prog: SingleFile(append(append(c04Prelude(), ctl[k]...), final))})
		stm := append(c04Prelude(), fn("ctx", nil, nil, ctl[k]...), callS("ctx"), final)
		if k != "return-values-order" && k != "condition-in-function-loop" && k != "elseif-behind-return" && k != "cases-behind-return" && !strings.HasPrefix(k, "stub-function") {
			cases = append(cases, BashCase{Key: "E/ctl/" + k + "/func", Prog: SingleFile(stm)})
		}
	}
	return cases
}

func init() { register("C04", checkC04) }

func checkC04(c *Check) {
	c.Rule = "cross product operand position (38 expression templates with numbered effectful calls) x statement kind x context (top level, function body, loop body, return, nested argument, panic argument) plus control-flow positions (if chains, switch cases, loop clauses) plus a random sweep with trace-printing functions; the oracle is the exact sequence of trace lines; non-trivial = at least 2 effectful calls executed; distinct = SHA-256 of the source"
	c.Assumptions = []string{"reference interpreter: left-to-right, exactly once, eager && / ||, all chain conditions before any branch, loop condition once per iteration after the post statement", "/bin/bash 5.2", "switch tags and range operands are never effectful (excluded by the property)"}
	nontrivial := func(r Result) bool {
		n := 0
		for k, v := range r.Features {
			if len(k) > 5 && k[:5] == "call:" {
				n += v
			}
		}
		return n >= 2 && len(r.Stdout) > 0
	}
	cases := []BashCase{}
	for _, fc := range c04Families(c) {
		fc.NonTrivial = nontrivial
		cases = append(cases, fc)
	}
	c.Extra["enumerated_cases"] = len(cases)
	cfg := GenCfg{MaxTop: 6, MaxBlock: 3, MaxDepth: 2, ExprDepth: 3, MaxFuncs: 4, Effects: true, Slices: true, StringOps: true, MultiAssign: true}
	nrand := c.Pick(400, 10000)
	for i := 0; i < nrand; i++ {
		seed := c.Seed*4000037 + int64(i)
		g := NewGen(seed, cfg)
		cases = append(cases, BashCase{Key: fmt.Sprintf("random/c04/seed=%d", seed), Prog: g.Program(), NonTrivial: nontrivial})
	}
	if c.Thorough() {
		oracleSelfCheck(c, cases, 3000)
	} else {
		oracleSelfCheck(c, cases, 300)
	}
	runProbes(c, bashProbeJudge)
	runBashCases(c, withTight(cases, 4))
}
