package main

import (
	"path/filepath"
	"sync"
	"fmt"
	"os"
	"os/exec"
	"regexp"
	"sort"
	"strings"
	"time"
)

func init() { register("C10", checkC10) }

// rolesOf classifies the user identifiers of a single-file program.
func rolesOf(p *Program) map[string][]string {
	roles := map[string][]string{}
	seen := map[string]bool{}
	add := func(role, name string) {
		if name == "" || seen[role+"/"+name] {
			return
		}
		seen[role+"/"+name] = true
		roles[role] = append(roles[role], name)
	}
	// "local" / "loopvar": defined in a block at top level (emitted under their own names); "flocal" / "floopvar":
	// defined inside a function body (emitted with the function's prefix)
	inFn := false
	var walk func(b []Stmt, inFunc bool)
	walk = func(b []Stmt, inFunc bool) {
		for _, s := range b {
			switch x := s.(type) {
			case VarDecl:
				for _, n := range x.Names {
					if inFn {
						add("flocal", n)
					} else if inFunc {
						add("local", n)
					} else {
						add("global", n)
					}
				}
			case FuncDecl:
				add("func", x.Name)
				for _, pa := range x.Params {
					add("param", pa.Name)
				}
				inFn = true
				walk(x.Body, true)
				inFn = false
			case If:
				for _, br := range x.Branches {
					walk(br.Body, true)
				}
				walk(x.Else, true)
			case Switch:
				for _, c := range x.Cases {
					walk(c.Body, true)
				}
			case For:
				lr := "loopvar"
				if inFn {
					lr = "floopvar"
				}
				if d, ok := x.Init.(VarDecl); ok {
					for _, n := range d.Names {
						add(lr, n)
					}
				}
				add(lr, x.RangeIdx)
				add(lr, x.RangeVal)
				walk(x.Body, true)
			}
		}
	}
	defer func() {
		// a name that also stands at top level (as a global, a block local or a loop variable there) is not a pure
		// function-level name: renaming it touches the top-level occurrence too
		topLevel := map[string]bool{}
		for _, r := range []string{"global", "local", "loopvar"} {
			for _, n := range roles[r] {
				topLevel[n] = true
			}
		}
		for _, r := range []string{"flocal", "floopvar"} {
			weak := map[string]string{"flocal": "local", "floopvar": "loopvar"}[r]
			kept := []string{}
			for _, n := range roles[r] {
				if topLevel[n] {
					if !seen[weak+"/"+n] {
						seen[weak+"/"+n] = true
						roles[weak] = append(roles[weak], n)
					}
					continue
				}
				kept = append(kept, n)
			}
			roles[r] = kept
		}
	}()
	// top-level blocks (if/for bodies) define block-local variables: treat them like locals
	for _, s := range p.Files[0].Stmts {
		switch x := s.(type) {
		case VarDecl:
			for _, n := range x.Names {
				add("global", n)
			}
		default:
			walk([]Stmt{x}, false)
		}
	}
	// identifiers of imported files (their public functions are called through the alias and keep their names)
	for _, f := range p.Files[1:] {
		var lw func(b []Stmt, inFunc bool)
		lw = func(b []Stmt, inFunc bool) {
			for _, s := range b {
				switch x := s.(type) {
				case VarDecl:
					for _, n := range x.Names {
						if inFunc {
							add("lib-local", n)
						} else {
							add("lib-global", n)
						}
					}
				case FuncDecl:
					if x.Name[0] >= 'a' && x.Name[0] <= 'z' {
						add("lib-func", x.Name)
					}
					for _, pa := range x.Params {
						add("lib-local", pa.Name)
					}
					lw(x.Body, true)
				case If:
					for _, br := range x.Branches {
						lw(br.Body, true)
					}
					lw(x.Else, true)
				case For:
					if d, ok := x.Init.(VarDecl); ok {
						for _, n := range d.Names {
							add("lib-local", n)
						}
					}
					add("lib-local", x.RangeIdx)
					add("lib-local", x.RangeVal)
					lw(x.Body, true)
				}
			}
		}
		lw(f.Stmts, false)
	}
	return roles
}

// definesVisibleGlobalAgain reports whether some function or block defines (by :=, var, parameter, loop or
// range variable) a name that a global variable defined textually before it already has. The language has no
// shadowing: such a definition is rejected, and in a multi-name := it re-uses the global, where Go's meaning
// (which the reference follows) would be a new local. Renamings must not create that situation.
func definesVisibleGlobalAgain(p *Program) bool {
	for _, f := range p.Files {
		globals := map[string]bool{}
		var inner func(b []Stmt) bool
		inner = func(b []Stmt) bool {
			for _, s := range b {
				switch x := s.(type) {
				case VarDecl:
					for _, n := range x.Names {
						if globals[n] {
							return true
						}
					}
				case FuncDecl:
					for _, pa := range x.Params {
						if globals[pa.Name] {
							return true
						}
					}
					if inner(x.Body) {
						return true
					}
				case If:
					for _, br := range x.Branches {
						if inner(br.Body) {
							return true
						}
					}
					if inner(x.Else) {
						return true
					}
				case Switch:
					for _, c := range x.Cases {
						if inner(c.Body) {
							return true
						}
					}
				case For:
					if d, ok := x.Init.(VarDecl); ok {
						for _, n := range d.Names {
							if globals[n] {
								return true
							}
						}
					}
					if globals[x.RangeIdx] || globals[x.RangeVal] {
						return true
					}
					if inner(x.Body) {
						return true
					}
				}
			}
			return false
		}
		for _, s := range f.Stmts {
			if d, ok := s.(VarDecl); ok {
				for _, n := range d.Names {
					globals[n] = true
				}
				continue
			}
			if inner([]Stmt{s}) {
				return true
			}
		}
	}
	return false
}

// c10Interpret: the reference run; the one external program the workload calls (basename) is modelled.
func c10Interpret(p *Program) Result {
	it := &Interp{Width: 32, MaxSteps: interpBudget, prog: p, Stdin: strings.Split(strings.TrimSuffix(c10IOStdin, "\n"), "\n")}
	it.AppHook = func(stages [][]string) (string, int) {
		if len(stages) == 1 && stages[0][0] == "basename" && len(stages[0]) == 2 {
			return filepath.Base(stages[0][1]) + "\n", 0
		}
		return "", 127
	}
	return it.Run()
}

func renameProgram(p *Program, from, to string) *Program {
	return (&Rewriter{Name: func(kind, n string) string {
		if n == from {
			return to
		}
		return n
	}}).Program(p)
}

func c10Programs(c *Check) []*Program {
	I := func(vs ...int64) Expr {
		e := []Expr{}
		for _, v := range vs {
			e = append(e, il(v))
		}
		return SliceLit{TInt, e}
	}
	p1 := SingleFile([]Stmt{
		def("gvar", il(5)),
		def("gslice", I(1, 2, 3)),
		def("gtext", sl("hello world")),
		fn("fone", []Param{{"par", TInt}, {"spar", TString}}, []Type{TInt, TString},
			def("loc", bin("*", vr("par"), il(2))),
			def("acc", il(0)),
			For{Kind: ForThree, Init: def("lv", il(0)), Cond: cmp("<", vr("lv"), vr("loc")), Post: IncDec{"lv", true}, Body: []Stmt{OpAssign{"acc", "+", bin("+", vr("lv"), vr("gvar"))}}},
			For{Kind: ForRange, RangeIdx: "ri", RangeVal: "rv", Over: vr("gslice"), Body: []Stmt{OpAssign{"acc", "+", bin("*", vr("ri"), vr("rv"))}}},
			set("gvar", bin("+", vr("gvar"), il(1))),
			ret(vr("acc"), bin("+", vr("spar"), Itoa{vr("loc")}))),
		fn("ftwo", []Param{{"sl2", TSliceInt}}, []Type{TInt}, SliceSet{"sl2", Len{vr("sl2")}, il(9)}, def("cnt", Copy{"sl2", vr("sl2")}), ret(bin("+", vr("cnt"), Index{"sl2", il(0)}))),
		VarDecl{Names: []string{"n", "s"}, Short: true, Values: []Expr{call("fone", il(3), sl("k"))}},
		pr(vr("n"), vr("s"), vr("gvar"), Len{vr("gslice")}, Index{"gslice", il(1)}),
		pr(call("ftwo", vr("gslice")), Len{vr("gslice")}, Len{vr("gtext")}, Substr{"gtext", il(1), il(4)}, Index{"gtext", il(0)}),

		For{Kind: ForThree, Init: def("ti", il(0)), Cond: cmp("<", vr("ti"), il(2)), Post: IncDec{"ti", true}, Body: []Stmt{
			If{Branches: []IfBranch{{cmp("==", vr("ti"), il(0)), []Stmt{def("blk", bin("+", vr("ti"), il(10))), pr(vr("blk"))}}}, HasElse: true, Else: []Stmt{pr(cmp("!=", vr("gtext"), sl("x")), logic("&&", bl(true), cmp(">", vr("gvar"), il(1))))}},
		}},
		Switch{Tag: vr("n"), Cases: []SwitchCase{{E: il(1), Body: []Stmt{pr(sl("one"))}}, {Default: true, Body: []Stmt{pr(sl("other"), Not{cmp("==", vr("n"), il(0))})}}}},
	})
	p2 := SingleFile([]Stmt{
		def("total", il(0)),
		def("names", SliceLit{TString, []Expr{sl("a"), sl("b c")}}),
		fn("join", []Param{{"items", TSliceString}, {"sep", TString}}, []Type{TString},
			def("out", sl("")),
			For{Kind: ForRange, RangeIdx: "idx", RangeVal: "item", Over: vr("items"), Body: []Stmt{
				ifs(cmp(">", vr("idx"), il(0)), OpAssign{"out", "+", vr("sep")}),
				OpAssign{"out", "+", vr("item")}, IncDec{"total", true}}},
			ret(vr("out"))),
		fn("wrap", []Param{{"txt", TString}}, []Type{TString}, def("res", bin("+", bin("+", sl("["), vr("txt")), sl("]"))), ret(vr("res"))),
		fn("deepc", []Param{{"val", TInt}}, []Type{TInt}, ret(bin("+", vr("val"), il(3)))),
		fn("deepb", []Param{{"val", TInt}}, []Type{TInt}, ret(bin("*", call("deepc", vr("val")), il(2)))),
		fn("deepa", []Param{{"val", TInt}}, []Type{TInt}, ret(bin("-", call("deepb", vr("val")), il(1)))),
		fn("flag", []Param{{"val", TInt}}, []Type{TBool}, def("big", cmp(">", vr("val"), il(1))), ret(logic("||", vr("big"), cmp("==", vr("val"), il(-1))))),
		def("joined", call("wrap", call("join", vr("names"), sl(", ")))),
		pr(vr("joined"), vr("total"), call("flag", vr("total")), call("flag", il(0))),
		pr(call("deepa", il(4))),
		def("w", il(0)),
		For{Kind: ForCond, Cond: cmp("<", vr("w"), il(3)), Body: []Stmt{IncDec{"w", true}, ifs(cmp("==", vr("w"), il(2)), Continue{}), pr(vr("w"))}},
		VarDecl{Names: []string{"grown"}, Type: TSliceBool}, SliceSet{"grown", il(2), bl(true)}, pr(Len{vr("grown")}, Index{"grown", il(0)}, Index{"grown", il(2)}),
		// globals as operands of the slice helpers at top level (copy destination and source, element store, range)
		VarDecl{Names: []string{"mirror"}, Type: TSliceString}, def("moved", Copy{"mirror", vr("names")}), SliceSet{"mirror", Len{vr("mirror")}, sl("tail")},
		For{Kind: ForRange, RangeIdx: "at", RangeVal: "entry", Over: vr("mirror"), Body: []Stmt{pr(vr("at"), vr("entry"))}}, pr(vr("moved"), Len{vr("mirror")}, Len{vr("names")}),
	})
	p3 := SingleFile([]Stmt{
		fn("countc", []Param{{"text", TString}, {"want", TString}}, []Type{TInt},
			def("hits", il(0)),
			For{Kind: ForRange, RangeIdx: "pos", RangeVal: "ch", Over: vr("text"), Body: []Stmt{ifs(cmp("==", vr("ch"), vr("want")), IncDec{"hits", true})}},
			ret(vr("hits"))),
		fn("report", []Param{{"text", TString}}, []Type{TString},
			def("hits", call("countc", vr("text"), sl("a"))),
			def("more", call("countc", vr("text"), sl("b"))),
			def("limit", il(6)),
			For{Kind: ForRange, RangeIdx: "pos", RangeVal: "ch", Over: vr("text"), Body: []Stmt{IncDec{"limit", false}, ifs(cmp("==", vr("ch"), sl("z")), IncDec{"limit", true})}},
			ret(bin("+", bin("+", bin("+", Itoa{vr("hits")}, sl("/")), Itoa{vr("more")}), bin("+", sl("/"), Itoa{vr("limit")})))),
		def("text", sl("abcabca")),
		def("hits", il(100)),
		pr(call("report", vr("text")), vr("hits"), call("countc", vr("text"), sl("c"))),
		def("names", SliceLit{TString, []Expr{sl("x"), sl("y"), sl("z"), sl("w")}}),
		def("limit", il(10)),
		For{Kind: ForRange, RangeIdx: "pos", RangeVal: "name", Over: vr("names"), Body: []Stmt{IncDec{"limit", false}, pr(vr("pos"), vr("name"))}},
		pr(sl("left"), vr("limit"), vr("hits")),
		// top-level block variables that share their names with locals of the function called inside the block
		// (report is the last function of the file)
		For{Kind: ForRange, RangeIdx: "pos", RangeVal: "ch", Over: sl("ab"), Body: []Stmt{def("more", bin("+", vr("pos"), il(50))), pr(call("report", bin("+", vr("ch"), sl("zb"))), vr("pos"), vr("ch"), vr("more"))}},
		ifs(cmp(">", vr("limit"), il(0)), def("more", il(7)), def("ch", sl("q")), pr(call("report", sl("bb")), vr("more"), vr("ch"))),
	})
	// p4: two files; the imported file has globals, a private and public functions with ordinary names
	p4 := &Program{Files: []*File{
		{Name: "main.tsh", Imports: []Import{{Alias: "m", Path: "lib.tsh"}}, Stmts: []Stmt{
			def("width", il(3)),
			fn("decorate", []Param{{"txt", TString}}, []Type{TString}, def("out", bin("+", vr("txt"), sl("."))), ret(vr("out"))),
			pr(Call{Alias: "m", Fn: "Fmt", Args: []Expr{sl("x")}}, Call{Alias: "m", Fn: "Level"}, call("decorate", sl("y")), vr("width")),
			pr(Call{Alias: "m", Fn: "Fmt", Args: []Expr{call("decorate", sl("z"))}}, Call{Alias: "m", Fn: "Bump"}, Call{Alias: "m", Fn: "Level"}),
		}},
		{Name: "lib.tsh", Stmts: []Stmt{
			def("indent", sl("--")),
			def("depth", il(2)),
			def("reach", bin("*", vr("depth"), il(4))), // initialised from the global before it: the order of definitions is the order of the text
			def("calls", il(0)),
			fn("pad", []Param{{"count", TInt}}, []Type{TString}, def("out", sl("")), For{Kind: ForThree, Init: def("step", il(0)), Cond: cmp("<", vr("step"), vr("count")), Post: IncDec{"step", true}, Body: []Stmt{OpAssign{"out", "+", vr("indent")}}}, ret(vr("out"))),
			fn("Fmt", []Param{{"txt", TString}}, []Type{TString}, IncDec{"calls", true}, def("lead", call("pad", vr("depth"))), ret(bin("+", vr("lead"), vr("txt")))),
			fn("Level", nil, []Type{TInt}, ret(bin("+", bin("*", vr("depth"), il(10)), vr("calls")))),
			fn("Bump", nil, []Type{TInt}, IncDec{"depth", true}, ret(bin("+", vr("depth"), vr("reach")))),
		}},
	}}
	// p5: an external program called by identifier (program names and identifiers are different name spaces); the
	// cmd model runs no programs, so this one counts for the Bash target only
	p5 := SingleFile([]Stmt{
		def("label", sl("dir/leaf.txt")),
		fn("leaf", []Param{{"route", TString}, {"extra", TString}}, []Type{TString}, VarDecl{Names: []string{"outp", "errp", "codep"}, Short: true, Values: []Expr{AppCall{[]AppStage{{Name: "basename", Args: []Expr{vr("route")}}}}}}, ret(bin("+", bin("+", vr("outp"), vr("extra")), Itoa{vr("codep")}))),
		VarDecl{Names: []string{"bo", "be", "bc"}, Short: true, Values: []Expr{AppCall{[]AppStage{{Name: "basename", Args: []Expr{vr("label")}}}}}}, pr(vr("bo"), vr("bc"), call("leaf", sl("a/b/c"), sl("!"))),
		ExprStmt{AppCall{[]AppStage{{Name: "basename", Args: []Expr{sl("x/y")}}}}}, pr(call("leaf", vr("label"), vr("bo"))),
	})
	progs := []*Program{p1, p2, p3, p4, p5}
	n := c.Pick(2, 8)
	for i := 0; i < n; i++ {
		cfg := genConfigs[[]string{"c02", "c03"}[i%2]]
		cfg.SmallNames = false
		cfg.Panic = false
		cfg.MaxTop = 5
		for try := 0; try < 20; try++ {
			g := NewGen(c.Seed*10000019+int64(i*31+try), cfg)
			p := g.Program()
			if r := Interpret(p, 32, interpBudget); r.Undefined == "" && !r.BigLiteral && len(r.Stdout) > 0 {
				progs = append(progs, p)
				break
			}
		}
	}
	return append(progs, c10IOProgram())
}

// c10IOProgram: every identifier of this program lives across the statements whose translation uses the shell's
// own machinery (input, read, write, exists, a captured command, the slice helpers, value lists, loops): a back end
// that routes one of them through a shell variable, builtin or function of its own choosing (REPLY, command, ...)
// meets the user's name here. It reads standard input (c10IOStdin). It is the LAST program of the list and is
// visited by every name of the shell-name classes in every role and on every identifier of the role.
const c10IOStdin = "first line\nsecond\nthird one\n"

func c10IOProgram() *Program {
	I := func(vs ...int64) Expr {
		e := []Expr{}
		for _, v := range vs {
			e = append(e, il(v))
		}
		return SliceLit{TInt, e}
	}
	return SingleFile([]Stmt{
		def("gtotal", il(1)),
		def("gnote", sl("n")),
		fn("early", []Param{{"val", TInt}, {"mark", TString}}, []Type{TInt}, def("twice", bin("*", vr("val"), il(2))), ifs(cmp("==", vr("mark"), sl("m")), OpAssign{"twice", "+", Len{vr("mark")}}), ret(bin("+", vr("twice"), il(1)))),
		fn("work", []Param{{"amount", TInt}, {"tag", TString}}, []Type{TInt, TString},
			def("base", bin("+", vr("amount"), vr("gtotal"))),
			def("line", Input{}),
			Write{Path: sl("store.txt"), Data: bin("+", vr("tag"), vr("line"))},
			def("back", Read{sl("store.txt")}),
			def("seen", Exists{sl("store.txt")}),
			VarDecl{Names: []string{"outp", "errp", "codep"}, Short: true, Values: []Expr{AppCall{[]AppStage{{Name: "basename", Args: []Expr{bin("+", sl("dir/"), vr("tag"))}}}}}},
			def("nums", I(1, 2)),
			SliceSet{"nums", il(3), vr("amount")},
			VarDecl{Names: []string{"dup"}, Type: TSliceInt},
			def("cnt", Copy{"dup", vr("nums")}),
			For{Kind: ForThree, Init: def("step", il(0)), Cond: cmp("<", vr("step"), il(2)), Post: IncDec{"step", true}, Body: []Stmt{OpAssign{"base", "+", vr("step")}}},
			For{Kind: ForRange, RangeIdx: "at", RangeVal: "ch", Over: vr("tag"), Body: []Stmt{ifs(cmp("==", vr("ch"), sl("b")), OpAssign{"base", "+", vr("at")})}},
			ifs(vr("seen"), OpAssign{"base", "+", bin("+", bin("+", vr("cnt"), vr("codep")), Len{vr("back")})}),
			VarDecl{Names: []string{"lo", "hi"}, Short: true, Values: []Expr{vr("base"), vr("gtotal")}},
			Assign{[]string{"lo", "hi"}, []Expr{vr("hi"), vr("lo")}},
			set("gtotal", bin("+", vr("gtotal"), il(1))),
			ret(bin("+", bin("*", vr("lo"), il(1000)), vr("hi")), bin("+", bin("+", bin("+", vr("back"), sl("|")), vr("outp")), vr("errp")))),
		VarDecl{Names: []string{"first", "ftext"}, Short: true, Values: []Expr{call("work", il(3), sl("ab"))}},
		def("answer", Input{sl("? ")}),
		VarDecl{Names: []string{"second", "stext"}, Short: true, Values: []Expr{call("work", il(4), sl("cd"))}},
		For{Kind: ForThree, Init: def("turn", il(0)), Cond: cmp("<", vr("turn"), il(2)), Post: IncDec{"turn", true}, Body: []Stmt{def("kept", Read{sl("store.txt")}), pr(vr("turn"), vr("kept"), Exists{sl("none.txt")})}},
		pr(vr("first"), vr("ftext"), vr("second"), vr("stext")),
		pr(vr("answer"), vr("gtotal"), vr("gnote"), call("early", vr("gtotal"), sl("m"))),
	})
}

var identRe = regexp.MustCompile(`[A-Za-z_][A-Za-z0-9_]*`)

func nameClass(n string, origin string) string {
	if origin == "near-miss" {
		return "near-miss"
	}
	switch {
	case regexp.MustCompile(`^_h\d+$`).MatchString(n):
		return "temporary"
	case regexp.MustCompile(`^_(rv|fa|fv|dv|ma)\d+$`).MatchString(n):
		return "register"
	case regexp.MustCompile(`^f\d+_`).MatchString(n):
		return "mangled-local"
	case regexp.MustCompile(`^i[0-9a-f]{7}_`).MatchString(n):
		return "import-prefixed"
	case regexp.MustCompile(`^_(sah|sch|ssh|sls|slg|stsh|stlh|ech|ach|frh|fwh|seh)$`).MatchString(n) || strings.HasPrefix(n, "_eo_") || strings.HasPrefix(n, "_ret_"):
		return "helper-routine"
	case strings.HasPrefix(n, "_"):
		return "underscore-internal"
	}
	return origin
}

func checkC10(c *Check) {
	c.Rule = "metamorphic + reference: programs that print values only (never names) are renamed one identifier at a time, per role (global, local, parameter, function, loop/range variable), into target names (a) harvested at check time from the emitted Bash and Batch scripts of the same programs (temporaries, registers, mangled locals, helper routines and their scratch variables, keywords of the shells), (b) the running bash's own builtins, keywords and variables (compgen -bkv) and a fixed list of cmd.exe variables, (c) case variants of the program's own names, (d) fresh random identifiers as control group, (e) the program's own other identifiers (another scope, file or kind) wherever the reference semantics say the renaming preserves the meaning; one of the programs consists of two files; the renamed program must be rejected or behave exactly like the original (real bash run; Batch under the cmd model, inconclusive where unmodelled). Non-trivial = renamed program accepted and executed; distinct = (program, role, target name)"
	c.Assumptions = []string{"programs never print identifier names, so the reference output is invariant under renaming", "Batch behaviour is relative to the cmd model (dynamic pseudo-variables such as RANDOM or ERRORLEVEL are not modelled)"}
	progs := c10Programs(c)
	type base struct {
		p       *Program
		ref     Result
		roles   map[string][]string
		own     map[string]bool
		bash    string
		batch   string
		io      bool
	}
	bases := []base{}
	harvest := map[string]string{} // name -> origin class
	for _, p := range progs {
		ref := c10Interpret(p)
		if ref.Undefined != "" {
			continue
		}
		b := base{p: p, ref: ref, roles: rolesOf(p), own: map[string]bool{}, io: p == progs[len(progs)-1]}
		vs, fs := CollectNames(p)
		for _, n := range append(vs, fs...) {
			b.own[n] = true
		}
		dir := newSandbox()
		mainPath, _ := WriteProgram(dir, p)
		ta := TranspileFile(mainPath, Bash, 30*time.Second)
		tb := TranspileFile(mainPath, Batch, 30*time.Second)
		os.RemoveAll(dir)
		if !ta.OK() || !tb.OK() {
			continue
		}
		b.bash, b.batch = ta.Script, tb.Script
		// a base program must itself behave like the reference before its renamings mean anything
		{
			run := newSandbox()
			rr := RunBash(run, ta.Script, RunOpts{Timeout: 10 * time.Second, Stdin: c10IOStdin})
			os.RemoveAll(run)
			if rr.TimedOut {
				if verdict, r2 := DecideTimeout(ta.Script, 200*ref.Steps+20000, RunOpts{Stdin: c10IOStdin}, newSandbox); verdict == "finished" {
					rr = r2
				} else if verdict == "inconclusive" {
					c.Inconclusive("base program: bash watchdog fired twice without a step-limit verdict")
					continue
				}
			}
			if rr.TimedOut || rr.Stdout != ref.Stdout || rr.Exit != ref.Exit || rr.Stderr != "" {
				c.Eval("base\x00"+RenderFile(p.Files[0]), true)
				c.Violation(fmt.Sprintf("base-program/%d", len(bases)), "a program of the workload does not behave like the reference before any renaming: "+firstDiff(ref.Stdout, rr.Stdout)+" stderr "+oneLine(clip(rr.Stderr, 200)), map[string]string{"main.tsh": RenderFile(p.Files[0]), "script.sh": ta.Script, "expected.stdout": ref.Stdout})
				continue
			}
		}
		for _, w := range identRe.FindAllString(ta.Script, -1) {
			if !b.own[w] {
				harvest[w] = "bash-script-word"
			}
		}
		for _, w := range identRe.FindAllString(strings.ReplaceAll(tb.Script, "\r\n", "\n"), -1) {
			if !b.own[w] {
				if _, ok := harvest[w]; !ok {
					harvest[w] = "batch-script-word"
				}
			}
		}
		bases = append(bases, b)
	}
	// the shell's own names
	if out, err := exec.Command("env", "-i", "PATH=/usr/bin:/bin", "/bin/bash", "-c", "compgen -bkv").Output(); err == nil {
		for _, w := range strings.Fields(string(out)) {
			if identRe.FindString(w) == w {
				if _, ok := harvest[w]; !ok {
					harvest[w] = "bash-own-name"
				}
			}
		}
	}
	// variables and builtins bash gives a meaning to although a fresh shell does not list them (set as a side effect of
	// builtins, or special only once assigned)
	for _, w := range []string{"REPLY", "OPTARG", "OPTERR", "MAPFILE", "COPROC", "PIPESTATUS", "FUNCNAME", "BASH_REMATCH", "RANDOM", "SRANDOM", "SECONDS", "EPOCHSECONDS", "LINENO", "GROUPS",
		"OLDPWD", "PWD", "HOME", "IFS", "PATH", "CDPATH", "ENV", "BASH_ENV", "PS4", "POSIXLY_CORRECT", "TIMEFORMAT", "TMOUT", "GLOBIGNORE", "LC_ALL", "LANG", "TMPDIR", "SHELL", "HISTFILE", "BASH_XTRACEFD", "IGNOREEOF", "INPUTRC", "MAIL", "CHILD_MAX", "EXECIGNORE", "FCEDIT", "FIGNORE", "FUNCNEST", "HOSTFILE", "COLUMNS", "LINES", "PROMPT_COMMAND", "READLINE_LINE", "BASH_COMPAT", "BASH_LOADABLES_PATH", "histchars", "auto_resume"} {
		if _, ok := harvest[w]; !ok {
			harvest[w] = "bash-own-name"
		}
	}
	for _, w := range []string{"errorlevel", "random", "cd", "date", "time", "path", "cmdcmdline", "cmdextversion", "comspec", "os", "pathext", "prompt", "temp", "tmp", "username", "ERRORLEVEL", "PATH", "nul", "con", "LF", "end", "eof"} {
		if _, ok := harvest[w]; !ok {
			harvest[w] = "cmd-name"
		}
	}
	for _, w := range []string{"fresh_name_a", "Zq7", "another_fresh_1", "veryUnlikelyName42", "q_q", "x9y8", "Abc_def", "k0", "aaa_first", "zzz_last", "AAA_First", "ZZZ9", "a0", "z"} {
		harvest[w] = "fresh-control" // the last six sort before / after every name of the programs
	}
	// spellings outside the identifier alphabet that a byte-wise or Unicode-class scanner might let through: today
	// they are refused, which the property allows; accepted, they must behave like any other name
	for _, w := range []string{"\u00b5s", "caf\u00e9", "\u00aa", "n\u00ba", "\u00fcber", "x\u00b2", "\u00c5ngstrom", "\u03bb", "na\u00efve"} {
		harvest[w] = "non-ascii"
	}
	// near misses of the compiler-owned spellings: a prefix, a suffix, a neighbouring name. They are ordinary user
	// names today; a back-end that starts to depend on a prefix or pattern turns them into captures.
	perClass := map[string]int{}
	hk := []string{}
	for n := range harvest {
		hk = append(hk, n)
	}
	sort.Strings(hk)
	for _, n := range hk {
		origin := harvest[n]
		cl := nameClass(n, origin)
		if cl == "temporary" || cl == "register" || cl == "mangled-local" || cl == "import-prefixed" || cl == "underscore-internal" || cl == "helper-routine" {
			perClass[cl]++
			if !c.Thorough() && perClass[cl] > 4 {
				continue
			}
			for _, nm := range []string{n + "x", n + "_", n + "0x", strings.TrimRight(n, "0123456789") + "its", "x" + n, strings.ToUpper(n[:1]) + n[1:] + "q"} {
				if identRe.FindString(nm) == nm {
					if _, ok := harvest[nm]; !ok {
						harvest[nm] = "near-miss"
					}
				}
			}
		}
	}
	names := []string{}
	for n := range harvest {
		if !reservedWords[n] {
			names = append(names, n)
		}
	}
	sort.Strings(names)
	c.Extra["target_names"] = len(names)
	classCount := map[string]int{}
	type job struct {
		bi            int
		role, from, to string
		class         string
	}
	jobs := []job{}
	for bi, b := range bases {
		if os.Getenv("VERIF_C10_IO_ALL") != "" && !b.io {
			continue
		}
		for _, role := range []string{"global", "local", "flocal", "param", "func", "loopvar", "floopvar", "lib-global", "lib-local", "lib-func"} {
			cands := b.roles[role]
			if len(cands) == 0 {
				continue
			}
			for ni, to := range names {
				if b.own[to] {
					continue
				}
				if bases[bi].io {
					// the io program: every name of the classes for which recorded findings exist visits this fixed program
					// under a class of its own (<class>@io), so that the findings can list the exact (role, name) cells that
					// fail on it instead of a whole class: the thorough tier tries every identifier of the role, the quick
					// tier two of them (a subset of the same cells)
					if cl := nameClass(to, harvest[to]); (cl == "bash-own-name" || cl == "bash-script-word" || cl == "temporary" || cl == "register") && harvest[to] != "near-miss" {
						for k2, f2 := range cands {
							if !c.Thorough() && os.Getenv("VERIF_C10_IO_ALL") == "" && k2 != ni%len(cands) && k2 != (ni+len(cands)/2)%len(cands) {
								continue
							}
							classCount[cl+"@io"]++
							jobs = append(jobs, job{bi, role, f2, to, cl + "@io"})
						}
						continue
					}
				}
				if os.Getenv("VERIF_C10_IO_ALL") != "" {
					continue // only the io program's cells are wanted (used to draw up the list of recorded cells)
				}
				if !c.Thorough() && bi >= 3 && ni%7 != bi%7 {
					continue // quick tier: generated programs visit a seventh of the names each
				}
				if c.Thorough() && bi >= 5 && ni%3 != bi%3 {
					continue // thorough tier: generated programs visit a third of the names each
				}
				from := cands[(ni+bi)%len(cands)]
				cl := nameClass(to, harvest[to])
				if !c.Thorough() && (cl == "bash-own-name" || cl == "mangled-local") && (ni+int(c.Seed))%4 != 0 {
					continue // quick tier: a quarter of the two largest classes (both are recorded findings)
				}
				if !c.Thorough() && harvest[to] == "near-miss" && (ni+int(c.Seed))%2 != 0 {
					continue // quick tier: every second near-miss name
				}
				if harvest[to] == "near-miss" {
					cl = "near-miss"
				}
				// a harvested word that contains one of the program's identifiers is derived from user names
				// (e.g. a hidden <index>_len): every identifier of the role is renamed to it, not just one
				derived := false
				for o := range b.own {
					if len(o) >= 2 && strings.Contains(to, o) && to != o && harvest[to] != "fresh-control" {
						derived = true
					}
				}
				// very short words of the emitted scripts (loop counters and scratch names of helpers such as i, n, c, l)
				// are tried on every unmangled identifier of the role, not on one
				// the target differs from another identifier of the program only in letter case: its own class
				clFor := func(victim string, cl string) string {
					for o := range b.own {
						if o != victim && strings.EqualFold(o, to) {
							return "case-variant"
						}
					}
					return cl
				}
				short := len(to) <= 2 && (harvest[to] == "bash-script-word" || harvest[to] == "batch-script-word") && (role == "global" || role == "func" || role == "lib-global")
				if short {
					for _, f2 := range cands {
						if f2 != from {
							classCount[clFor(f2, cl)+"(short, all-candidates)"]++
							jobs = append(jobs, job{bi, role, f2, to, clFor(f2, cl)})
						}
					}
				}
				if derived || cl == "near-miss" {
					for k2, f2 := range cands {
						if !c.Thorough() && cl == "near-miss" && !derived && k2 >= 3 {
							break // quick tier: a near-miss name visits three identifiers of the role
						}
						if f2 != from {
							classCount[clFor(f2, cl)+"(all-candidates)"]++
							jobs = append(jobs, job{bi, role, f2, to, clFor(f2, cl)})
						}
					}
				}
				for o := range b.own {
					if o != from && strings.EqualFold(o, to) {
						cl = "case-variant" // the target differs from another identifier of the program only in letter case
					}
				}
				classCount[cl]++
				jobs = append(jobs, job{bi, role, from, to, cl})
			}
			// the program's own names as targets: an identifier takes the spelling of another identifier of the
			// program (other scope, other file, other kind). Kept only if the reference semantics say the renamed
			// program is still well defined and prints the same (decided in the job), and the parser accepts it.
			ownNames := []string{}
			for o := range b.own {
				ownNames = append(ownNames, o)
			}
			sort.Strings(ownNames)
			for _, from := range cands {
				if bi >= 8 {
					break // own-name renamings on the hand-written programs and the first generated ones
				}
				for _, to := range ownNames {
					if to != from {
						classCount["own-name"]++
						jobs = append(jobs, job{bi, role, from, to, "own-name"})
					}
				}
			}
			// the names of the external programs the program calls (@name(...)) as names of its variables and
			// functions: program names are a name space of their own
			if strings.Contains(b.bash, "basename") {
				for _, from := range cands {
					for _, to := range []string{"basename"} {
						if !b.own[to] {
							classCount["called-program-name"]++
							jobs = append(jobs, job{bi, role, from, to, "called-program-name"})
						}
					}
				}
			}
			// names built from the program's own function names (a prefix or suffix joined with an underscore): a
			// front end or back end that cuts names at underscores must not confuse them
			if role == "func" || role == "lib-func" || role == "global" {
				for _, from := range cands {
					for _, other := range append(append([]string{}, b.roles["func"]...), b.roles["lib-func"]...) {
						if other == from {
							continue
						}
						for _, to := range []string{"zz_" + other, other + "_zz", other + "_", "_" + other} {
							if !b.own[to] && !reservedWords[to] && nameClass(to, "derived-own") == "derived-own" {
								classCount["derived-from-own-function"]++
								jobs = append(jobs, job{bi, role, from, to, "derived-from-own-function"})
							}
						}
					}
				}
			}
			// case variants of the program's own names
			for _, from := range cands {
				var to string
				if strings.ToLower(from) != from {
					to = strings.ToLower(from)
				} else {
					to = strings.ToUpper(from[:1]) + from[1:]
				}
				other := ""
				for o := range b.own {
					if o != from && strings.EqualFold(o, to) {
						other = o
					}
				}
				_ = other
				if !b.own[to] && !reservedWords[to] {
					// rename ANOTHER identifier to the case variant of `from` so that both spellings coexist
					for _, victim := range append(append([]string{}, b.roles["global"]...), b.roles["local"]...) {
						if victim != from && !strings.EqualFold(victim, from) {
							jobs = append(jobs, job{bi, role, victim, to, "case-variant"})
							classCount["case-variant"]++
							break
						}
					}
				}
			}
		}
	}
	// one job per (program, from, to)
	{
		seen := map[string]bool{}
		uniq := jobs[:0]
		for _, j := range jobs {
			k := fmt.Sprintf("%d/%s/%s", j.bi, j.from, j.to)
			if !seen[k] {
				seen[k] = true
				uniq = append(uniq, j)
			}
		}
		jobs = uniq
	}
	c.Extra["renamings_per_class"] = classCount
	spent := map[string]time.Duration{}
	defer func() {
		m := map[string]string{}
		for k, v := range spent {
			m[k] = v.Round(time.Second).String()
		}
		c.Extra["cpu_time_per_program"] = m
	}()
	var spentMu sync.Mutex
	parallelDo(len(jobs), 16, func(i int) {
		j := jobs[i]
		b := bases[j.bi]
		t0 := time.Now()
		defer func() {
			spentMu.Lock()
			spent[fmt.Sprintf("program%d", j.bi)] += time.Since(t0)
			spentMu.Unlock()
		}()
		rp := renameProgram(b.p, j.from, j.to)
		if j.class == "own-name" && definesVisibleGlobalAgain(rp) && !definesVisibleGlobalAgain(b.p) {
			c.Count("own_name_renamings_not_meaning_preserving_skipped", 1)
			return
		}
		if j.class == "own-name" {
			// a renaming onto another identifier can make the program ill typed; the reference interpreter assumes
			// well-typed programs, so any fault inside it means "not a meaning-preserving renaming"
			var r2 Result
			func() {
				defer func() {
					if rec := recover(); rec != nil {
						r2 = Result{Undefined: "ill-typed after renaming"}
					}
				}()
				r2 = c10Interpret(rp)
			}()
			if r2.Undefined != "" || r2.Stdout != b.ref.Stdout || r2.Exit != b.ref.Exit {
				c.Count("own_name_renamings_not_meaning_preserving_skipped", 1)
				return
			}
		}
		dir := newSandbox()
		defer os.RemoveAll(dir)
		mainPath, srcs := WriteProgram(dir, rp)
		files := map[string]string{"renamed.tsh": srcs["main.tsh"], "original.tsh": RenderFile(b.p.Files[0]), "expected.stdout": b.ref.Stdout}
		for n, src := range srcs {
			if n != "main.tsh" {
				files["renamed-"+n] = src
			}
		}
		summary := fmt.Sprintf("renaming %s %q -> %q", j.role, j.from, j.to)
		// Bash
		ta := TranspileFile(mainPath, Bash, 30*time.Second)
		if ta.Panic != "" || ta.Hang {
			c.Eval(fmt.Sprintf("bash/%d/%s/%s", j.bi, j.role, j.to), true)
			c.Violation(fmt.Sprintf("bash/%s/%s/%s", j.class, j.role, j.to), summary+": Transpile crashed: "+firstLine(ta.Panic), files)
		} else if ta.Err == nil {
			run := newSandbox()
			rr := RunBash(run, ta.Script, RunOpts{Timeout: 6 * time.Second, Stdin: c10IOStdin})
			os.RemoveAll(run)
			if rr.TimedOut {
				// decided on logical steps, not on wall time
				verdict, r2 := DecideTimeout(ta.Script, 200*b.ref.Steps+20000, RunOpts{Stdin: c10IOStdin}, newSandbox)
				switch verdict {
				case "finished":
					rr = r2
				case "inconclusive":
					c.Inconclusive("bash watchdog fired twice without a step-limit verdict")
					if os.Getenv("VERIF_VERBOSE") != "" {
						fmt.Printf("I bash/%s/%s/%s :: %s\n", j.class, j.role, j.to, summary)
					}
					return
				}
			}
			c.Eval(fmt.Sprintf("bash/%d/%s/%s", j.bi, j.role, j.to), true)
			if rr.TimedOut || rr.Stdout != b.ref.Stdout || rr.Exit != b.ref.Exit || rr.Stderr != "" {
				files["script.sh"] = ta.Script
				files["observed.stdout"] = clip(rr.Stdout, 3000)
				files["observed.stderr"] = clip(rr.Stderr, 2000)
				what := "stdout differs: " + firstDiff(b.ref.Stdout, rr.Stdout)
				if rr.TimedOut {
					what = fmt.Sprintf("script does not terminate (more than %d shell steps where the reference needs %d)", 200*b.ref.Steps+20000, b.ref.Steps)
				} else if rr.Stdout == b.ref.Stdout {
					what = fmt.Sprintf("exit %d (expected %d), stderr %q", rr.Exit, b.ref.Exit, oneLine(clip(rr.Stderr, 160)))
				}
				c.Violation(fmt.Sprintf("bash/%s/%s/%s", j.class, j.role, j.to), summary+" changes the Bash script's behaviour: "+what, files)
			}
		} else {
			c.Eval(fmt.Sprintf("bash/%d/%s/%s", j.bi, j.role, j.to), false)
			c.Count("renamings_rejected_by_transpile", 1)
		}
		// Batch under the model (programs that call external programs are judged on the Bash target only)
		tb := TranspileFile(mainPath, Batch, 30*time.Second)
		if tb.OK() && !strings.Contains(b.batch, "basename") {
			okAny := false
			var last CmdResult
			for v := 0; v < 2; v++ {
				r := RunCmdModel(tb.Script, 600*b.ref.Steps+20000, dir, c10IOStdin, v == 1)
				last = r
				if r.Unmodelled != "" {
					c.Inconclusive("cmd model: " + firstWords(r.Unmodelled, 4))
					return
				}
				if !r.NonTerm && r.ScriptErr == "" && r.Stdout == b.ref.Stdout && r.Exit == b.ref.Exit {
					okAny = true
				}
			}
			c.Eval(fmt.Sprintf("batch/%d/%s/%s", j.bi, j.role, j.to), true)
			if !okAny {
				files["script.bat"] = tb.Script
				files["observed-batch.stdout"] = clip(last.Stdout, 3000)
				what := "stdout differs: " + firstDiff(b.ref.Stdout, last.Stdout)
				if last.NonTerm {
					what = "script does not terminate under the model"
				} else if last.ScriptErr != "" {
					what = "script error: " + last.ScriptErr
				}
				c.Violation(fmt.Sprintf("batch/%s/%s/%s", j.class, j.role, j.to), summary+" changes the Batch script's behaviour (cmd model): "+what, files)
			}
		}
		if i%1501 == 3 {
			c.Sample(map[string]interface{}{"program": j.bi, "role": j.role, "from": j.from, "to": j.to, "class": j.class})
		}
	})
}
