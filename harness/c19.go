package main

import (
	"crypto/sha256"
	"encoding/hex"
	"fmt"
	"os"
	"os/exec"
	"path/filepath"
	"sort"
	"strings"
	"time"
)

func init() { register("C19", checkC19) }

func tshPath() string {
	exe, _ := os.Executable()
	return filepath.Join(filepath.Dir(exe), "tsh")
}

type fileStamp struct {
	Size  int64
	Mode  os.FileMode
	MTime time.Time
	Sha   string
	Dir   bool
}

func stampTree(root string) map[string]fileStamp {
	out := map[string]fileStamp{}
	filepath.Walk(root, func(p string, info os.FileInfo, err error) error {
		if err != nil {
			return nil
		}
		rel, _ := filepath.Rel(root, p)
		if rel == "." {
			return nil
		}
		st := fileStamp{Size: info.Size(), Mode: info.Mode(), MTime: info.ModTime(), Dir: info.IsDir()}
		if !info.IsDir() {
			b, _ := os.ReadFile(p)
			h := sha256.Sum256(b)
			st.Sha = hex.EncodeToString(h[:])
		} else {
			st.Size = 0
			st.MTime = time.Time{} // directory mtimes change when entries are added; entries are compared themselves
		}
		out[rel] = st
		return nil
	})
	return out
}

type c19Prog struct {
	name   string
	files  map[string]string
	accept bool
}

func c19Programs() []c19Prog {
	lib := "Value := 3\nfunc Get() int {\n\treturn 7\n}\nfunc helper() int {\n\treturn 1\n}\n"
	return []c19Prog{
		{"hello", map[string]string{"main.tsh": "print(\"hello\")\n"}, true},
		{"functions", map[string]string{"main.tsh": "func add(a int, b int) int {\n\treturn a + b\n}\nx := add(1, 2)\nfor i := 0; i < x; i++ {\n\tprint(i)\n}\n"}, true},
		{"slices", map[string]string{"main.tsh": "s := []string{\"a\"}\ns[2] = \"c\"\nfor i, v := range s {\n\tprint(i, v, len(s))\n}\nt := \"hello\"\nprint(t[1:3], len(t))\n"}, true},
		{"builtins", map[string]string{"main.tsh": "write(\"f.txt\", \"x\")\nprint(read(\"f.txt\"), exists(\"f.txt\"), itoa(3))\na, b, c := @echo(\"hi\")\nprint(a, c)\nv := input(\"? \")\nprint(v)\n"}, true},
		{"switch-panic", map[string]string{"main.tsh": "x := 2\nswitch x {\ncase 1:\n\tprint(1)\ndefault:\n\tpanic(\"bad\")\n}\n"}, true},
		{"import-local", map[string]string{"main.tsh": "import l \"lib.tsh\"\n\nprint(l.Get())\n", "lib.tsh": lib}, true},
		{"import-std", map[string]string{"main.tsh": "import \"strings\"\n\nprint(strings.Contains(\"abc\", \"b\"), strings.Repeat(\"x\", 3))\n"}, true},
		{"import-both", map[string]string{"main.tsh": "import (\n\t\"strings\"\n\tl \"sub/lib.tsh\"\n)\n\nprint(strings.HasPrefix(\"ab\", \"a\"), l.Get())\n", "sub/lib.tsh": lib}, true},
		{"empty", map[string]string{"main.tsh": ""}, true},
		{"comment-only", map[string]string{"main.tsh": "// nothing here\n"}, true},
		{"bytes-crlf-literal", map[string]string{"main.tsh": "print(\"one\\r\\ntwo\")\ns := \"a\\r\\nb\\r\\n\"\nprint(len(s), s)\n"}, true},
		{"bytes-cr-tab-literal", map[string]string{"main.tsh": "print(\"a\\rb\\tc \")\nprint(\"trailing blanks   \")\nprint(\"\\n\\n\")\n"}, true},
		{"bytes-crlf-source", map[string]string{"main.tsh": "x := 1\r\nprint(x, \"a\\r\\nb\")\r\nif x == 1 {\r\n\tprint(`raw\r\nline`)\r\n}\r\n"}, true},
		{"bytes-no-final-newline", map[string]string{"main.tsh": "print(\"end\")"}, true},
		{"bytes-non-ascii", map[string]string{"main.tsh": "print(\"h\u00e9llo \u2713 \\u00e9\")\n"}, true},
		// every counter of the transpiler and of the converters moves: value lists, loops in loops, helpers, frames,
		// slice literals, subscripts, call chains (an implementation that keeps a counter across the targets of one
		// invocation writes other bytes for the second target than the library does)
		{"every-counter", map[string]string{"main.tsh": "import \"strings\"\n\nfunc two(a int, b string) (int, string) {\n\tx, y := a + 1, b + \"!\"\n\tx, y = x * 2, y + y\n\treturn x, y\n}\nfunc sum(s []int) int {\n\tt := 0\n\tfor _, v := range s {\n\t\tt += v\n\t}\n\treturn t\n}\na, b := 1, 2\na, b = b, a\nn, w := two(a, \"w\")\nfor i := 0; i < 2; i++ {\n\tfor j := 0; j < 2; j++ {\n\t\tif i == j && n > 0 || false {\n\t\t\tcontinue\n\t\t}\n\t\tp, q := i, j\n\t\tp, q = q, p\n\t\tprint(p, q, sum([]int{i, j, 3}))\n\t}\n}\nswitch {\ncase a > b:\n\tprint(w[1:3], len(w), itoa(n))\ndefault:\n\tprint(strings.Repeat(w, 2))\n}\ns := []string{\"x\", \"y\"}\ns[3] = \"z\"\nt := []string{\"\"}\nprint(copy(t, s), len(s), s[3], t[0])\no, e, c := @echo(\"hi\") | @cat()\nprint(o, e, c)\nwrite(\"f.txt\", o)\nprint(read(\"f.txt\"), exists(\"f.txt\"))\n"}, true},
		{"fail-lexical", map[string]string{"main.tsh": "print(\"unterminated)\n"}, false},
		{"fail-syntax", map[string]string{"main.tsh": "if true {\n\tprint(1)\n"}, false},
		{"fail-type", map[string]string{"main.tsh": "x := 1 + \"a\"\n"}, false},
		{"fail-scope", map[string]string{"main.tsh": "print(nowhere)\n"}, false},
		{"fail-conversion", map[string]string{"main.tsh": "print(1)\nb := \"a\" < \"b\"\nprint(b)\n"}, false},
		{"fail-missing-import", map[string]string{"main.tsh": "import m \"missing.tsh\"\n\nprint(1)\n"}, false},
		{"fail-import-cycle", map[string]string{"main.tsh": "import m \"main.tsh\"\n\nprint(1)\n"}, false},
		{"fail-conversion-in-else", map[string]string{"main.tsh": "x := 1\nif x == 2 {\n\tprint(1)\n} else {\n\tb := \"a\" < \"b\"\n\tprint(b)\n}\n"}, false},
		{"fail-conversion-in-default", map[string]string{"main.tsh": "x := 1\nswitch x {\ncase 2:\n\tprint(2)\ndefault:\n\tprint(\"a\" < \"b\")\n}\n"}, false},
		{"fail-conversion-in-function", map[string]string{"main.tsh": "print(1)\nfunc f() bool {\n\treturn \"a\" > \"b\"\n}\nprint(f())\n"}, false},
		{"fail-conversion-in-import", map[string]string{"main.tsh": "import l \"lib.tsh\"\n\nprint(l.Less())\n", "lib.tsh": "func Less() bool {\n\treturn \"a\" <= \"b\"\n}\n"}, false},
		{"fail-late", map[string]string{"main.tsh": "print(1)\nprint(2)\nfunc f() int {\n\treturn \"s\"\n}\n"}, false},
	}
}

type c19Case struct {
	key        string
	prog       c19Prog
	inputName  string   // relative path of the input file inside the work dir
	outDir     string   // relative or absolute ("ABS:" prefix = absolute inside work dir)
	targets    []string // in order
	argOrder   string   // permutation of "iot"
	long       bool
	absInput   bool
	stale      bool // pre-populate the output directory with stale output files
	strace     string // "", "openat-eacces", "write-enospc"
	outIsDir   bool   // the output file path already exists as a directory
	outIsInput bool   // the output path of one of the targets is the input file
	outLink    string // when set: the -o argument is this symbolic link, which points to outDir
	inLink     bool   // the -i argument is a symbolic link (via/<name>) to the input file, which lies where inputName says
	inLinkName string // when set: the -i argument is via/<inLinkName>, a symbolic link to the input file (another name than the file's)
	fromPipe   bool   // the -i argument is /dev/stdin, fed through a pipe (readable, but not a regular file)
	staleTwin  bool   // the stale outputs have the size of the new outputs and are newer than the input
	invoke     string // "" = absolute path of the binary, "path" = bare name found through PATH, "symlink" = through a symbolic link in the work directory, "relative" = relative path from a sub directory
	badArgs    []string // complete argument list for bad-option cases (placeholders IN, OUT)
}

func extOf(t string) string {
	if t == "bash" {
		return "sh"
	}
	return "bat"
}

func checkC19(c *Check) {
	c.Rule = "the built tsh binary is run as a process on generated command lines: all orders of -i/-o/-t pairs with short and long spellings, target lists {bash}, {batch}, {bash,batch}, {batch,bash}, {bash,bash}, {bash,batch,bash}, input names (a.tsh, a.b.tsh, noext, .tsh, 'my prog.tsh', dir/sub/a.tsh; relative and absolute), output directories (., relative, absolute, with blank; with stale outputs and bystander files named like temporaries), inputs lying in the output directory under temporary-looking names, 15 accepted (five of them chosen for bytes that a text-mode rewrite would change: CR LF inside literals, CR, tabs, trailing blanks, CRLF source, no final newline, non-ASCII) and 12 rejected programs (conversion errors in else/default branches, functions and imported files among them), names beginning with a dash or spelled like a switch, names with leading / trailing white space (with twins), names up to the 255-byte limit, inputs named through symbolic links (to the output path itself: must fail; of another name: output named after the link), input from a pipe (/dev/stdin, one target), bad options, and fault configurations (output path is a directory; strace-injected EACCES on open / ENOSPC on write of the output file); oracle = exit status + recursive before/after stamps (size, mode, mtime, SHA-256) of the work directory + the library's output for the same file and target computed in the harness. Non-trivial = every process run; distinct = command line + program"
	c.Level = "fault_enumeration"
	c.Assumptions = []string{"the library (fresh transpiler and converter) is the reference for the bytes", "files written for targets listed before a failing target are allowed to exist (the property speaks of the failing target)", "repeated -i/-o are not asserted (the last one counts)"}
	progs := c19Programs()
	cases := []c19Case{}
	orders := []string{"iot", "ito", "oit", "oti", "tio", "toi"}
	tsets := [][]string{{"bash"}, {"batch"}, {"bash", "batch"}, {"batch", "bash"}, {"bash", "bash"}, {"bash", "batch", "bash"}, {"batch", "batch"}}
	names := []string{"a.tsh", "a.b.tsh", "noext", ".tsh", "my prog.tsh", "dir/sub/a.tsh", "UPPER.TSH", "a.tsh.bak", "-prog.tsh", "-", "--in", "-t", "a-b.tsh", "dir/sub/-x.tsh", "tools.tsh", "fetch.tsh", "unit test.tsh", "s.tsh", "sh.tsh", "t.h.tsh", "a..tsh", "hosts", "dir/sub/paths.tsh", " lead.tsh", "trail.tsh ", "dir/sub/ both .tsh", "\tt.tsh"}
	outs := []string{".", "out", "ABS:absout", "out dir/with blank", "dir/sub", "-out", "--type", "out ", " out"}
	n := 0
	for pi, p := range progs {
		for ti, ts := range tsets {
			for oi, ord := range orders {
				for ni, name := range names {
					for di, od := range outs {
						n++
						// full cross product is large; take a deterministic slice of it per tier
						sel := (pi*7 + ti*5 + oi*3 + ni*11 + di*13) % c.Pick(29, 3)
						if sel != 0 {
							continue
						}
						cases = append(cases, c19Case{key: fmt.Sprintf("run/%s/t=%s/order=%s/in=%s/out=%s", p.name, strings.Join(ts, "+"), ord, hexKey(name), hexKey(od)),
							prog: p, inputName: name, outDir: od, targets: ts, argOrder: ord, long: (pi+ti+oi+ni)%2 == 0, absInput: (ni+di)%3 == 0, stale: (pi+di)%2 == 0})
					}
				}
			}
		}
	}
	// names at the limit of the file system (255 bytes): whenever the output name <stem>.<ext> still fits, the run
	// must succeed (an implementation that writes through a longer temporary sibling name fails just below the limit)
	for _, stem := range []int{240, 246, 247, 249, 250, 251} {
		for _, ts := range [][]string{{"bash"}, {"batch"}, {"bash", "batch"}} {
			name := strings.Repeat("n", stem) + ".tsh"
			cases = append(cases, c19Case{key: fmt.Sprintf("long-name/stem=%d/t=%s", stem, strings.Join(ts, "+")), prog: progs[0], inputName: name, outDir: "out", targets: ts, argOrder: "iot", stale: stem%2 == 0})
		}
	}
	// the input named through a symbolic link whose name differs from the file's: the output carries the link's stem
	for pi, p := range progs {
		if len(p.files) != 1 {
			continue
		}
		for li, ln := range []string{"prog.tsh", "other name.tsh", "noext"} {
			if (pi+li)%3 != 0 && pi > 1 {
				continue
			}
			cases = append(cases, c19Case{key: fmt.Sprintf("input-link-other-name/%s/link=%s", p.name, hexKey(ln)), prog: p, inputName: "real/prog-v2.tsh", outDir: "out", targets: tsets[(pi+li)%4], argOrder: "iot", inLinkName: ln, stale: li == 0})
		}
	}
	// the input is a pipe (-i /dev/stdin): readable like any file, the output is named after "stdin"
	for pi, p := range progs {
		if len(p.files) == 1 && pi < 6 {
			cases = append(cases, c19Case{key: fmt.Sprintf("input-from-pipe/%s", p.name), prog: p, inputName: "main.tsh", outDir: "out", targets: tsets[pi%2], argOrder: "iot", fromPipe: true}) // one target only: a pipe can be read once
		}
	}
	// repeated targets and every program once with the plain command line (always)
	for _, p := range progs {
		for _, ts := range tsets {
			cases = append(cases, c19Case{key: fmt.Sprintf("plain/%s/t=%s", p.name, strings.Join(ts, "+")), prog: p, inputName: "main.tsh", outDir: "out", targets: ts, argOrder: "iot", stale: true})
		}
	}
	// every input and output name once with the plain command line (always), and the names that look like switches in every option order
	for ni, name := range names {
		for di, od := range outs {
			p := progs[(ni+di)%3]
			for oi, ord := range orders {
				dashy := strings.HasPrefix(filepath.Base(name), "-") || strings.HasPrefix(od, "-")
				if oi > 0 && !(dashy && (ni+di+oi)%2 == 0) {
					continue
				}
				cases = append(cases, c19Case{key: fmt.Sprintf("names/%s/order=%s/in=%s/out=%s", p.name, ord, hexKey(name), hexKey(od)), prog: p, inputName: name, outDir: od, targets: tsets[(ni+di)%4], argOrder: ord, long: (ni+oi)%2 == 1, stale: di%2 == 0})
			}
		}
	}
	// the input lies in the output directory and is named like a temporary or backup file
	for _, p := range []c19Prog{progs[0], progs[2]} {
		for _, nm := range []string{"a.tmp", "a.sh.tmp", "a.bat.tmp", "a.tsh", "a", "a.sh.0.tmp", "a.tsh.tmp"} {
			for _, ts := range [][]string{{"bash"}, {"batch"}, {"bash", "batch"}, {"batch", "bash"}} {
				cases = append(cases, c19Case{key: fmt.Sprintf("input-in-output-dir/%s/in=%s/t=%s", p.name, hexKey(nm), strings.Join(ts, "+")), prog: p, inputName: "out/" + nm, outDir: "out", targets: ts, argOrder: "iot", stale: true})
			}
		}
	}
	// the output path of a target is the input file itself (input named <stem>.sh / <stem>.bat lying in the output
	// directory): an error for that target, the input keeps its bytes
	for _, p := range []c19Prog{progs[0], progs[1]} {
		for _, c2 := range []struct {
			in string
			ts []string
		}{{"out/prog.sh", []string{"bash"}}, {"out/prog.bat", []string{"batch"}}, {"out/prog.sh", []string{"batch", "bash"}}, {"out/prog.bat", []string{"bash", "batch"}}, {"out/my prog.sh", []string{"bash", "bash"}}, {"prog.sh", []string{"bash"}}} {
			od := "out"
			if !strings.Contains(c2.in, "/") {
				od = "."
			}
			cases = append(cases, c19Case{key: fmt.Sprintf("output-is-input/%s/in=%s/t=%s", p.name, hexKey(c2.in), strings.Join(c2.ts, "+")), prog: p, inputName: c2.in, outDir: od, targets: c2.ts, argOrder: "iot", outIsInput: true})
			// the input reached through a symbolic link in another directory: the file it names is still the output path
			if len(p.files) == 1 {
				cases = append(cases, c19Case{key: fmt.Sprintf("output-is-input-named-by-link/%s/in=%s/t=%s", p.name, hexKey(c2.in), strings.Join(c2.ts, "+")), prog: p, inputName: c2.in, outDir: od, targets: c2.ts, argOrder: "iot", outIsInput: true, inLink: true})
			}
			// the same with the output directory reached through a symbolic link (and through a path with a detour)
			if od == "out" {
				cases = append(cases, c19Case{key: fmt.Sprintf("output-is-input-through-link/%s/in=%s/t=%s", p.name, hexKey(c2.in), strings.Join(c2.ts, "+")), prog: p, inputName: c2.in, outDir: od, targets: c2.ts, argOrder: "iot", outIsInput: true, outLink: "out-link"})
				cases = append(cases, c19Case{key: fmt.Sprintf("output-is-input-through-detour/%s/in=%s/t=%s", p.name, hexKey(c2.in), strings.Join(c2.ts, "+")), prog: p, inputName: c2.in, outDir: od, targets: c2.ts, argOrder: "oti", outIsInput: true, outLink: "DETOUR"})
			}
		}
	}
	// what stands at the output paths looks up to date (size of the output to come, younger than the input)
	for _, p := range []c19Prog{progs[0], progs[1], progs[5], progs[6]} {
		for _, ts := range [][]string{{"bash"}, {"batch"}, {"bash", "batch"}} {
			cases = append(cases, c19Case{key: fmt.Sprintf("stale-twin/%s/t=%s", p.name, strings.Join(ts, "+")), prog: p, inputName: "main.tsh", outDir: "out", targets: ts, argOrder: "iot", stale: true, staleTwin: true})
		}
	}
	// the command found through PATH by its bare name, and through a symbolic link, from a directory that has
	// nothing to do with the place of the binary: programs importing the standard library included
	for _, p := range progs {
		for _, inv := range []string{"path", "symlink"} {
			cases = append(cases, c19Case{key: fmt.Sprintf("invoked-by/%s/%s", inv, p.name), prog: p, inputName: "main.tsh", outDir: "out", targets: []string{"bash", "batch"}, argOrder: "iot", invoke: inv})
		}
	}
	// bad options
	bad := map[string][]string{
		"unknown-switch":   {"-x", "1", "-i", "IN", "-o", "OUT", "-t", "bash"},
		"unknown-type":     {"-i", "IN", "-o", "OUT", "-t", "zsh"},
		"unknown-type-2nd": {"-i", "IN", "-o", "OUT", "-t", "bash", "-t", "fish"},
		"missing-i":        {"-o", "OUT", "-t", "bash"},
		"missing-o":        {"-i", "IN", "-t", "bash"},
		"missing-t":        {"-i", "IN", "-o", "OUT"},
		"no-args":          {},
		"missing-input":    {"-i", "does-not-exist.tsh", "-o", "OUT", "-t", "bash"},
		"input-is-dir":     {"-i", "OUT", "-o", "OUT", "-t", "bash"},
		"out-missing":      {"-i", "IN", "-o", "no-such-dir", "-t", "bash"},
		"out-is-file":      {"-i", "IN", "-o", "IN", "-t", "bash"},
		"long-unknown":     {"--input", "IN", "--out", "OUT", "--type", "bash"},
		"type-empty":       {"-i", "IN", "-o", "OUT", "-t", ""},
		"case-sensitive":   {"-i", "IN", "-o", "OUT", "-t", "Bash"},
		// a switch without its value, or a word that belongs to no switch, at the end of an otherwise complete line
		"dangling-type-switch":  {"-i", "IN", "-o", "OUT", "-t", "bash", "-t"},
		"dangling-out-switch":   {"-i", "IN", "-t", "bash", "-o", "OUT", "-o"},
		"dangling-in-switch":    {"-o", "OUT", "-t", "bash", "-i", "IN", "--in"},
		"trailing-word":         {"-i", "IN", "-o", "OUT", "-t", "bash", "extra"},
		"trailing-unknown":      {"-i", "IN", "-o", "OUT", "-t", "batch", "-x"},
		"leading-word":          {"extra", "-i", "IN", "-o", "OUT", "-t", "bash"},
	}
	for _, k := range func() []string {
		m := map[string]string{}
		for k := range bad {
			m[k] = ""
		}
		return sortedKeys(m)
	}() {
		cases = append(cases, c19Case{key: "bad-options/" + k, prog: progs[0], inputName: "main.tsh", outDir: "out", badArgs: bad[k], stale: true})
	}
	// fault configurations
	for _, p := range []c19Prog{progs[0], progs[1], progs[5]} {
		for _, ts := range [][]string{{"bash"}, {"batch"}, {"bash", "batch"}} {
			cases = append(cases, c19Case{key: fmt.Sprintf("fault/out-is-directory/%s/t=%s", p.name, strings.Join(ts, "+")), prog: p, inputName: "main.tsh", outDir: "out", targets: ts, argOrder: "iot", outIsDir: true})
			for _, inj := range []string{"openat-eacces", "write-enospc", "write-enospc-any", "rename-eacces"} {
				for _, stale := range []bool{false, true} {
					cases = append(cases, c19Case{key: fmt.Sprintf("fault/%s/%s/t=%s/stale=%v", inj, p.name, strings.Join(ts, "+"), stale), prog: p, inputName: "main.tsh", outDir: "ABS:out", targets: ts, argOrder: "iot", strace: inj, stale: stale})
				}
			}
		}
	}
	c.Extra["process_runs"] = len(cases)
	straceOK := exec.Command("strace", "-o", "/dev/null", "true").Run() == nil
	c.Extra["strace_available"] = straceOK
	parallelDo(len(cases), 16, func(i int) { c19Run(c, cases[i], straceOK) })
}

func c19Run(c *Check, cs c19Case, straceOK bool) {
	work := newSandbox()
	defer os.RemoveAll(work)
	// lay out the program: main file under the requested name, other files relative to it
	inRel := cs.inputName
	inDir := filepath.Dir(inRel)
	for n, s := range cs.prog.files {
		rel := filepath.Join(inDir, n)
		if n == "main.tsh" {
			rel = inRel
		}
		full := filepath.Join(work, rel)
		os.MkdirAll(filepath.Dir(full), 0o755)
		os.WriteFile(full, []byte(s), 0o644)
	}
	outRel := strings.TrimPrefix(cs.outDir, "ABS:")
	outAbs := filepath.Join(work, outRel)
	os.MkdirAll(outAbs, 0o755)
	// names that begin or end in white space get a twin without it, holding another program (an implementation that
	// trims option values reads the twin, or writes into the twin directory, and still exits 0)
	if tb := strings.TrimSpace(filepath.Base(inRel)); tb != filepath.Base(inRel) && tb != "" {
		os.WriteFile(filepath.Join(work, inDir, tb), []byte("print(\"the twin\")\n"), 0o644)
	}
	if to := strings.TrimSpace(outRel); to != outRel && to != "" {
		os.MkdirAll(filepath.Join(work, to), 0o755)
	}
	base := filepath.Base(inRel)
	base = base[:len(base)-len(filepath.Ext(base))]
	if cs.inLinkName != "" {
		// the input is named through a symbolic link of another name: the output is named after what -i says
		os.MkdirAll(filepath.Join(work, "via"), 0o755)
		rel, _ := filepath.Rel(filepath.Join(work, "via"), filepath.Join(work, inRel))
		os.Symlink(rel, filepath.Join(work, "via", cs.inLinkName))
		base = cs.inLinkName[:len(cs.inLinkName)-len(filepath.Ext(cs.inLinkName))]
	}
	if cs.fromPipe {
		base = "stdin"
	}
	expectFiles := map[string]string{} // relative to work -> expected content, for successful targets
	earlyRefs := map[string]TResult{}
	if cs.staleTwin {
		for _, t := range cs.targets {
			if _, ok := earlyRefs[t]; !ok {
				earlyRefs[t] = TranspileFile(filepath.Join(work, inRel), Target(t), 30*time.Second)
			}
		}
	}
	if cs.stale {
		for _, e := range []string{"sh", "bat"} {
			os.WriteFile(filepath.Join(outAbs, base+"."+e), []byte("STALE OUTPUT\n"), 0o644)
		}
		os.WriteFile(filepath.Join(outAbs, "unrelated.txt"), []byte("keep me\n"), 0o644)
		// bystanders named like temporary files an implementation might use: none of them may be touched
		for _, e := range []string{".tmp", ".sh.tmp", ".bat.tmp", ".sh.0.tmp", ".bat.0.tmp", ".sh~", ".sh.bak"} {
			os.WriteFile(filepath.Join(outAbs, base+e), []byte("bystander "+e+"\n"), 0o644)
		}
		os.WriteFile(filepath.Join(outAbs, ".tmp"), []byte("bystander\n"), 0o644)
		os.WriteFile(filepath.Join(outAbs, ".tsh.0.tmp"), []byte("bystander\n"), 0o644)
	}
	if cs.outIsDir {
		for _, t := range cs.targets {
			os.MkdirAll(filepath.Join(outAbs, base+"."+extOf(t)), 0o755)
		}
	}
	old := time.Now().Add(-48 * time.Hour)
	filepath.Walk(work, func(p string, info os.FileInfo, err error) error {
		if err == nil {
			os.Chtimes(p, old, old)
		}
		return nil
	})
	if cs.staleTwin {
		// what stands at the output paths has the size of the output to come and is younger than the input: only
		// its bytes tell it apart
		younger := time.Now().Add(-1 * time.Hour)
		for t, r := range earlyRefs {
			if r.OK() {
				pth := filepath.Join(outAbs, base+"."+extOf(t))
				os.WriteFile(pth, []byte(strings.Repeat("#", len(r.Script))), 0o644)
				os.Chtimes(pth, younger, younger)
			}
		}
	}
	// reference outputs from the library
	inAbs := filepath.Join(work, inRel)
	if cs.inLinkName != "" {
		inAbs = filepath.Join(work, "via", cs.inLinkName)
	}
	refs := map[string]TResult{}
	for _, t := range cs.targets {
		if _, ok := refs[t]; !ok {
			refs[t] = TranspileFile(inAbs, Target(t), 30*time.Second)
		}
	}
	// command line
	args := []string{}
	if cs.badArgs != nil {
		for _, a := range cs.badArgs {
			switch a {
			case "IN":
				a = inRel
			case "OUT":
				a = outRel
			}
			args = append(args, a)
		}
	} else {
		sw := map[byte][]string{'i': {"-i", "--in"}, 'o': {"-o", "--out"}, 't': {"-t", "--type"}}
		idx := 0
		if cs.long {
			idx = 1
		}
		inArg := inRel
		if cs.absInput {
			inArg = inAbs
		}
		if cs.inLinkName != "" {
			inArg = filepath.Join("via", cs.inLinkName)
		}
		if cs.fromPipe {
			inArg = "/dev/stdin"
		}
		if cs.inLink {
			os.MkdirAll(filepath.Join(work, "via"), 0o755)
			rel, _ := filepath.Rel(filepath.Join(work, "via"), inAbs)
			os.Symlink(rel, filepath.Join(work, "via", filepath.Base(inRel)))
			inArg = filepath.Join("via", filepath.Base(inRel))
		}
		outArg := outRel
		if strings.HasPrefix(cs.outDir, "ABS:") {
			outArg = outAbs
		}
		if cs.outLink == "DETOUR" {
			outArg = "dir/../" + outRel + "/./"
			os.MkdirAll(filepath.Join(work, "dir"), 0o755)
		} else if cs.outLink != "" {
			os.Symlink(outRel, filepath.Join(work, cs.outLink))
			outArg = cs.outLink
		}
		for _, o := range []byte(cs.argOrder) {
			switch o {
			case 'i':
				args = append(args, sw['i'][idx], inArg)
			case 'o':
				args = append(args, sw['o'][idx], outArg)
			case 't':
				for _, t := range cs.targets {
					args = append(args, sw['t'][idx], t)
				}
			}
		}
	}
	before := stampTree(work)
	var cmd *exec.Cmd
	if cs.strace != "" {
		if !straceOK {
			c.Inconclusive("strace not usable in this environment")
			return
		}
		first := filepath.Join(outAbs, base+"."+extOf(cs.targets[0]))
		// the fault is aimed at the output file; implementations may write a temporary sibling first, so one
		// variant fails every write() of the process and one fails the rename family on the output path
		sargs := []string{"-f", "-o", filepath.Join(work, ".strace.log")}
		switch cs.strace {
		case "openat-eacces":
			sargs = append(sargs, "-P", first, "-P", first+".0.tmp", "-P", first+".1.tmp", "-P", filepath.Join(outAbs, ".tsh.0.tmp"), "-P", filepath.Join(outAbs, ".tsh.1.tmp"), "-e", "inject=openat:error=EACCES")
		case "write-enospc":
			sargs = append(sargs, "-P", first, "-P", first+".0.tmp", "-P", first+".1.tmp", "-P", filepath.Join(outAbs, ".tsh.0.tmp"), "-P", filepath.Join(outAbs, ".tsh.1.tmp"), "-e", "inject=write:error=ENOSPC")
		case "write-enospc-any":
			sargs = append(sargs, "-e", "inject=write:error=ENOSPC")
		case "rename-eacces":
			sargs = append(sargs, "-P", first, "-e", "inject=rename,renameat,renameat2:error=EACCES")
		}
		sargs = append(append(sargs, tshPath()), args...)
		cmd = exec.Command("strace", sargs...)
	} else {
		cmd = exec.Command(tshPath(), args...)
	}
	cmd.Dir = work
	switch cs.invoke {
	case "path":
		// found by its bare name through PATH (argv[0] is then just "tsh")
		cmd = &exec.Cmd{Path: tshPath(), Args: append([]string{"tsh"}, args...), Dir: work}
	case "symlink":
		link := filepath.Join(work, ".tsh-link")
		os.Symlink(tshPath(), link)
		defer os.Remove(link)
		cmd = exec.Command(link, args...)
		cmd.Dir = work
		before[".tsh-link"] = stampTree(work)[".tsh-link"]
	}
	if cs.fromPipe {
		cmd.Stdin = strings.NewReader(cs.prog.files["main.tsh"]) // os/exec feeds a reader through a pipe
	}
	var outb, errb strings.Builder
	cmd.Stdout = &outb
	cmd.Stderr = &errb
	done := make(chan error, 1)
	cmd.Start()
	go func() { done <- cmd.Wait() }()
	var runErr error
	select {
	case runErr = <-done:
	case <-time.After(60 * time.Second):
		cmd.Process.Kill()
		c.Violation(cs.key, "tsh did not terminate within 60 s", map[string]string{"args": strings.Join(args, " ")})
		return
	}
	exit := 0
	if runErr != nil {
		if ee, ok := runErr.(*exec.ExitError); ok {
			exit = ee.ExitCode()
		} else {
			exit = -1
		}
	}
	if cs.strace != "" {
		lg, _ := os.ReadFile(filepath.Join(work, ".strace.log"))
		os.Remove(filepath.Join(work, ".strace.log"))
		if !strings.Contains(string(lg), "(INJECTED)") {
			c.Inconclusive("strace injected no fault (no syscall matched the output path)")
			return
		}
		c.Count("strace_faults_injected/"+cs.strace, 1)
	}
	after := stampTree(work)
	c.Eval(cs.key+"\x00"+strings.Join(args, "\x00"), true)
	files := map[string]string{"args.txt": strings.Join(args, "\n"), "stderr.txt": clip(errb.String(), 3000), "main.tsh": cs.prog.files["main.tsh"]}
	// expected outcome
	expectOK := cs.badArgs == nil && cs.strace == "" && !cs.outIsDir
	failedAt := -1 // index of the first failing target
	for i, t := range cs.targets {
		if !refs[t].OK() {
			failedAt = i
			break
		}
	}
	if failedAt >= 0 {
		expectOK = false
	}
	if cs.strace != "" || cs.outIsDir {
		failedAt = 0
	}
	if cs.outIsInput && failedAt < 0 {
		for i, t := range cs.targets {
			if filepath.Clean(filepath.Join(outRel, base+"."+extOf(t))) == filepath.Clean(inRel) {
				failedAt = i
				expectOK = false
				break
			}
		}
	}
	if cs.badArgs != nil {
		failedAt = 0
	}
	for i, t := range cs.targets {
		if failedAt >= 0 && i >= failedAt {
			break
		}
		expectFiles[filepath.Join(outRel, base+"."+extOf(t))] = refs[t].Script
	}
	problems := []string{}
	if expectOK && exit != 0 {
		problems = append(problems, fmt.Sprintf("exit status %d for a valid invocation (%s)", exit, oneLine(clip(errb.String(), 200))))
	}
	if !expectOK && exit == 0 {
		problems = append(problems, "exit status 0 although the invocation must fail")
	}
	// compare trees
	changed := []string{}
	for p, a := range after {
		b, existed := before[p]
		if !existed || a.Sha != b.Sha || a.Size != b.Size || (!a.Dir && !a.MTime.Equal(b.MTime)) || a.Mode != b.Mode {
			changed = append(changed, p)
		}
	}
	for p := range before {
		if _, ok := after[p]; !ok {
			changed = append(changed, p+" (removed)")
		}
	}
	sort.Strings(changed)
	for _, p := range changed {
		want, ok := expectFiles[filepath.Clean(p)]
		if !ok {
			problems = append(problems, fmt.Sprintf("file %q was created/changed/removed but must not be", p))
			continue
		}
		got, _ := os.ReadFile(filepath.Join(work, p))
		if string(got) != want {
			problems = append(problems, fmt.Sprintf("output %q differs from the library's output (%d bytes written, library returns %d bytes)", p, len(got), len(want)))
			files["written-"+filepath.Base(p)] = clip(string(got), 4000)
			files["library-"+filepath.Base(p)] = clip(want, 4000)
		}
	}
	for p, want := range expectFiles {
		got, err := os.ReadFile(filepath.Join(work, p))
		if err != nil {
			problems = append(problems, fmt.Sprintf("expected output %q is missing", p))
		} else if string(got) != want {
			found := false
			for _, ch := range changed {
				if filepath.Clean(ch) == p {
					found = true
				}
			}
			if !found {
				problems = append(problems, fmt.Sprintf("output %q was not (re)written: it does not hold the library's output", p))
			}
		}
	}
	if len(problems) > 0 {
		c.Violation(cs.key, strings.Join(problems, "; "), files)
		return
	}
	c.Count(fmt.Sprintf("exit_%v", exit != 0), 1)
	if strings.HasPrefix(cs.key, "plain/functions/t=bash+batch") || strings.HasPrefix(cs.key, "bad-options/unknown-type") || strings.HasPrefix(cs.key, "fault/write-enospc/hello/t=bash/stale=true") {
		c.Sample(map[string]interface{}{"key": cs.key, "args": args, "exit": exit, "changed_files": changed, "stderr_first_line": firstLine(errb.String())})
	}
}
