package main

import (
	"go/ast"
	"go/parser"
	gotoken "go/token"
	"os"
	"path/filepath"
	"sort"
	"strconv"
	"strings"
)

func repoDir() string {
	if v := os.Getenv("VERIF_REPO_DIR"); v != "" {
		return v
	}
	return "/repo"
}

// constString evaluates a Go constant string expression (literals joined by +).
func constString(e ast.Expr) (string, bool) {
	switch x := e.(type) {
	case *ast.BasicLit:
		if x.Kind != gotoken.STRING {
			return "", false
		}
		s, err := strconv.Unquote(x.Value)
		return s, err == nil
	case *ast.BinaryExpr:
		if x.Op != gotoken.ADD {
			return "", false
		}
		l, ok1 := constString(x.X)
		r, ok2 := constString(x.Y)
		return l + r, ok1 && ok2
	case *ast.ParenExpr:
		return constString(x.X)
	}
	return "", false
}

type CorpusProg struct {
	Name string
	Src  string
}

// SuiteCorpus extracts every TypeShell program passed as a constant string to a
// transpiler callback in /repo/tests/*.go (maintainers' own style, accepted and
// rejected programs).
func SuiteCorpus() []CorpusProg {
	out := []CorpusProg{}
	files, _ := filepath.Glob(filepath.Join(repoDir(), "tests", "*.go"))
	sort.Strings(files)
	fset := gotoken.NewFileSet()
	for _, f := range files {
		if strings.HasSuffix(f, "_test.go") {
			continue
		}
		af, err := parser.ParseFile(fset, f, nil, 0)
		if err != nil {
			continue
		}
		for _, d := range af.Decls {
			fd, ok := d.(*ast.FuncDecl)
			if !ok || fd.Body == nil {
				continue
			}
			n := 0
			ast.Inspect(fd.Body, func(nd ast.Node) bool {
				ce, ok := nd.(*ast.CallExpr)
				if !ok || len(ce.Args) < 3 {
					return true
				}
				id, ok := ce.Fun.(*ast.Ident)
				if !ok || !strings.Contains(strings.ToLower(id.Name), "transpile") {
					return true
				}
				if s, ok := constString(ce.Args[1]); ok && strings.TrimSpace(s) != "" {
					n++
					out = append(out, CorpusProg{Name: "suite/" + fd.Name.Name + "#" + strconv.Itoa(n), Src: s})
				}
				return true
			})
		}
	}
	return out
}

// RepoFiles returns std/*.tsh and examples/*.tsh.
func RepoFiles() []CorpusProg {
	out := []CorpusProg{}
	for _, pat := range []string{"std/*.tsh", "examples/*.tsh"} {
		files, _ := filepath.Glob(filepath.Join(repoDir(), pat))
		sort.Strings(files)
		for _, f := range files {
			b, err := os.ReadFile(f)
			if err == nil {
				rel, _ := filepath.Rel(repoDir(), f)
				out = append(out, CorpusProg{Name: "repo/" + rel, Src: string(b)})
			}
		}
	}
	return out
}
