package main

import (
	"fmt"
	"os"
	"strings"
	"time"
)

func init() { register("C05", checkC05) }

type BatchCase struct {
	Key  string
	Prog *Program
	// gate names under which this case is skipped while a known finding is open
	Gate      string
	MayReject bool // the form is not known to be part of the accepted language: a rejection discards the case
}

// judgeBatch: reference (32-bit) vs the emitted Batch script under the cmd
// model (both variants of the one uncertain rule) and vs the real Bash run.
func judgeBatch(c *Check, bc BatchCase) caseOutcome {
	ref := Interpret(bc.Prog, 32, interpBudget)
	if ref.Undefined != "" {
		if strings.HasPrefix(ref.Undefined, "interpreter:") {
			fatalf("oracle fault on %s: %s", bc.Key, ref.Undefined)
		}
		c.Discard()
		return outcomeDiscarded
	}
	if ref.BigLiteral {
		c.Discard() // literals outside int32 cannot be written in a Batch script
		return outcomeDiscarded
	}
	dir := newSandbox()
	defer os.RemoveAll(dir)
	mainPath, srcs := WriteProgram(dir, bc.Prog)
	files := map[string]string{"expected.stdout": ref.Stdout, "expected.exit": fmt.Sprint(ref.Exit)}
	id := ""
	for _, n := range sortedKeys(srcs) {
		files[n] = srcs[n]
		id += n + "\x00" + srcs[n] + "\x00"
	}
	c.Eval(id, len(ref.Stdout) > 0 && len(ref.Features) >= 3)
	c.AddFeats(ref.Features)
	tr := TranspileFile(mainPath, Batch, 30*time.Second)
	if tr.Err != nil && bc.MayReject {
		c.Count("may_reject_cases_rejected", 1)
		c.Discard()
		return outcomeDiscarded
	}
	if !tr.OK() {
		msg := "hang"
		if tr.Err != nil {
			msg = stripDir(tr.Err.Error(), dir)
		} else if tr.Panic != "" {
			msg = "panic: " + firstLine(tr.Panic)
		}
		c.Violation(bc.Key, "well-typed program rejected by the Batch target: "+msg, files)
		return outcomeViolated
	}
	files["script.bat"] = tr.Script
	budget := 600*ref.Steps + 20000
	run := newSandbox()
	defer os.RemoveAll(run)
	var results [2]CmdResult
	for v := 0; v < 2; v++ {
		results[v] = RunCmdModel(tr.Script, budget, run, "", v == 1)
	}
	for v := 0; v < 2; v++ {
		if results[v].Unmodelled != "" {
			if os.Getenv("VERIF_VERBOSE") != "" {
				fmt.Printf("UNMODELLED %s :: %s\n", bc.Key, results[v].Unmodelled)
			}
			c.Inconclusive("cmd model: " + firstWords(results[v].Unmodelled, 4))
			return outcomeInconclusive
		}
	}
	problemsOf := func(r CmdResult) []string {
		p := []string{}
		if r.NonTerm {
			p = append(p, fmt.Sprintf("script does not terminate under the model (step budget %d, reference needs %d steps)", budget, ref.Steps))
			return p
		}
		if r.ScriptErr != "" {
			p = append(p, "script error under cmd's rules: "+r.ScriptErr)
		}
		if r.Stdout != ref.Stdout {
			p = append(p, "stdout differs: "+firstDiff(ref.Stdout, r.Stdout))
		}
		if r.Exit != ref.Exit {
			p = append(p, fmt.Sprintf("exit status %d, expected %d", r.Exit, ref.Exit))
		}
		return p
	}
	p0, p1 := problemsOf(results[0]), problemsOf(results[1])
	if len(p0) > 0 && len(p1) > 0 {
		files["observed.stdout"] = clip(results[0].Stdout, 6000)
		c.Violation(bc.Key, strings.Join(p0, "; "), files)
		return outcomeViolated
	}
	// third witness: the Bash script of the same program, when 32 and 64 bit agree
	ref64 := Interpret(bc.Prog, 64, interpBudget)
	if ref64.Undefined == "" && !ref64.Overflow && ref64.Stdout == ref.Stdout {
		trb := TranspileFile(mainPath, Bash, 30*time.Second)
		if trb.OK() {
			rb := newSandbox()
			rr := RunBash(rb, trb.Script, RunOpts{Timeout: 6 * time.Second})
			os.RemoveAll(rb)
			if !rr.TimedOut && (rr.Stdout != results[0].Stdout || rr.Exit != results[0].Exit) && len(p0) == 0 {
				files["bash.stdout"] = rr.Stdout
				c.Violation(bc.Key+"/bash-vs-batch", "Bash and Batch scripts of the same program disagree: "+firstDiff(rr.Stdout, results[0].Stdout), files)
				return outcomeViolated
			}
			c.Count("bash_witness_runs", 1)
		}
	}
	c.Count("output_lines_compared", strings.Count(ref.Stdout, "\n"))
	c.Count("model_steps", results[0].Steps)
	c.Sample(map[string]interface{}{"key": bc.Key, "source": clip(srcs[bc.Prog.Files[0].Name], 1200), "expected_stdout": clip(ref.Stdout, 300), "exit": ref.Exit, "script_excerpt": clip(tr.Script, 500)})
	return outcomeHeld
}

func firstWords(s string, n int) string {
	f := strings.Fields(s)
	if len(f) > n {
		f = f[:n]
	}
	return strings.Join(f, " ")
}

func inFunction(stmts []Stmt, name string) []Stmt {
	return []Stmt{fn(name, nil, nil, stmts...), callS(name)}
}

// ---- Batch-specific families ----

func b1LabelAllocation(thorough bool) []BatchCase {
	out := []BatchCase{}
	for _, bc := range f4LoopSkeletons(thorough) {
		out = append(out, BatchCase{Key: "B1/" + bc.Key, Prog: bc.Prog})
		// the same skeleton inside a function, followed by a second function with its own loop
		st := bc.Prog.Files[0].Stmts
		two := append(inFunction(st, "first"), inFunction(append(loopForm(0, "q", 2, []Stmt{pr(sl("second"), vr("q"))}), pr(sl("second-end"))), "second")...)
		if len(out)%3 == 0 || thorough {
			out = append(out, BatchCase{Key: "B1/in-functions/" + bc.Key, Prog: SingleFile(two)})
		}
	}
	// if / else-if / switch sequences and nestings without loops
	chain := func(tag string, v Expr) Stmt {
		return If{Branches: []IfBranch{{cmp("==", v, il(0)), []Stmt{pr(sl(tag + "0"))}}, {cmp("==", v, il(1)), []Stmt{pr(sl(tag + "1"))}}}, HasElse: true, Else: []Stmt{pr(sl(tag + "e"))}}
	}
	sw := func(tag string, v Expr) Stmt {
		return Switch{Tag: v, Cases: []SwitchCase{{E: il(0), Body: []Stmt{pr(sl(tag + "s0"))}}, {Default: true, Body: []Stmt{pr(sl(tag + "sd"))}}, {E: il(2), Body: []Stmt{pr(sl(tag + "s2"))}}}}
	}
	for a := 0; a < 3; a++ {
		for b := 0; b < 3; b++ {
			stmts := []Stmt{def("a", il(int64(a))), def("b", il(int64(b))),
				chain("x", vr("a")), sw("y", vr("b")),
				If{Branches: []IfBranch{{cmp("==", vr("a"), il(1)), []Stmt{chain("n", vr("b")), sw("m", vr("a")), pr(sl("after-nested"))}}}, HasElse: true, Else: []Stmt{sw("e", vr("b")), chain("f", vr("a"))}},
				Switch{Tag: vr("a"), Cases: []SwitchCase{{E: il(0), Body: []Stmt{chain("c", vr("b"))}}, {E: il(1), Body: []Stmt{sw("d", vr("b")), pr(sl("in-case"))}}, {Default: true, Body: []Stmt{ifs(cmp("==", vr("b"), il(2)), pr(sl("dflt2")))}}}},
				pr(sl("end"))}
			out = append(out, BatchCase{Key: fmt.Sprintf("B1/branches/a=%d/b=%d", a, b), Prog: SingleFile(stmts)})
			out = append(out, BatchCase{Key: fmt.Sprintf("B1/branches-in-function/a=%d/b=%d", a, b), Prog: SingleFile(inFunction(stmts, "run"))})
		}
	}
	return out
}

func b2DigitWidth() []BatchCase {
	out := []BatchCase{}
	for _, bc := range s2Growth() {
		out = append(out, BatchCase{Key: "B2/" + bc.Key, Prog: bc.Prog})
	}
	for _, bc := range s4Copy() {
		out = append(out, BatchCase{Key: "B2/" + bc.Key, Prog: bc.Prog})
	}
	for _, bc := range s5Range() {
		out = append(out, BatchCase{Key: "B2/" + bc.Key, Prog: bc.Prog})
	}
	// 99 -> 100
	for _, idx := range []int64{98, 99, 100, 101, 105} {
		stmts := []Stmt{VarDecl{Names: []string{"a"}, Type: TSliceInt}, forUp("i", 97, SliceSet{"a", vr("i"), vr("i")}), pr(Len{vr("a")}),
			SliceSet{"a", il(idx), il(7)}, pr(Len{vr("a")}, Index{"a", il(96)}, Index{"a", il(idx)}, Index{"a", il(idx - 1)}),
			VarDecl{Names: []string{"b"}, Type: TSliceInt}, pr(Copy{"b", vr("a")}, Len{vr("b")}, Index{"b", il(idx)}),
			def("t", il(0)), For{Kind: ForRange, RangeIdx: "k", RangeVal: "v", Over: vr("b"), Body: []Stmt{OpAssign{"t", "+", vr("v")}}}, pr(vr("t"))}
		out = append(out, BatchCase{Key: fmt.Sprintf("B2/hundred/index=%d", idx), Prog: SingleFile(stmts)})
	}
	return out
}

func b3Frames() []BatchCase {
	out := []BatchCase{}
	for _, bc := range g4ReturnRegisters() {
		out = append(out, BatchCase{Key: "B3/" + bc.Key, Prog: bc.Prog})
	}
	for _, bc := range g1NameReuse() {
		out = append(out, BatchCase{Key: "B3/" + bc.Key, Prog: bc.Prog})
	}
	for _, bc := range g2GlobalWrites() {
		out = append(out, BatchCase{Key: "B3/" + bc.Key, Prog: bc.Prog})
	}
	for _, bc := range g5Simultaneous() {
		out = append(out, BatchCase{Key: "B3/" + bc.Key, Prog: bc.Prog})
	}
	// call depth 1-4, return from nested constructs
	for depth := 1; depth <= 4; depth++ {
		stmts := []Stmt{}
		for d := depth; d >= 1; d-- {
			var body []Stmt
			if d == depth {
				body = []Stmt{forUp("i", 5, ifs(cmp("==", vr("i"), vr("n")), forUp("j", 3, ifs(cmp("==", vr("j"), il(1)), ret(bin("+", bin("*", vr("i"), il(10)), vr("j"))))))), ret(il(-1))}
			} else {
				body = []Stmt{def("r", call(fmt.Sprintf("lvl%d", d+1), bin("+", vr("n"), il(1)))), pr(sl(fmt.Sprintf("lvl%d", d)), vr("n"), vr("r")), ret(bin("+", vr("r"), il(1)))}
			}
			stmts = append(stmts, fn(fmt.Sprintf("lvl%d", d), []Param{{"n", TInt}}, []Type{TInt}, body...))
		}
		stmts = append(stmts, pr(call("lvl1", il(0)), call("lvl1", il(1)), call("lvl1", il(9))), pr(sl("end")))
		out = append(out, BatchCase{Key: fmt.Sprintf("B3/depth=%d", depth), Prog: SingleFile(stmts)})
	}
	// panic placements
	out = append(out,
		BatchCase{Key: "B3/panic/top-level", Prog: SingleFile([]Stmt{pr(sl("a")), Panic{sl("stop")}, pr(sl("never"))})},
		BatchCase{Key: "B3/panic/top-level-in-loop", Prog: SingleFile([]Stmt{forUp("i", 3, pr(vr("i")), ifs(cmp("==", vr("i"), il(1)), Panic{sl("in loop")})), pr(sl("never"))})},
		BatchCase{Key: "B3/panic/in-function-last", Gate: "batch-panic-in-function", Prog: SingleFile([]Stmt{fn("f", nil, nil, pr(sl("f")), Panic{sl("in f")}), callS("f")})},
		BatchCase{Key: "B3/panic/in-function-with-continuation", Gate: "batch-panic-in-function", Prog: SingleFile([]Stmt{fn("f", nil, nil, pr(sl("f")), Panic{sl("in f")}), callS("f"), pr(sl("never"))})},
		BatchCase{Key: "B3/panic/in-function-in-loop", Gate: "batch-panic-in-function", Prog: SingleFile([]Stmt{fn("f", []Param{{"n", TInt}}, []Type{TInt}, forUp("i", 3, ifs(cmp("==", vr("i"), vr("n")), Panic{sl("at i")})), ret(vr("n"))), pr(call("f", il(7))), pr(call("f", il(1))), pr(sl("never"))})},
		// the callee panics at run time while the call sits inside a block of the caller (a parenthesised block is
		// %-expanded as a whole before it runs; the check after the call must see the value at run time)
		BatchCase{Key: "B3/panic/callee-called-in-loop", Prog: SingleFile([]Stmt{fn("chk", []Param{{"n", TInt}}, nil, ifs(cmp(">", vr("n"), il(1)), Panic{sl("too big")}), pr(sl("ok"), vr("n"))), forUp("i", 4, callS("chk", vr("i")), pr(sl("after"), vr("i"))), pr(sl("never"))})},
		BatchCase{Key: "B3/panic/callee-called-in-if", Prog: SingleFile([]Stmt{fn("chk", []Param{{"n", TInt}}, nil, ifs(cmp(">", vr("n"), il(1)), Panic{sl("too big")}), pr(sl("ok"), vr("n"))), def("v", il(2)), ifs(cmp("==", vr("v"), il(2)), callS("chk", il(1)), callS("chk", vr("v")), pr(sl("never in if"))), pr(sl("never"))})},
		BatchCase{Key: "B3/panic/callee-called-in-else-and-switch", Prog: SingleFile([]Stmt{fn("chk", []Param{{"n", TInt}}, []Type{TInt}, ifs(cmp(">", vr("n"), il(1)), Panic{sl("too big")}), ret(bin("+", vr("n"), il(1)))), def("v", il(0)), If{Branches: []IfBranch{{cmp("==", vr("v"), il(5)), []Stmt{pr(sl("no"))}}}, HasElse: true, Else: []Stmt{Switch{Tag: vr("v"), Cases: []SwitchCase{{E: il(0), Body: []Stmt{set("v", call("chk", il(1))), pr(sl("v"), vr("v")), set("v", call("chk", vr("v"))), pr(sl("never in case"), vr("v"))}}}}, pr(sl("never in else"))}}, pr(sl("never"))})},
		BatchCase{Key: "B3/panic/callee-called-in-function-block", Prog: SingleFile([]Stmt{fn("chk", []Param{{"n", TInt}}, nil, ifs(cmp(">", vr("n"), il(1)), Panic{sl("too big")})), fn("drive", nil, nil, forUp("i", 4, ifs(cmp(">=", vr("i"), il(0)), callS("chk", vr("i")), pr(sl("after"), vr("i")))), pr(sl("never in drive"))), callS("drive"), pr(sl("never"))})},
		BatchCase{Key: "B3/panic/callee-value-in-loop-condition", Prog: SingleFile([]Stmt{fn("lim", []Param{{"n", TInt}}, []Type{TInt}, ifs(cmp(">", vr("n"), il(1)), Panic{sl("too big")}), ret(il(5))), def("i", il(0)), For{Kind: ForCond, Cond: cmp("<", vr("i"), call("lim", vr("i"))), Body: []Stmt{pr(sl("body"), vr("i")), IncDec{"i", true}}}, pr(sl("never"))})},
		BatchCase{Key: "B3/panic/nested-functions", Gate: "batch-panic-in-function", Prog: SingleFile([]Stmt{fn("g", nil, nil, Panic{sl("deep")}), fn("f", nil, nil, callS("g"), pr(sl("never in f"))), callS("f"), pr(sl("never"))})},
	)
	return out
}

// b5NumericLookingStrings: strings that spell numbers are compared as strings (cmd compares unquoted
// numeric-looking operands as numbers: 7 equ 07, 010 equ 8, 0x10 equ 16).
func b5NumericLookingStrings() []BatchCase {
	pairs := [][2]string{{"7", "07"}, {"010", "8"}, {"16", "0x10"}, {"1", "+1"}, {"-0", "0"}, {"00", "0"}, {"5", "5"}, {"12", "012"}, {"0x0A", "10"}, {"9", "09"}, {"100", "1e2"}, {"2147483648", "-2147483648"}}
	cases := []BatchCase{}
	stmts := []Stmt{fn("same", []Param{{"p", TString}, {"q", TString}}, []Type{TBool}, ret(cmp("==", vr("p"), vr("q")))), fn("id", []Param{{"p", TString}}, []Type{TString}, ret(vr("p")))}
	for i, pr2 := range pairs {
		a, b := fmt.Sprintf("a%d", i), fmt.Sprintf("b%d", i)
		stmts = append(stmts, def(a, sl(pr2[0])), def(b, sl(pr2[1])),
			pr(il(int64(i)), cmp("==", vr(a), vr(b)), cmp("!=", vr(a), vr(b)), cmp("==", vr(a), sl(pr2[1])), cmp("==", sl(pr2[0]), vr(b)), call("same", vr(a), vr(b)), cmp("==", call("id", vr(a)), call("id", vr(b))), cmp("==", bin("+", vr(a), sl("")), vr(b))),
			Switch{Tag: vr(a), Cases: []SwitchCase{{E: vr(b), Body: []Stmt{pr(sl("case-equal"), il(int64(i)))}}, {Default: true, Body: []Stmt{pr(sl("case-differs"), il(int64(i)))}}}})
	}
	cases = append(cases, BatchCase{Key: "B5/numeric-looking-strings", Prog: SingleFile(stmts)})
	// the same inside a block (if / loop), where the operands are expanded at run time
	inner := []Stmt{}
	for i, pr2 := range pairs[:6] {
		inner = append(inner, ifs(cmp("==", vr(fmt.Sprintf("c%d", i)), vr(fmt.Sprintf("d%d", i))), pr(sl("equal"), il(int64(i)))))
		_ = pr2
	}
	defs := []Stmt{}
	for i, pr2 := range pairs[:6] {
		defs = append(defs, def(fmt.Sprintf("c%d", i), sl(pr2[0])), def(fmt.Sprintf("d%d", i), sl(pr2[1])))
	}
	cases = append(cases, BatchCase{Key: "B5/numeric-looking-strings-in-loop", Prog: SingleFile(append(defs, forUp("k", 2, inner...), pr(sl("end"))))})
	return cases
}

func b4PrintLines() []BatchCase {
	out := []BatchCase{}
	for i, s := range []string{"on", "off", "ON", "Off", "", " ", "  ", " lead", "trail ", " both ", "on off", "onward", "a  b", ".", "echo", "0", "/", "a.b", "x,y", "k:v"} {
		gate := ""
		switch s {
		case "on", "off", "ON", "Off":
			gate = "batch-echo-on-off"
		case " ", "  ":
			gate = "batch-echo-blank"
		}
		stmts := []Stmt{pr(sl("before")), pr(sl(s)), def("v", sl(s)), pr(vr("v")), pr(sl("x"), vr("v")), pr(sl("after"))}
		out = append(out, BatchCase{Key: fmt.Sprintf("B4/line#%d=%s", i, hexKey(s)), Gate: gate, Prog: SingleFile(stmts)})
	}
	return out
}

func checkC05(c *Check) {
	c.Rule = "(i) the repository's Windows suite executed under the cmd model (expectations validated upstream on real cmd.exe); (ii) the enumerated families of C01-C04 re-run at 32 bit; (iii) Batch-specific families: label allocation (all loop skeletons, also inside functions and followed by a second function; branch/switch sequences and nestings), digit-width crossings 9->10 and 99->100 for growth/copy/range/len, frames (name reuse, global writes, call depth 1-4, returns from nested constructs, panic placements), print lines that cmd treats specially, strings spelling numbers compared as strings; (iv) a seeded random sweep; oracle = reference interpreter at 32 bit + the cmd model as execution platform (both readings of the one uncertain rule must disagree with the reference before a violation is reported) + the real Bash run of the same program as third witness. Programs touching an unmodelled construct are counted inconclusive. Non-trivial = printed a line and executed >= 3 construct kinds; distinct = SHA-256 of source"
	c.Assumptions = []string{"the cmd model (DESIGN.md Appendix A), calibrated on the Windows suite: real cmd.exe is not available", "cmd-neutral string alphabet", "literals inside int32"}
	runProbes(c, batchProbeJudge)
	// (i) suite under the model
	sm := RunSuiteUnderModel()
	c.Extra["suite_under_model"] = map[string]interface{}{"pass": len(sm.Pass), "fail": len(sm.Fail), "unmodelled": sm.Unmodelled}
	if sm.BuildError != "" {
		c.Inconclusive("suite under model could not be built: " + firstLine(sm.BuildError))
	}
	for _, t := range sm.Pass {
		c.Eval("suite/"+t, true)
	}
	for _, t := range sm.Fail {
		c.Eval("suite/"+t, true)
		c.Violation("suite/"+t, "a program of the Windows suite (expectation validated upstream on real cmd.exe) fails under the cmd model", map[string]string{"go-test-output.txt": clip(sm.Output[t], 6000)})
	}
	for range sm.Unmodelled {
		c.Inconclusive("suite test needs an external program or file helper")
	}
	// (ii)-(iv)
	cases := []BatchCase{}
	addBash := func(prefix string, bcs []BashCase) {
		for _, bc := range bcs {
			if bc.AppHook != nil || strings.Contains(bc.Key, "/file-state/") {
				continue // command calls and file builtins are outside C05's fragment (C17, C18; the model runs no programs)
			}
			cases = append(cases, BatchCase{Key: prefix + bc.Key, Prog: bc.Prog, MayReject: bc.MayReject})
		}
	}
	addBash("C01/", c01Families(c))
	addBash("C02/", c02Families(c))
	addBash("C03/", c03Families(c))
	addBash("C04/", c04Families(c))
	cases = append(cases, b1LabelAllocation(c.Thorough())...)
	cases = append(cases, b2DigitWidth()...)
	cases = append(cases, b3Frames()...)
	cases = append(cases, b4PrintLines()...)
	cases = append(cases, b5NumericLookingStrings()...)
	// families written for other properties whose string constants leave the cmd-neutral alphabet of C05
	{
		kept := cases[:0]
		dropped := 0
		for _, bc := range cases {
			if strings.Contains(bc.Key, "elements-shaped-like-options") || strings.Contains(bc.Key, "raw-backslash") {
				dropped++
				continue
			}
			kept = append(kept, bc)
		}
		cases = kept
		c.Extra["cases_outside_cmd_neutral_alphabet_left_out"] = dropped
	}
	c.Extra["enumerated_cases"] = len(cases)
	nrand := c.Pick(900, 30000)
	for i := 0; i < nrand; i++ {
		fam := []string{"c01", "c02", "c03"}[i%3]
		cfg := genConfigs[fam]
		cfg.Width32 = true
		cfg.Upper = false
		cfg.Panic = fam == "c01" // panic inside functions is a recorded finding
		seed := c.Seed*5000011 + int64(i)
		g := NewGen(seed, cfg)
		cases = append(cases, BatchCase{Key: fmt.Sprintf("random/%s/seed=%d", fam, seed), Prog: g.Program()})
	}
	gated := 0
	run := []BatchCase{}
	for _, bc := range cases {
		if bc.Gate != "" && c.Gated(bc.Gate) {
			gated++
			continue
		}
		run = append(run, bc)
	}
	c.Extra["cases_skipped_by_gates"] = gated
	parallelDo(len(run), 16, func(i int) { judgeBatch(c, run[i]) })
}

// batchProbeJudge judges a probe under the cmd model (target "batch") or
// falls back to the Bash/accept/reject judge.
func batchProbeJudge(pr Probe) (bool, string, map[string]string) {
	if pr.Target != "batch" {
		return bashProbeJudge(pr)
	}
	dir := newSandbox()
	defer os.RemoveAll(dir)
	files := map[string]string{}
	for n, s := range pr.Files {
		files[n] = s
	}
	mainPath := WriteSources(dir, pr.Files, "main.tsh")
	tr := TranspileFile(mainPath, Batch, 30*time.Second)
	if !tr.OK() {
		return false, "transpile failed", files
	}
	files["script.bat"] = tr.Script
	ok := false
	detail := ""
	for v := 0; v < 2; v++ {
		r := RunCmdModel(tr.Script, 500000, dir, pr.Stdin, v == 1)
		if r.Unmodelled == "" && !r.NonTerm && r.ScriptErr == "" && r.Stdout == pr.Stdout && r.Exit == pr.Exit {
			ok = true
		} else {
			detail = fmt.Sprintf("stdout %q exit %d unmodelled %q script-error %q nonterm %v; expected stdout %q exit %d", clip(r.Stdout, 200), r.Exit, r.Unmodelled, r.ScriptErr, r.NonTerm, pr.Stdout, pr.Exit)
		}
	}
	return ok, detail, files
}

func init() {
	extraCommands["batchrun"] = func(args []string) {
		tr := TranspileFile(args[0], Batch, 30*time.Second)
		if !tr.OK() {
			fmt.Println("transpile failed:", tr.Err, tr.Panic)
			return
		}
		if len(args) > 1 {
			fmt.Println(strings.ReplaceAll(tr.Script, "\r\n", "\n"))
		}
		r := RunCmdModel(tr.Script, 300000, ".", "", false)
		fmt.Printf("---- stdout:\n%s---- exit=%d unmodelled=%q scripterr=%q nonterm=%v steps=%d\n", r.Stdout, r.Exit, r.Unmodelled, r.ScriptErr, r.NonTerm, r.Steps)
	}
}
