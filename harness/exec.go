package main

import (
	"bytes"
	"context"
	"errors"
	"fmt"
	"os"
	"os/exec"
	"path/filepath"
	"runtime/debug"
	"sort"
	"strings"
	"sync"
	"syscall"
	"time"

	"github.com/monstermichl/typeshell/converters/bash"
	"github.com/monstermichl/typeshell/converters/batch"
	"github.com/monstermichl/typeshell/transpiler"
)

// ---- scratch space ----

var scratchRoot string
var scratchOnce sync.Once

func scratch() string {
	scratchOnce.Do(func() {
		base := "/dev/shm"
		if st, err := os.Stat(base); err != nil || !st.IsDir() {
			base = os.TempDir()
		}
		d, err := os.MkdirTemp(base, "tsverif-")
		if err != nil {
			fatalf("cannot create scratch dir: %v", err)
		}
		scratchRoot = d
	})
	return scratchRoot
}

func cleanupScratch() {
	if scratchRoot != "" {
		os.RemoveAll(scratchRoot)
	}
}

var sandboxSeq struct {
	sync.Mutex
	n int
}

func newSandbox() string {
	sandboxSeq.Lock()
	sandboxSeq.n++
	n := sandboxSeq.n
	sandboxSeq.Unlock()
	d := filepath.Join(scratch(), fmt.Sprintf("sb%07d", n))
	if err := os.MkdirAll(d, 0o755); err != nil {
		fatalf("cannot create sandbox: %v", err)
	}
	return d
}

// ---- L1: transpile through the real library ----

type Target string

const (
	Bash  Target = "bash"
	Batch Target = "batch"
)

type TResult struct {
	Script  string
	Err     error
	Panic   string // recovered Go panic (value + stack), "" if none
	Hang    bool
	Elapsed time.Duration
}

func (r TResult) OK() bool { return r.Err == nil && r.Panic == "" && !r.Hang }

func newConverter(t Target) transpiler.Converter {
	if t == Bash {
		return bash.New()
	}
	return batch.New()
}

// TranspileFile runs the real Transpile on path with a fresh transpiler and
// converter, under recover() and a watchdog.
func TranspileFile(path string, t Target, limit time.Duration) TResult {
	r := transpileOnce(path, t, limit)
	if !r.Hang {
		return r
	}
	// The watchdog is wall-clock time. A call that normally takes milliseconds can miss it when the machine (or the
	// virtual machine it runs in) stalls; so a timeout is confirmed by a second call, one at a time, with twice the
	// limit. A real hang reproduces. At most 8 confirmations per process: a tree on which more calls hang is decided.
	confirmMu.Lock()
	defer confirmMu.Unlock()
	if confirmations >= 8 {
		return r
	}
	confirmations++
	return transpileOnce(path, t, 2*limit)
}

var confirmMu sync.Mutex
var confirmations int

func transpileOnce(path string, t Target, limit time.Duration) TResult {
	type out struct {
		s   string
		err error
		pan string
	}
	ch := make(chan out, 1)
	start := time.Now()
	go func() {
		var o out
		defer func() {
			if r := recover(); r != nil {
				o.pan = fmt.Sprintf("%v\n%s", r, debug.Stack())
			}
			ch <- o
		}()
		tr := transpiler.New()
		o.s, o.err = tr.Transpile(path, newConverter(t))
	}()
	select {
	case o := <-ch:
		return TResult{Script: o.s, Err: o.err, Panic: o.pan, Elapsed: time.Since(start)}
	case <-time.After(limit):
		return TResult{Hang: true, Elapsed: time.Since(start)}
	}
}

// WriteProgram renders all files of p into dir and returns the main path.
func WriteProgram(dir string, p *Program) (string, map[string]string) {
	srcs := map[string]string{}
	for _, f := range p.Files {
		src := RenderFile(f)
		if p.Layout == "tight" {
			src = tightLayout(src)
		}
		srcs[f.Name] = src
		full := filepath.Join(dir, f.Name)
		os.MkdirAll(filepath.Dir(full), 0o755)
		if err := os.WriteFile(full, []byte(src), 0o644); err != nil {
			fatalf("write %s: %v", full, err)
		}
	}
	return filepath.Join(dir, p.Files[0].Name), srcs
}

func WriteSources(dir string, srcs map[string]string, main string) string {
	for name, src := range srcs {
		full := filepath.Join(dir, name)
		os.MkdirAll(filepath.Dir(full), 0o755)
		if err := os.WriteFile(full, []byte(src), 0o644); err != nil {
			fatalf("write %s: %v", full, err)
		}
	}
	return filepath.Join(dir, main)
}

// ---- L2: run an emitted Bash script under the real /bin/bash ----

type RunResult struct {
	Stdout   string
	Stderr   string
	Exit     int
	TimedOut bool
	Capped   bool
	Files    map[string]string // sandbox files after the run (relative path -> content), script itself excluded
}

const stdoutCap = 1 << 20

type capWriter struct {
	buf    bytes.Buffer
	capped bool
}

func (w *capWriter) Write(p []byte) (int, error) {
	if w.buf.Len()+len(p) > stdoutCap {
		w.capped = true
		return 0, errors.New("output cap")
	}
	return w.buf.Write(p)
}

type RunOpts struct {
	Stdin   string
	Timeout time.Duration
	Snap    bool     // snapshot sandbox files afterwards
	Path    string   // PATH value; default /usr/bin:/bin
	Ignore  []string // file names (relative) to leave out of the snapshot
}

func RunBash(dir string, script string, o RunOpts) RunResult {
	sp := filepath.Join(dir, "__script.sh")
	if err := os.WriteFile(sp, []byte(script), 0o755); err != nil {
		fatalf("write script: %v", err)
	}
	if o.Timeout == 0 {
		o.Timeout = 10 * time.Second
	}
	if o.Path == "" {
		o.Path = "/usr/bin:/bin"
	}
	ctx, cancel := context.WithTimeout(context.Background(), o.Timeout)
	defer cancel()
	cmd := exec.CommandContext(ctx, "/bin/bash", sp)
	cmd.Dir = dir
	cmd.Env = []string{"PATH=" + o.Path, "HOME=" + dir}
	cmd.Stdin = strings.NewReader(o.Stdin)
	var so capWriter
	var se capWriter
	cmd.Stdout = &so
	cmd.Stderr = &se
	cmd.SysProcAttr = &syscall.SysProcAttr{Setpgid: true}
	cmd.Cancel = func() error {
		if cmd.Process != nil {
			syscall.Kill(-cmd.Process.Pid, syscall.SIGKILL)
		}
		return nil
	}
	cmd.WaitDelay = 2 * time.Second
	err := cmd.Run()
	res := RunResult{Stdout: so.buf.String(), Stderr: se.buf.String(), Capped: so.capped || se.capped}
	if ctx.Err() != nil {
		res.TimedOut = true
	}
	if err != nil {
		var ee *exec.ExitError
		if errors.As(err, &ee) {
			res.Exit = ee.ExitCode()
		} else {
			res.Exit = -1
		}
	}
	if cmd.Process != nil {
		syscall.Kill(-cmd.Process.Pid, syscall.SIGKILL)
	}
	if o.Snap {
		ign := map[string]bool{"__script.sh": true}
		for _, i := range o.Ignore {
			ign[i] = true
		}
		res.Files = snapshotDir(dir, ign)
	}
	return res
}

func snapshotDir(dir string, ignore map[string]bool) map[string]string {
	out := map[string]string{}
	filepath.Walk(dir, func(p string, info os.FileInfo, err error) error {
		if err != nil {
			return nil
		}
		rel, _ := filepath.Rel(dir, p)
		if rel == "." || ignore[rel] {
			return nil
		}
		if info.IsDir() {
			out[rel+"/"] = ""
			return nil
		}
		if info.Mode()&os.ModeSymlink != 0 {
			t, _ := os.Readlink(p)
			out[rel] = "-> " + t
			return nil
		}
		b, _ := os.ReadFile(p)
		out[rel] = string(b)
		return nil
	})
	return out
}

// step-counted rerun: decides non-termination on logical steps, not wall time.
func RunBashStepLimited(dir string, script string, limit int, o RunOpts) RunResult {
	pre := fmt.Sprintf("set -T\n__tsv_n=0\ntrap '((++__tsv_n > %d)) && exit 97' DEBUG\n", limit)
	lines := strings.SplitN(script, "\n", 2)
	body := script
	if len(lines) == 2 && strings.HasPrefix(lines[0], "#!") {
		body = lines[0] + "\n" + pre + lines[1]
	} else {
		body = pre + script
	}
	if o.Timeout < 40*time.Second {
		o.Timeout = 40 * time.Second
	}
	return RunBash(dir, body, o)
}

// DecideTimeout is called when a RunBash watchdog fired. Wall time says nothing on a loaded machine,
// so the script is run again under a logical step limit in a fresh directory given by prepare():
// "nonterm" = the step limit was exceeded (a verdict), "finished" = it ran to its end (its result
// replaces the timed-out one), "inconclusive" = the second watchdog fired as well.
func DecideTimeout(script string, stepLimit int, o RunOpts, prepare func() string) (verdict string, r RunResult) {
	dir := prepare()
	defer os.RemoveAll(dir)
	r = RunBashStepLimited(dir, script, stepLimit, o)
	switch {
	case r.Exit == 97 && !r.TimedOut:
		return "nonterm", r
	case r.TimedOut:
		return "inconclusive", r
	}
	return "finished", r
}

// ---- parallel map ----

func parallelDo(n int, workers int, fn func(i int)) {
	if workers <= 0 {
		workers = 16
	}
	if os.Getenv("VERIF_SERIAL") == "1" {
		workers = 1 // see ./check: repeat of a run in which the library crashed under concurrent calls
	}
	var wg sync.WaitGroup
	ch := make(chan int, workers*2)
	for w := 0; w < workers; w++ {
		wg.Add(1)
		go func() {
			defer wg.Done()
			for i := range ch {
				fn(i)
			}
		}()
	}
	for i := 0; i < n; i++ {
		ch <- i
	}
	close(ch)
	wg.Wait()
}

func sortedKeys(m map[string]string) []string {
	ks := make([]string, 0, len(m))
	for k := range m {
		ks = append(ks, k)
	}
	sort.Strings(ks)
	return ks
}

func fatalf(format string, a ...interface{}) {
	fmt.Fprintf(os.Stderr, "tsverif: fatal: "+format+"\n", a...)
	cleanupScratch()
	os.Exit(2)
}

// transpileWith runs Transpile with a given converter (e.g. a recorder).
func transpileWith(path string, conv transpiler.Converter) (res TResult) {
	defer func() {
		if r := recover(); r != nil {
			res.Panic = fmt.Sprintf("%v\n%s", r, debug.Stack())
		}
	}()
	tr := transpiler.New()
	s, err := tr.Transpile(path, conv)
	return TResult{Script: s, Err: err}
}
