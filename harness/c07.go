package main

import (
	"fmt"
	"sort"
	"strings"
)

func init() { register("C07", checkC07) }

// ---- skeletons: block trees with numbered sites ----

type skNode struct {
	open  string        // header line ("" for root)
	shut  string        // closing line
	items []interface{} // int (site id placeholder), string (raw line), *skNode
	fn    bool          // function body
	loop  bool
	sw    bool   // switch case body
	hdr   string // name defined by the header and visible in the body ("" if none)
}

type skSite struct {
	id    int
	chain []*skNode // root ... innermost
}

type skeleton struct {
	name  string
	root  *skNode
	sites []skSite
}

func site() interface{} { return -1 }

func node(open, shut string, items ...interface{}) *skNode {
	return &skNode{open: open, shut: shut, items: items}
}

func (s *skeleton) index() {
	s.sites = nil
	var walk func(n *skNode, chain []*skNode)
	walk = func(n *skNode, chain []*skNode) {
		chain = append(append([]*skNode{}, chain...), n)
		for i, it := range n.items {
			switch x := it.(type) {
			case int:
				id := len(s.sites)
				n.items[i] = id
				s.sites = append(s.sites, skSite{id: id, chain: chain})
				_ = x
			case *skNode:
				walk(x, chain)
			}
		}
	}
	walk(s.root, nil)
}

func (s *skeleton) render(content map[int]string) string {
	var b strings.Builder
	var walk func(n *skNode, ind int)
	walk = func(n *skNode, ind int) {
		tabs := strings.Repeat("\t", ind)
		for _, it := range n.items {
			switch x := it.(type) {
			case int:
				if c, ok := content[x]; ok {
					for _, l := range strings.Split(strings.TrimRight(c, "\n"), "\n") {
						b.WriteString(tabs + l + "\n")
					}
				}
			case string:
				b.WriteString(tabs + x + "\n")
			case *skNode:
				// "} else {" style headers are written at the parent's indentation
				b.WriteString(tabs + x.open + "\n")
				sub := ind + 1
				walk(x, sub)
				if x.shut != "" {
					b.WriteString(tabs + x.shut + "\n")
				}
			}
		}
	}
	walk(s.root, 0)
	return b.String()
}

func mainSkeleton() *skeleton {
	fnBody := &skNode{open: "func f(pp int) int {", shut: "}", fn: true, hdr: "pp", items: []interface{}{
		site(),
		node("if c {", "", site()),
		&skNode{open: "} else {", shut: "}", items: []interface{}{site()}},
		&skNode{open: "for fk := 0; fk < 1; fk++ {", shut: "}", loop: true, hdr: "fk", items: []interface{}{
			site(),
			"switch n {",
			&skNode{open: "case 1:", shut: "", sw: true, items: []interface{}{site()}},
			"}",
		}},
		site(),
		"return 0",
	}}
	root := &skNode{items: []interface{}{
		"c := true",
		"n := 1",
		"it := []int{1, 2}",
		site(), // 0 root
		node("if c {", "", site(), node("if n == 1 {", "}", site()), site()),
		&skNode{open: "} else if n == 2 {", shut: "", items: []interface{}{site()}},
		&skNode{open: "} else {", shut: "}", items: []interface{}{site()}},
		site(), // root
		&skNode{open: "for k := 0; k < 1; k++ {", shut: "}", loop: true, hdr: "k", items: []interface{}{
			site(),
			"switch n {",
			&skNode{open: "case 1:", shut: "", sw: true, items: []interface{}{site()}},
			&skNode{open: "default:", shut: "", sw: true, items: []interface{}{site()}},
			"}",
			site(),
		}},
		site(), // root
		&skNode{open: "for ri, rv := range it {", shut: "}", loop: true, hdr: "ri", items: []interface{}{site()}},
		&skNode{open: "for c {", shut: "}", loop: true, items: []interface{}{site(), "c = false"}},
		"switch n {",
		&skNode{open: "case 1:", shut: "", sw: true, items: []interface{}{site()}},
		&skNode{open: "default:", shut: "", sw: true, items: []interface{}{site()}},
		"}",
		site(), // root, before f
		fnBody,
		site(), // root, after f
		"n = f(1)",
		site(), // root, last
	}}
	s := &skeleton{name: "main", root: root}
	s.index()
	return s
}

func (s *skeleton) innermost(id int) *skNode {
	ch := s.sites[id].chain
	return ch[len(ch)-1]
}

func (s *skeleton) inChain(id int, n *skNode) bool {
	for _, x := range s.sites[id].chain {
		if x == n {
			return true
		}
	}
	return false
}

// visible: a definition at site d (placed before anything else at that site)
// is visible at site u.
func (s *skeleton) visible(d, u int) bool {
	return u >= d && s.inChain(u, s.innermost(d))
}

func (s *skeleton) isRoot(id int) bool { return len(s.sites[id].chain) == 1 }
func (s *skeleton) funcOf(id int) *skNode {
	for _, x := range s.sites[id].chain {
		if x.fn {
			return x
		}
	}
	return nil
}
func (s *skeleton) inLoop(id int) bool {
	// a loop between the site and its enclosing function (or root)
	ch := s.sites[id].chain
	for i := len(ch) - 1; i >= 0; i-- {
		if ch[i].loop {
			return true
		}
		if ch[i].fn {
			return false
		}
	}
	return false
}
func (s *skeleton) inSwitch(id int) bool {
	ch := s.sites[id].chain
	for i := len(ch) - 1; i >= 0; i-- {
		if ch[i].sw {
			return true
		}
		if ch[i].fn {
			return false
		}
	}
	return false
}

type c07Cell struct {
	key    string
	src    string
	extra  map[string]string
	expect string
}

// deepSkeleton: nesting depth 4 (thorough tier).
func deepSkeleton() *skeleton {
	inner := &skNode{open: "for k := 0; k < 1; k++ {", shut: "}", loop: true, hdr: "k", items: []interface{}{
		site(),
		node("if c {", "", site(),
			"switch n {",
			&skNode{open: "case 1:", shut: "", sw: true, items: []interface{}{site(),
				&skNode{open: "for ri, rv := range it {", shut: "}", loop: true, hdr: "ri", items: []interface{}{site()}},
				site()}},
			&skNode{open: "default:", shut: "", sw: true, items: []interface{}{site()}},
			"}",
			site()),
		&skNode{open: "} else if n == 3 {", shut: "", items: []interface{}{site()}},
		&skNode{open: "} else {", shut: "}", items: []interface{}{site(), node("if n == 4 {", "}", site())}},
		site(),
	}}
	fnBody := &skNode{open: "func f(pp int) int {", shut: "}", fn: true, hdr: "pp", items: []interface{}{
		site(),
		&skNode{open: "for fk := 0; fk < 1; fk++ {", shut: "}", loop: true, hdr: "fk", items: []interface{}{
			site(),
			node("if c {", "}", site(), &skNode{open: "for c {", shut: "}", loop: true, items: []interface{}{site(), "break"}}, site()),
		}},
		site(),
		"return 0",
	}}
	root := &skNode{items: []interface{}{"c := true", "n := 1", "it := []int{1, 2}", site(), fnBody, site(), inner, site(), "n = f(1)", site()}}
	s := &skeleton{name: "deep", root: root}
	s.index()
	return s
}

func c07Cells(thorough bool) []c07Cell {
	cells := c07CellsFor(mainSkeleton(), true)
	if thorough {
		cells = append(cells, c07CellsFor(deepSkeleton(), false)...)
	}
	return cells
}

func c07CellsFor(s *skeleton, withFixed bool) []c07Cell {
	n := len(s.sites)
	cells := []c07Cell{}
	add := func(key string, content map[int]string, expectAccept bool) {
		e := "reject"
		if expectAccept {
			e = "accept"
		}
		cells = append(cells, c07Cell{key: s.name + "/" + key, src: s.render(content), expect: e})
	}
	defs := map[string]string{"short": "x := 1", "var": "var x int", "var-init": "var x int = 1", "slice": "x := []int{1}", "multi": "x, xb := 1, 2"}
	uses := map[string]map[string]string{
		"short":    {"read": "print(x)", "assign": "x = 2", "compound": "x += 1", "inc": "x++", "in-expr": "n = x + 1", "in-cond": "if x == 1 {\n}"},
		"var":      {"read": "print(x)", "dec": "x--"},
		"var-init": {"assign": "x = 3"},
		"slice":    {"elem-write": "x[0] = 2", "elem-read": "print(x[0])", "len": "print(len(x))"},
		"multi":    {"read-second": "print(xb)"},
	}
	for d := 0; d < n; d++ {
		for u := 0; u < n; u++ {
			vis := s.visible(d, u)
			for dk, dtext := range defs {
				for uk, utext := range uses[dk] {
					content := map[int]string{}
					if d == u {
						content[d] = dtext + "\n" + utext
					} else {
						content[d] = dtext
						content[u] = utext
					}
					add(fmt.Sprintf("use/%s/%s/D%d/U%d", dk, uk, d, u), content, vis)
				}
			}
			// redefinition at u
			for _, rk := range [][2]string{{"short", "x := 5"}, {"var", "var x int"}, {"other-type", "x := \"s\""}, {"var-list-new-second", "var x, extra int"}, {"var-list-new-first", "var extra, x int"}, {"var-list-values", "var x, extra = 5, 6"}, {"var-list-three", "var e1, x, e2 string"}} {
				content := map[int]string{}
				if d == u {
					content[d] = "x := 1\n" + rk[1]
				} else {
					content[d] = "x := 1"
					content[u] = rk[1]
				}
				// two definitions of x: rejected iff the textually earlier one is visible at the later one
				add(fmt.Sprintf("redef/%s/D%d/U%d", rk[0], d, u), content, !vis && !s.visible(u, d))
			}
			// := with one new name re-uses a visible one (same scope only is asserted: accept when d == u)
			if d == u {
				add(fmt.Sprintf("partial/D%d", d), map[int]string{d: "x := 1\nx, y := 2, 3\nprint(x, y)"}, true)
				add(fmt.Sprintf("no-new/D%d", d), map[int]string{d: "x, y := 1, 2\nx, y := 3, 4"}, false)
				// a := list inside a nested block that names a variable of the enclosing block: whatever it does
				// to x inside, x is still defined behind the block, and the block's own names are not
				for bk, b := range map[string][2]string{"if": {"if 1 == 1 {\n", "}\n"}, "else": {"if 1 == 2 {\n} else {\n", "}\n"}, "case": {"switch 1 {\ncase 1:\n", "}\n"}, "for": {"for pk9 := 0; pk9 < 1; pk9++ {\n", "}\n"}, "if-in-for": {"for pk9 := 0; pk9 < 1; pk9++ {\nif 1 == 1 {\n", "}\n}\n"}} {
					add(fmt.Sprintf("partial-in-block/%s/outer-lives-on/D%d", bk, d), map[int]string{d: "x := 1\n" + b[0] + "x, y := 2, 3\nprint(x, y)\n" + b[1] + "print(x)\nx = 4"}, true)
					add(fmt.Sprintf("partial-in-block/%s/two-outer-names/D%d", bk, d), map[int]string{d: "x := 1\nw := 2\n" + b[0] + "w, y, x := 2, 3, 4\nprint(y)\n" + b[1] + "print(x, w)"}, true)
					add(fmt.Sprintf("partial-in-block/%s/inner-name-gone/D%d", bk, d), map[int]string{d: "x := 1\n" + b[0] + "x, y := 2, 3\nprint(x, y)\n" + b[1] + "print(y)"}, false)
					add(fmt.Sprintf("partial-in-block/%s/redefined-after-it/D%d", bk, d), map[int]string{d: "x := 1\n" + b[0] + "x, y := 2, 3\nx, y := 5, 6\n" + b[1]}, false)
				}
			}
		}
		// a name used inside its own definition (initialiser, loop header, ranged expression): not yet visible there
		for sk, st := range map[string]string{
			"short":       "x := x + 1",
			"var":         "var x int = x",
			"multi-cross": "x, y := 1, x",
			"slice-lit":   "x := []int{x}",
			"for-init":    "for x := x; x < 1; x++ {\n}",
			"for-init-2":  "for x := 0 + x; x < 1; x++ {\n}",
			"range-index": "q := []string{\"a\"}\nfor x, v := range q[x] {\n}",
			"range-value": "q := []string{\"a\"}\nfor i, x := range q[len(x)] {\n}",
			"range-both":  "q := []string{\"a\"}\nfor x, v := range q[len(v)] {\n}",
			"len-of-self": "x := len(x)",
		} {
			add(fmt.Sprintf("undefined/self-reference/%s/U%d", sk, d), map[int]string{d: st}, false)
		}
		// use without any definition
		add(fmt.Sprintf("undefined/read/U%d", d), map[int]string{d: "print(x)"}, false)
		add(fmt.Sprintf("undefined/assign/U%d", d), map[int]string{d: "x = 1"}, false)
		add(fmt.Sprintf("undefined/call/U%d", d), map[int]string{d: "nofunc()"}, false)
	}
	// header variables: parameters, for-init and range variables live in their construct
	for u := 0; u < n; u++ {
		for _, h := range []string{"pp", "fk", "k", "ri", "rv"} {
			vis := false
			for _, nd := range s.sites[u].chain {
				if nd.hdr == h || (h == "rv" && nd.hdr == "ri") {
					vis = true
				}
			}
			add(fmt.Sprintf("header/%s/read/U%d", h, u), map[int]string{u: "print(" + h + ")"}, vis)
			add(fmt.Sprintf("header/%s/redef/U%d", h, u), map[int]string{u: h + " := 7"}, !vis && !s.headerSeesLater(h, u))
		}
	}
	// functions: definition site x call site
	for d := 0; d < n; d++ {
		for u := 0; u < n; u++ {
			content := map[int]string{}
			okDef := s.isRoot(d)
			call := "g()"
			if d == u {
				content[d] = "func g() {\n}\n" + call
			} else {
				content[d] = "func g() {\n}"
				content[u] = call
			}
			add(fmt.Sprintf("func/call/D%d/U%d", d, u), content, okDef && u >= d)
		}
		add(fmt.Sprintf("func/define-only/D%d", d), map[int]string{d: "func g() {\n}"}, s.isRoot(d))
		add(fmt.Sprintf("func/self-call/D%d", d), map[int]string{d: "func g() {\n\tg()\n}"}, false)
		add(fmt.Sprintf("func/duplicate/D%d", d), map[int]string{d: "func g() {\n}\nfunc g() {\n}"}, false)
		add(fmt.Sprintf("func/duplicate-of-f/D%d", d), map[int]string{d: "func f() {\n}"}, false)
		add(fmt.Sprintf("func/value-func-ok/D%d", d), map[int]string{d: "func g(a int, b string) (int, string) {\n\treturn a, b\n}"}, s.isRoot(d))
	}
	// placement of break / continue / return
	for u := 0; u < n; u++ {
		if s.inSwitch(u) && !s.inLoop(u) {
			// break inside a switch outside any loop: legal Go, excluded by C01; nothing asserted
		} else {
			add(fmt.Sprintf("place/break/U%d", u), map[int]string{u: "break"}, s.inLoop(u))
			add(fmt.Sprintf("place/break-in-nested-if/U%d", u), map[int]string{u: "if c {\n\tbreak\n}"}, s.inLoop(u))
		}
		add(fmt.Sprintf("place/continue/U%d", u), map[int]string{u: "continue"}, s.inLoop(u))
		add(fmt.Sprintf("place/return/U%d", u), map[int]string{u: "return 5"}, s.funcOf(u) != nil)
		add(fmt.Sprintf("place/continue-in-nested-if/U%d", u), map[int]string{u: "if c {\n\tcontinue\n}"}, s.inLoop(u))
	}
	// fixed cells
	fixed := []struct {
		key, src string
		accept   bool
	}{
		{"fall-off/no-return", "func g() int {\n}\n", false},
		{"fall-off/return-in-if-only", "c := true\nfunc g() int {\n\tif c {\n\t\treturn 1\n\t}\n}\n", false},
		{"fall-off/return-then-statement", "func g() int {\n\treturn 1\n\tprint(1)\n}\n", false},
		{"fall-off/last-return", "c := true\nfunc g() int {\n\tif c {\n\t\treturn 2\n\t}\n\treturn 1\n}\n", true},
		{"fall-off/last-is-print", "func g() int {\n\tprint(1)\n}\n", false},
		{"fall-off/last-is-assignment", "func g() int {\n\tx := 1\n\tx = 2\n}\n", false},
		{"fall-off/last-is-for", "func g() int {\n\tfor i := 0; i < 1; i++ {\n\t\treturn 1\n\t}\n}\n", false},
		{"fall-off/last-is-call", "func h() int {\n\treturn 1\n}\nfunc g() int {\n\th()\n}\n", false},
		{"fall-off/two-results", "func g() (int, string) {\n\tprint(1)\n}\n", false},
		{"fall-off/slice-result", "func g() []int {\n\tx := []int{1}\n\tx[0] = 2\n}\n", false},
		{"fall-off/nested-return-then-print", "c := true\nfunc g() int {\n\tif c {\n\t\treturn 1\n\t}\n\tprint(2)\n}\n", false},
		{"fall-off/ok-return-after-loop", "func g() int {\n\tfor i := 0; i < 1; i++ {\n\t\tprint(i)\n\t}\n\treturn 3\n}\nprint(g())\n", true},
		{"fall-off/void-ok", "func g() {\n\tprint(1)\n}\n", true},
		{"fall-off/endless-loop-break-in-if", "c := true\nfunc g() int {\n\tfor {\n\t\tif c {\n\t\t\tbreak\n\t\t}\n\t\treturn 1\n\t}\n}\n", false},
		{"fall-off/endless-loop-break-in-else-if", "c := true\nfunc g() int {\n\tfor {\n\t\tif c {\n\t\t\treturn 1\n\t\t} else if !c {\n\t\t\tbreak\n\t\t}\n\t}\n}\n", false},
		{"fall-off/endless-loop-break-in-else", "c := true\nfunc g() int {\n\tfor {\n\t\tif c {\n\t\t\treturn 1\n\t\t} else {\n\t\t\tbreak\n\t\t}\n\t}\n}\n", false},
		{"fall-off/endless-loop-break-in-second-else-if", "c := true\nn := 1\nfunc g() int {\n\tfor {\n\t\tif c {\n\t\t\treturn 1\n\t\t} else if n == 1 {\n\t\t\treturn 2\n\t\t} else if n == 2 {\n\t\t\tbreak\n\t\t}\n\t}\n}\n", false},
		{"fall-off/endless-loop-break-in-second-case", "n := 1\nfunc g() int {\n\tfor {\n\t\tswitch n {\n\t\tcase 1:\n\t\t\treturn 1\n\t\tcase 2:\n\t\t\tbreak\n\t\t}\n\t}\n}\n", false},
		{"fall-off/endless-loop-break-in-default", "n := 1\nfunc g() int {\n\tfor {\n\t\tswitch n {\n\t\tcase 1:\n\t\t\treturn 1\n\t\tdefault:\n\t\t\tbreak\n\t\t}\n\t}\n}\n", false},
		{"fall-off/endless-loop-break-in-nested-loop-if", "c := true\nfunc g() int {\n\tfor {\n\t\tfor i := 0; i < 2; i++ {\n\t\t}\n\t\tif c {\n\t\t} else if !c {\n\t\t\tif c {\n\t\t\t\tbreak\n\t\t\t}\n\t\t}\n\t}\n}\n", false},
		{"fall-off/if-else-both-return-then-nothing-after-loop", "c := true\nfunc g() int {\n\tfor i := 0; i < 1; i++ {\n\t\tif c {\n\t\t\treturn 1\n\t\t} else {\n\t\t\treturn 2\n\t\t}\n\t}\n}\n", false},
		{"params/duplicate", "func g(a int, a int) {\n}\n", false},
		{"params/duplicate-types", "func g(a int, a string) {\n}\n", false},
		{"params/distinct", "func g(a int, b int) {\n\tprint(a, b)\n}\ng(1, 2)\n", true},
		{"params/same-in-two-functions", "func g(a int) {\n\tprint(a)\n}\nfunc h(a int) {\n\tprint(a)\n}\ng(1)\nh(2)\n", true},
		{"params/local-vs-param", "func g(a int) {\n\ta := 2\n}\n", false},
		{"params/global-before", "a := 1\nfunc g(a int) {\n}\n", false},
		{"params/global-after", "func g(a int) {\n\tprint(a)\n}\na := 1\ng(a)\n", true},
		{"caller-locals/invisible", "func g() {\n\tprint(loc)\n}\nfunc h() {\n\tloc := 1\n\tg()\n}\nh()\n", false},
		{"caller-locals/global-visible", "glob := 1\nfunc g() {\n\tprint(glob)\n}\nfunc h() {\n\tg()\n}\nh()\n", true},
		{"caller-locals/top-level-block-var-invisible", "c := true\nif c {\n\tblk := 1\n}\nfunc g() {\n\tprint(blk)\n}\n", false},
		{"caller-locals/loop-var-invisible", "for i := 0; i < 1; i++ {\n}\nfunc g() {\n\tprint(i)\n}\n", false},
		{"global-after-function-invisible", "func g() {\n\tprint(late)\n}\nlate := 1\ng()\n", false},
		{"function-after-use", "g()\nfunc g() {\n}\n", false},
		{"function-used-in-earlier-function", "func h() {\n\tg()\n}\nfunc g() {\n}\nh()\n", false},
		{"function-chain", "func g() int {\n\treturn 1\n}\nfunc h() int {\n\treturn g() + 1\n}\nprint(h())\n", true},
		{"var-and-func-same-name", "g := 1\nfunc g() {\n}\n", true},
		{"for-var-after-loop", "for i := 0; i < 1; i++ {\n}\nprint(i)\n", false},
		{"for-var-reuse-sequential", "for i := 0; i < 1; i++ {\n}\nfor i := 0; i < 1; i++ {\n}\n", true},
		{"for-var-shadow-outer", "i := 5\nfor i := 0; i < 1; i++ {\n}\n", false},
		{"range-var-after-loop", "s := []int{1}\nfor i, v := range s {\n}\nprint(v)\n", false},
		{"range-index-equals-value", "s := []int{1}\nfor i, i := range s {\n}\n", false},
		{"switch-case-var-in-next-case", "n := 1\nswitch n {\ncase 1:\n\tq := 1\ncase 2:\n\tprint(q)\n}\n", false},
		{"switch-case-var-reuse", "n := 1\nswitch n {\ncase 1:\n\tq := 1\n\tprint(q)\ncase 2:\n\tq := 2\n\tprint(q)\n}\n", true},
		{"if-var-in-else", "c := true\nif c {\n\tq := 1\n} else {\n\tprint(q)\n}\n", false},
		{"else-if-var-in-else", "c := true\nif c {\n} else if c {\n\tq := 1\n} else {\n\tprint(q)\n}\n", false},
		// := whose names are all visible already, with one multi-value call on the right
		{"no-new-names-multi-call", "func pair() (int, int) {\n\treturn 1, 2\n}\nx, y := 1, 2\nx, y := pair()\nprint(x, y)\n", false},
		{"no-new-names-multi-call-in-function", "func pair() (int, int) {\n\treturn 1, 2\n}\nfunc run(x int) {\n\ty := 2\n\tx, y := pair()\n\tprint(x, y)\n}\nrun(1)\n", false},
		{"no-new-names-multi-call-in-block", "func pair() (int, int) {\n\treturn 1, 2\n}\nx, y := 1, 2\nif x == 1 {\n\tx, y := pair()\n\tprint(x, y)\n}\n", false},
		{"no-new-names-multi-call-three", "func three() (int, string, bool) {\n\treturn 1, \"s\", true\n}\na, b, c := 0, \"\", false\na, b, c := three()\nprint(a, b, c)\n", false},
		{"no-new-names-program-call", "o, e, c := @echo(\"a\")\no, e, c := @echo(\"b\")\nprint(o, e, c)\n", false},
		{"no-new-names-var-multi-call", "func pair() (int, int) {\n\treturn 1, 2\n}\nx, y := 1, 2\nvar x, y = pair()\nprint(x, y)\n", false},
		{"one-new-name-multi-call", "func pair() (int, int) {\n\treturn 1, 2\n}\nx := 1\nx, y := pair()\nprint(x, y)\n", true},
		{"assignment-multi-call", "func pair() (int, int) {\n\treturn 1, 2\n}\nx, y := 1, 2\nx, y = pair()\nprint(x, y)\n", true},
	}
	if !withFixed {
		return cells
	}
	for _, f := range fixed {
		e := "reject"
		if f.accept {
			e = "accept"
		}
		cells = append(cells, c07Cell{key: "fixed/" + f.key, src: f.src, expect: e})
	}
	// import boundary
	lib := "Shown := 7\nhidden := 6\n_Under := 5\nfunc priv() int {\n\treturn 1\n}\nfunc _secret() int {\n\treturn 2\n}\nfunc _Secret() int {\n\treturn 3\n}\nfunc pRIV() int {\n\treturn 4\n}\nfunc x9() int {\n\treturn 5\n}\nfunc Pub() int {\n\treturn priv() + _secret() + _Secret() + pRIV() + x9() + hidden + _Under + Shown\n}\nfunc PubVoid() {\n}\n"
	for u := 0; u < n; u++ {
		for _, uc := range []struct {
			name, text string
			accept     bool
		}{
			{"public", "print(m.Pub())", true},
			{"public-void", "m.PubVoid()", true},
			{"private", "print(m.priv())", false},
			{"private-underscore", "print(m._secret())", false},
			{"private-underscore-upper", "print(m._Secret())", false},
			{"private-lower-then-upper", "print(m.pRIV())", false},
			{"private-letter-digit", "print(m.x9())", false},
			{"private-as-statement", "m._secret()", false},
			{"private-unqualified", "print(priv())", false},
			{"private-underscore-unqualified", "print(_secret())", false},
			{"private-global-unqualified", "print(hidden)", false},
			{"private-underscore-global-unqualified", "print(_Under)", false},
			{"public-global-unqualified", "print(Shown)", false},
			{"missing", "m.Missing()", false},
			{"unknown-alias", "zz.Pub()", false},
			{"unknown-alias-for-own-function", "print(zz.f(1))", false},
			{"no-alias", "print(Pub())", false},
			{"alias-as-variable", "print(m)", false},
		} {
			src := "import m \"lib.tsh\"\n\n" + s.render(map[int]string{u: uc.text})
			e := "reject"
			if uc.accept {
				e = "accept"
			}
			cells = append(cells, c07Cell{key: fmt.Sprintf("import/%s/U%d", uc.name, u), src: src, extra: map[string]string{"lib.tsh": lib}, expect: e})
		}
	}
	return cells
}

// headerSeesLater: redefinition of header name h at site u is rejected when u is
// textually before the construct but in a block that encloses it? No: a later
// definition never conflicts with an earlier one. Kept for clarity: returns
// false always except when the site is inside the construct (handled by vis).
func (s *skeleton) headerSeesLater(h string, u int) bool {
	// x := 7 at a root site *before* a construct whose header defines x makes
	// the header a redefinition of a visible variable.
	for id := u + 1; id < len(s.sites); id++ {
		for _, nd := range s.sites[id].chain {
			if nd.hdr == h || (h == "rv" && nd.hdr == "ri") {
				// construct starts after u: collision iff u's block encloses the construct
				return s.inChain(id, s.innermost(u)) && !s.inChain(u, nd)
			}
		}
	}
	return false
}

func checkC07(c *Check) {
	c.Rule = "exhaustive (plus value lists inside nested blocks naming outer variables, and value functions ending in endless loops with a break in every kind of branch) over one block skeleton with 24 sites (top level, if / else-if / else, nested if, 3-clause for, range, while-for, switch cases inside and outside loops, a function body with nested blocks): every ordered pair (definition site, use site) x definition kind x use kind, redefinition variants, header variables (parameter, for-init, range), function definition x call site, break/continue/return/func at every site, import boundary uses at every site, plus fixed scope cells; a third of the cells again with every closing brace moved onto the preceding statement line; expected verdict from a scope calculator over the block tree; both targets. Every cell is a distinct program; distinct = SHA-256 of source"
	c.Assumptions = []string{"scope calculator: definition to end of block; header variables within their construct; functions after their top-level definition, not inside themselves; function bodies see globals defined earlier; no shadowing", "break directly inside a switch outside any loop is not asserted (legal in Go, excluded as undefined behaviour by C01)"}
	cells := c07Cells(c.Thorough())
	c.Exhaustive = true
	c.Extra["table_cells"] = len(cells)
	runProbes(c, bashProbeJudge)
	acc := make([]bool, len(cells))
	parallelDo(len(cells), 16, func(i int) {
		cell := cells[i]
		a, b, dir := transpileBoth(cell.src, cell.extra)
		va, vb := verdictOf(a), verdictOf(b)
		acc[i] = va == "accept"
		if cell.extra == nil && (i%7 == 0 || strings.HasPrefix(cell.key, "fixed/") || strings.Contains(cell.key, "/func/")) {
			// the same program as an imported file (names are then resolved with a non-empty prefix)
			msrc, extra := importedVariant(cell.src)
			ia, ib, idir := transpileBoth(msrc, extra)
			c.Eval("imported\x00"+cell.src, true)
			if verdictOf(ia) != cell.expect || verdictOf(ib) != cell.expect {
				d := ""
				if ia.Err != nil {
					d = stripDir(ia.Err.Error(), idir)
				}
				c.Violation("imported/"+cell.key, fmt.Sprintf("the same program as an imported file: expected %s, bash=%s batch=%s %s", cell.expect, verdictOf(ia), verdictOf(ib), d), map[string]string{"main.tsh": msrc, "lib.tsh": cell.src})
			}
		}
		if cell.extra == nil && (i%3 == 1 || strings.HasPrefix(cell.key, "fixed/")) {
			// the same program with every closing brace moved to the end of the statement line before it
			// (an accepted layout): scopes, placement and the fall-off rule must not depend on it
			if joined := joinClosingBraces(cell.src); joined != cell.src {
				ja, jb, jdir := transpileBoth(joined, nil)
				c.Eval("joined\x00"+joined, true)
				if verdictOf(ja) != cell.expect || verdictOf(jb) != cell.expect {
					d := ""
					if ja.Err != nil {
						d = stripDir(ja.Err.Error(), jdir)
					}
					c.Violation("joined-braces/"+cell.key, fmt.Sprintf("closing braces on the statement line: expected %s, bash=%s batch=%s %s", cell.expect, verdictOf(ja), verdictOf(jb), d), map[string]string{"main.tsh": joined, "original.tsh": cell.src})
				}
			}
		}
		c.Eval(cell.src, true)
		files := map[string]string{"main.tsh": cell.src, "expected": cell.expect}
		for n, s := range cell.extra {
			files[n] = s
		}
		det := func(r TResult) string {
			if r.Err != nil {
				return stripDir(r.Err.Error(), dir)
			}
			if r.Panic != "" {
				return "panic: " + firstLine(r.Panic)
			}
			return ""
		}
		if va != cell.expect {
			c.Violation("bash/"+cell.key, fmt.Sprintf("expected %s, Bash target: %s %s", cell.expect, va, det(a)), files)
		}
		if vb != cell.expect {
			c.Violation("batch/"+cell.key, fmt.Sprintf("expected %s, Batch target: %s %s", cell.expect, vb, det(b)), files)
		}
		if i%1500 == 7 {
			c.Sample(map[string]interface{}{"key": cell.key, "expected": cell.expect, "bash": va, "batch": vb, "source": cell.src})
		}
	})
	na := 0
	for _, a := range acc {
		if a {
			na++
		}
	}
	// break directly in a switch that no loop encloses: whether the language accepts it is not asserted (Go does,
	// this language need not), but the answer cannot depend on unrelated loops elsewhere in the program
	{
		sw := "n := 1\nswitch n {\ncase 1:\n\tprint(\"one\")\n\tbreak\ndefault:\n\tprint(\"other\")\n}\n"
		swFn := "n := 1\nfunc pick() {\n\tswitch n {\n\tcase 1:\n\t\tif n == 1 {\n\t\t\tbreak\n\t\t}\n\t}\n}\npick()\n"
		loopBefore := "for i := 0; i < 1; i++ {\n}\n"
		loopFnBefore := "func lp() {\n\tfor {\n\t\tbreak\n\t}\n}\nlp()\n"
		rangeBefore := "for i, ch := range \"ab\" {\n\tprint(i, ch)\n}\n"
		stdBefore := "import \"strings\"\n\nprint(strings.Contains(\"ab\", \"a\"))\n"
		for bi, base := range []string{sw, swFn} {
			ra, rb, _ := transpileBoth(base, nil)
			for vi, pre := range []string{loopBefore, loopFnBefore, rangeBefore, stdBefore, loopBefore + loopFnBefore} {
				src := pre + base
				va, vb, _ := transpileBoth(src, nil)
				c.Eval("switch-break-consistency\x00"+src, true)
				if verdictOf(va) != verdictOf(ra) || verdictOf(vb) != verdictOf(rb) {
					c.Violation(fmt.Sprintf("switch-break-consistency/%d/%d", bi, vi), fmt.Sprintf("break in a switch outside any loop: %s/%s alone, %s/%s when an unrelated loop stands before it", verdictOf(ra), verdictOf(rb), verdictOf(va), verdictOf(vb)), map[string]string{"main.tsh": src, "alone.tsh": base})
				}
			}
		}
	}
	// ... nor on the branch the construct stands in: a construct that only the back-end refuses (break in a switch
	// outside any loop, ordering comparison of strings) gets the same verdict in every position of a program
	{
		wrap := map[string]func(string) string{
			"top":             func(x string) string { return x },
			"if-branch":       func(x string) string { return "if n == 1 {\n" + x + "} else {\n\tprint(\"e\")\n}\n" },
			"elseif-branch":   func(x string) string { return "if n == 2 {\n\tprint(\"a\")\n} else if n == 1 {\n" + x + "} else {\n\tprint(\"e\")\n}\n" },
			"else-branch":     func(x string) string { return "if n == 2 {\n\tprint(\"a\")\n} else {\n" + x + "}\n" },
			"else-of-else":    func(x string) string { return "if n == 2 {\n\tprint(\"a\")\n} else {\n\tif n == 3 {\n\t\tprint(\"b\")\n\t} else {\n" + x + "\t}\n}\n" },
			"if-in-else":      func(x string) string { return "if n == 2 {\n\tprint(\"a\")\n} else {\n\tif n == 1 {\n" + x + "\t}\n}\n" },
			"function-body":   func(x string) string { return "func run() {\n" + x + "}\nrun()\n" },
			"function-else":   func(x string) string { return "func run() {\n\tif n == 2 {\n\t\tprint(\"a\")\n\t} else {\n" + x + "\t}\n}\nrun()\n" },
			"outer-default":   func(x string) string { return "switch n {\ncase 5:\n\tprint(\"five\")\ndefault:\n" + x + "}\n" },
			"outer-case":      func(x string) string { return "switch n {\ncase 1:\n" + x + "default:\n\tprint(\"d\")\n}\n" },
			"outer-last-case": func(x string) string { return "switch n {\ncase 5:\n\tprint(\"five\")\ncase 1:\n" + x + "}\n" },
		}
		constructs := map[string]string{
			"break-in-case":         "switch n {\ncase 1:\n\tprint(\"one\")\n\tbreak\ndefault:\n\tprint(\"other\")\n}\n",
			"break-in-later-case":   "switch n {\ncase 4:\n\tprint(\"four\")\ncase 1:\n\tbreak\n}\n",
			"break-in-default":      "switch n {\ncase 4:\n\tprint(\"four\")\ndefault:\n\tprint(\"other\")\n\tbreak\n}\n",
			"break-in-only-default": "switch n {\ndefault:\n\tbreak\n}\n",
			"break-in-if-in-default": "switch n {\ncase 4:\n\tprint(\"four\")\ndefault:\n\tif n == 1 {\n\t\tbreak\n\t}\n}\n",
			"break-in-else-in-case": "switch n {\ncase 1:\n\tif n == 4 {\n\t\tprint(\"four\")\n\t} else {\n\t\tbreak\n\t}\n}\n",
			"string-ordering":       "print(\"a\" < \"b\")\n",
			"string-ordering-to-variable": "lt := \"a\" >= \"b\"\nprint(lt)\n",
		}
		ck := []string{}
		for k := range constructs {
			ck = append(ck, k)
		}
		sort.Strings(ck)
		wk := []string{}
		for k := range wrap {
			wk = append(wk, k)
		}
		sort.Strings(wk)
		family := func(k string) string {
			if strings.HasPrefix(k, "break") {
				return "break"
			}
			return "ordering"
		}
		first := map[string]string{}
		firstSrc := map[string]string{}
		counts := map[string]int{}
		for _, k := range ck {
			for _, w := range wk {
				src := "n := 1\n" + wrap[w](constructs[k])
				va, vb, _ := transpileBoth(src, nil)
				c.Eval("backend-refusal-position\x00"+src, true)
				v := verdictOf(va) + "/" + verdictOf(vb)
				counts[family(k)+": "+v]++
				if f, ok := first[family(k)]; !ok {
					first[family(k)], firstSrc[family(k)] = v, src
				} else if f != v {
					c.Violation(fmt.Sprintf("backend-refusal-position/%s/%s", k, w), fmt.Sprintf("%s at position %s: Bash/Batch verdicts %s, but %s for the same kind of construct elsewhere", k, w, v, f), map[string]string{"main.tsh": src, "elsewhere.tsh": firstSrc[family(k)]})
				}
			}
		}
		c.Extra["backend_refusal_position_verdicts"] = counts
	}
	c.Extra["observed_accepts"] = na
	c.Extra["observed_rejects"] = len(cells) - na
}

// joinClosingBraces moves a closing brace that stands at the beginning of a line to the end of the
// previous line when that line is a plain statement (not a block opener, a case label, another
// closing brace or empty).
func joinClosingBraces(src string) string {
	lines := strings.Split(src, "\n")
	out := []string{}
	for _, l := range lines {
		t := strings.TrimSpace(l)
		if strings.HasPrefix(t, "}") && len(out) > 0 {
			prev := strings.TrimSpace(out[len(out)-1])
			if prev != "" && !strings.HasSuffix(prev, "{") && !strings.HasSuffix(prev, ":") && prev != "}" && !strings.HasPrefix(prev, "} else") && !strings.HasPrefix(prev, "//") && !strings.Contains(prev, "//") && !(strings.HasPrefix(prev, "var ") && !strings.Contains(prev, "=")) {
				// (a declaration without value must be followed by a line break in this language; not a scope matter)
				out[len(out)-1] += " " + t
				continue
			}
		}
		out = append(out, l)
	}
	return strings.Join(out, "\n")
}
