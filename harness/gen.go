package main

import (
	"fmt"
	"math"
	"math/rand"
)

// Random generator of well-typed RefLang programs. Well-typedness and the
// language's scoping rules (no shadowing; a function sees only globals defined
// before it; functions call only earlier functions) hold by construction.
// Termination holds by construction (every loop owns a bounded counter that is
// advanced before any continue) and is double-checked by the interpreter's step
// budget.

type GenCfg struct {
	MaxTop      int  // top-level statements (excluding functions)
	MaxBlock    int  // statements per nested block
	MaxDepth    int  // nesting depth of control flow
	ExprDepth   int  // expression depth
	MaxFuncs    int  // 0 => no functions
	Slices      bool // slice types and operations
	StringOps   bool // s[i], s[a:b], len(s), range over strings
	MultiAssign bool // a, b = e1, e2
	Panic       bool
	Width32     bool // keep literals inside int32 (Batch)
	SmallNames  bool // draw names from a tiny pool to force coincidences
	Effects     bool // functions print trace lines
	NoSwitch    bool
	NoNotNot    bool // gate: !!b
	NoCmpChain  bool // gate: a < b == c
	Alphabet    string
	Upper       bool // allow upper-case initial identifiers
	Builtins    bool // input, read, write, exists, @prog calls (programs are not executable blindly)
}

type gvar struct {
	name     string
	t        Type
	readonly bool // loop counters, range variables
	minLen   int  // slices/strings: statically known lower bound of len
	frozen   bool // never assigned after definition (minLen stays valid)
	global   bool
}

type gscope struct {
	vars  []*gvar
	block bool
}

type gfunc struct {
	name    string
	params  []Param
	results []Type
	pure    bool
}

type Gen struct {
	r         *rand.Rand
	cfg       GenCfg
	scopes    []*gscope
	funcs     []*gfunc
	inFunc    *gfunc
	loopDepth int
	swDepth   int // switch nesting since innermost loop
	depth     int
	nameN     int
	used      map[string]bool // all names ever used (unique mode)
	counterN  int
}

const neutralAlphabet = "abcdefghijklmnopqrstuvwxyzABCDEFGHIJKLMNOPQRSTUVWXYZ0123456789_.,:"

func NewGen(seed int64, cfg GenCfg) *Gen {
	if cfg.Alphabet == "" {
		cfg.Alphabet = neutralAlphabet
	}
	return &Gen{r: rand.New(rand.NewSource(seed)), cfg: cfg, used: map[string]bool{}}
}

var reservedWords = map[string]bool{
	"import": true, "var": true, "func": true, "return": true, "if": true, "else": true, "switch": true, "case": true,
	"default": true, "for": true, "range": true, "break": true, "continue": true, "nil": true, "len": true, "print": true,
	"input": true, "copy": true, "itoa": true, "exists": true, "read": true, "write": true, "panic": true, "bool": true,
	"int": true, "string": true, "error": true, "true": true, "false": true,
}

var namePool = []string{"a", "b", "c", "d", "e", "g", "h", "k", "m", "n", "p", "q", "u", "v", "w", "x", "y", "z", "aa", "bb", "cc", "dd", "xs", "ys", "zs", "acc", "cnt", "tmp", "val", "idx", "res", "num", "str", "flag", "item", "total"}
var smallPool = []string{"x", "y", "z", "n"}

func (g *Gen) visible(name string) bool {
	for _, s := range g.scopes {
		for _, v := range s.vars {
			if v.name == name {
				return true
			}
		}
	}
	for _, f := range g.funcs {
		if f.name == name {
			return true
		}
	}
	return false
}

func (g *Gen) freshName() string {
	if g.cfg.SmallNames && g.r.Intn(4) != 0 {
		for _, i := range g.r.Perm(len(smallPool)) {
			if !g.visible(smallPool[i]) {
				return smallPool[i]
			}
		}
	}
	for tries := 0; tries < 50; tries++ {
		n := namePool[g.r.Intn(len(namePool))]
		if g.r.Intn(3) == 0 {
			n = fmt.Sprintf("%s%d", n, g.r.Intn(10))
		}
		if g.cfg.Upper && g.r.Intn(8) == 0 {
			n = string(n[0]-32) + n[1:]
		}
		if reservedWords[n] || g.used[n] || g.visible(n) {
			continue
		}
		g.used[n] = true
		return n
	}
	g.nameN++
	n := fmt.Sprintf("v%d", g.nameN)
	g.used[n] = true
	return n
}

func (g *Gen) push() { g.scopes = append(g.scopes, &gscope{}) }
func (g *Gen) pop()  { g.scopes = g.scopes[:len(g.scopes)-1] }

func (g *Gen) declare(v *gvar) {
	s := g.scopes[len(g.scopes)-1]
	s.vars = append(s.vars, v)
}

func (g *Gen) varsOf(t Type, writable bool) []*gvar {
	out := []*gvar{}
	for _, s := range g.scopes {
		for _, v := range s.vars {
			if v.t == t && (!writable || !v.readonly) {
				out = append(out, v)
			}
		}
	}
	return out
}

func (g *Gen) pickVar(t Type, writable bool) *gvar {
	vs := g.varsOf(t, writable)
	if len(vs) == 0 {
		return nil
	}
	return vs[g.r.Intn(len(vs))]
}

// ---- literals ----

func (g *Gen) intLit() int64 {
	switch g.r.Intn(20) {
	case 0:
		if g.cfg.Width32 {
			return []int64{2147483647, -2147483647, 65536, 46341, -46341}[g.r.Intn(5)]
		}
		return []int64{math.MaxInt64, math.MinInt64, math.MaxInt32, math.MinInt32, 4294967296, 3037000500, -3037000500}[g.r.Intn(7)]
	case 1, 2:
		return int64(g.r.Intn(2001) - 1000)
	case 3:
		return int64(g.r.Intn(200001) - 100000)
	}
	return int64(g.r.Intn(25) - 8)
}

func (g *Gen) strLit() string {
	n := g.r.Intn(7)
	if g.r.Intn(6) == 0 {
		n = 0
	}
	b := make([]byte, 0, n)
	for i := 0; i < n; i++ {
		if i > 0 && i < n-1 && b[i-1] != ' ' && g.r.Intn(7) == 0 {
			b = append(b, ' ')
			continue
		}
		b = append(b, g.cfg.Alphabet[g.r.Intn(len(g.cfg.Alphabet))])
	}
	return string(b)
}

func (g *Gen) scalarType() Type {
	return []Type{TInt, TInt, TBool, TString}[g.r.Intn(4)]
}

func (g *Gen) anyType() Type {
	if g.cfg.Slices && g.r.Intn(4) == 0 {
		return []Type{TSliceInt, TSliceBool, TSliceString}[g.r.Intn(3)]
	}
	return g.scalarType()
}

// ---- expressions ----

func (g *Gen) funcsReturning(t Type) []*gfunc {
	out := []*gfunc{}
	for _, f := range g.funcs {
		if len(f.results) == 1 && f.results[0] == t {
			out = append(out, f)
		}
	}
	return out
}

func (g *Gen) callTo(f *gfunc, d int) Call {
	args := make([]Expr, len(f.params))
	for i, p := range f.params {
		args[i] = g.expr(p.T, d-1)
	}
	return Call{Fn: f.name, Args: args}
}

func (g *Gen) expr(t Type, d int) Expr {
	if t.IsSlice() {
		return g.sliceExpr(t, d)
	}
	if d <= 0 || g.r.Intn(5) == 0 {
		return g.leaf(t)
	}
	switch t {
	case TInt:
		switch g.r.Intn(10) {
		case 0, 1, 2, 3, 4:
			op := []string{"+", "-", "*", "/", "%", "+", "-", "*"}[g.r.Intn(8)]
			l := g.expr(TInt, d-1)
			r := g.expr(TInt, d-1)
			if op == "/" || op == "%" {
				// keep most divisors away from zero; the interpreter discards the rest
				if g.r.Intn(4) != 0 {
					v := g.intLit()
					if v == 0 {
						v = 3
					}
					if v == -1 {
						v = -2
					}
					r = IntLit{v}
				}
			}
			return Bin{op, l, r}
		case 5:
			if fs := g.funcsReturning(TInt); len(fs) > 0 {
				return g.callTo(fs[g.r.Intn(len(fs))], d)
			}
		case 6:
			if g.cfg.StringOps {
				return Len{g.expr(TString, d-1)}
			}
		case 7:
			if g.cfg.Slices {
				if e := g.sliceElem(TInt, d); e != nil {
					return e
				}
				if v := g.anySliceVar(); v != nil {
					return Len{VarRef{v.name}}
				}
			}
		case 8:
			return Group{g.expr(TInt, d-1)}
		}
		return g.leaf(TInt)
	case TBool:
		switch g.r.Intn(12) {
		case 0, 1, 2:
			op := []string{"==", "!=", "<", "<=", ">", ">="}[g.r.Intn(6)]
			return Cmp{op, g.expr(TInt, d-1), g.expr(TInt, d-1)}
		case 3:
			op := []string{"==", "!="}[g.r.Intn(2)]
			return Cmp{op, g.expr(TString, d-1), g.expr(TString, d-1)}
		case 4:
			op := []string{"==", "!="}[g.r.Intn(2)]
			l := g.expr(TBool, d-1)
			r := g.expr(TBool, d-1)
			if g.cfg.NoCmpChain {
				if _, ok := l.(Cmp); ok {
					l = Group{l}
				}
			}
			return Cmp{op, l, r}
		case 5, 6, 7:
			op := []string{"&&", "||"}[g.r.Intn(2)]
			return Logic{op, g.expr(TBool, d-1), g.expr(TBool, d-1)}
		case 8:
			e := g.expr(TBool, d-1)
			if g.cfg.NoNotNot {
				if _, ok := e.(Not); ok {
					e = Group{e}
				}
			}
			return Not{e}
		case 9:
			if fs := g.funcsReturning(TBool); len(fs) > 0 {
				return g.callTo(fs[g.r.Intn(len(fs))], d)
			}
		case 10:
			if g.cfg.Slices {
				if e := g.sliceElem(TBool, d); e != nil {
					return e
				}
			}
		case 11:
			return Group{g.expr(TBool, d-1)}
		}
		return g.leaf(TBool)
	case TString:
		switch g.r.Intn(10) {
		case 0, 1, 2:
			return Bin{"+", g.expr(TString, d-1), g.expr(TString, d-1)}
		case 3:
			return Itoa{g.expr(TInt, d-1)}
		case 4:
			if fs := g.funcsReturning(TString); len(fs) > 0 {
				return g.callTo(fs[g.r.Intn(len(fs))], d)
			}
		case 5, 6:
			if g.cfg.StringOps {
				if e := g.stringSub(d); e != nil {
					return e
				}
			}
		case 7:
			if g.cfg.Slices {
				if e := g.sliceElem(TString, d); e != nil {
					return e
				}
			}
		}
		return g.leaf(TString)
	}
	panic("expr: bad type")
}

func (g *Gen) leaf(t Type) Expr {
	if g.r.Intn(3) != 0 {
		if v := g.pickVar(t, false); v != nil {
			return VarRef{v.name}
		}
	}
	switch t {
	case TInt:
		return IntLit{g.intLit()}
	case TBool:
		return BoolLit{g.r.Intn(2) == 0}
	case TString:
		if g.r.Intn(25) == 0 {
			return NilLit{}
		}
		return StrLit{V: g.strLit(), Raw: g.r.Intn(10) == 0}
	}
	return g.sliceExpr(t, 0)
}

func (g *Gen) anySliceVar() *gvar {
	ts := []Type{TSliceInt, TSliceBool, TSliceString}
	for _, i := range g.r.Perm(3) {
		if v := g.pickVar(ts[i], false); v != nil {
			return v
		}
	}
	return nil
}

// safeIndex builds ((e % L) + L) % L, an index in [0, L) for any int e.
func safeIndex(e Expr, l Expr) Expr {
	return Bin{"%", Bin{"+", Bin{"%", e, l}, l}, l}
}

func (g *Gen) indexFor(v *gvar, d int) Expr {
	if v.minLen <= 0 {
		return nil
	}
	switch g.r.Intn(3) {
	case 0:
		return IntLit{int64(g.r.Intn(v.minLen))}
	default:
		return safeIndex(g.expr(TInt, d-1), IntLit{int64(v.minLen)})
	}
}

func (g *Gen) sliceElem(elem Type, d int) Expr {
	vs := g.varsOf(SliceOf(elem), false)
	cands := []*gvar{}
	for _, v := range vs {
		if v.minLen > 0 {
			cands = append(cands, v)
		}
	}
	if len(cands) == 0 {
		return nil
	}
	v := cands[g.r.Intn(len(cands))]
	return Index{v.name, g.indexFor(v, d)}
}

func (g *Gen) stringSub(d int) Expr {
	vs := g.varsOf(TString, false)
	cands := []*gvar{}
	for _, v := range vs {
		if v.frozen {
			cands = append(cands, v)
		}
	}
	if len(cands) == 0 {
		return nil
	}
	v := cands[g.r.Intn(len(cands))]
	n := v.minLen
	switch g.r.Intn(6) {
	case 0:
		if n > 0 {
			return Index{v.name, g.indexFor(v, d)}
		}
		return Substr{v.name, nil, nil}
	case 1:
		return Substr{v.name, nil, IntLit{int64(g.r.Intn(n + 1))}}
	case 2:
		return Substr{v.name, IntLit{int64(g.r.Intn(n + 1))}, nil}
	case 3:
		return Substr{v.name, nil, nil}
	case 4:
		lo := g.r.Intn(n + 1)
		hi := lo + g.r.Intn(n-lo+1)
		return Substr{v.name, IntLit{int64(lo)}, IntLit{int64(hi)}}
	default:
		// computed bounds: lo in [0,n], hi = len(s)
		lo := safeIndex(g.expr(TInt, d-1), IntLit{int64(n + 1)})
		return Substr{v.name, lo, Len{VarRef{v.name}}}
	}
}

func (g *Gen) sliceExpr(t Type, d int) Expr {
	if g.r.Intn(2) == 0 {
		if v := g.pickVar(t, false); v != nil {
			return VarRef{v.name}
		}
	}
	if d > 0 && g.r.Intn(4) == 0 {
		if fs := g.funcsReturning(t); len(fs) > 0 {
			return g.callTo(fs[g.r.Intn(len(fs))], d)
		}
	}
	n := g.r.Intn(5)
	if g.r.Intn(8) == 0 {
		n = 9 + g.r.Intn(6)
	}
	elems := make([]Expr, n)
	for i := range elems {
		elems[i] = g.expr(t.Elem(), min(d-1, 1))
	}
	return SliceLit{t.Elem(), elems}
}

// staticLen returns a statically known lower bound of the length of e.
func (g *Gen) staticLen(e Expr) int {
	switch x := e.(type) {
	case SliceLit:
		return len(x.Elems)
	case StrLit:
		return len(x.V)
	case VarRef:
		for _, s := range g.scopes {
			for _, v := range s.vars {
				if v.name == x.Name {
					return v.minLen
				}
			}
		}
	}
	return 0
}

func (g *Gen) isFrozenSource(e Expr) bool {
	switch e.(type) {
	case StrLit:
		return true
	}
	return false
}

// ---- statements ----

func (g *Gen) block(max int) []Stmt {
	g.push()
	defer g.pop()
	n := 1 + g.r.Intn(max)
	if g.r.Intn(12) == 0 {
		n = 0 // empty block
	}
	out := []Stmt{}
	for i := 0; i < n; i++ {
		out = append(out, g.stmt()...)
	}
	return out
}

func (g *Gen) newVar(t Type, init Expr, readonly bool) *gvar {
	v := &gvar{name: g.freshName(), t: t, readonly: readonly}
	if t.IsSlice() || t == TString {
		if init != nil {
			v.minLen = g.staticLen(init)
		}
		// strings: frozen only when never assignable
	}
	v.global = g.inFunc == nil && len(g.scopes) == 1
	return v
}

func (g *Gen) declStmt() []Stmt {
	t := g.anyType()
	switch g.r.Intn(10) {
	case 0: // var a T
		v := g.newVar(t, nil, false)
		g.declare(v)
		return []Stmt{VarDecl{Names: []string{v.name}, Type: t, ErrTy: t == TString && g.r.Intn(6) == 0}}
	case 1: // var a T = e
		e := g.expr(t, g.cfg.ExprDepth)
		v := g.newVar(t, e, false)
		g.declare(v)
		return []Stmt{VarDecl{Names: []string{v.name}, Type: t, Values: []Expr{e}}}
	case 2: // var a = e
		e := g.expr(t, g.cfg.ExprDepth)
		v := g.newVar(t, e, false)
		g.declare(v)
		return []Stmt{VarDecl{Names: []string{v.name}, Values: []Expr{e}}}
	case 3: // var a, b T [= e1, e2]
		t = g.scalarType()
		withVals := g.r.Intn(2) == 0
		var vals []Expr
		if withVals {
			vals = []Expr{g.expr(t, g.cfg.ExprDepth-1), g.expr(t, g.cfg.ExprDepth-1)}
		}
		a := g.newVar(t, nil, false)
		g.declare(a)
		b := g.newVar(t, nil, false)
		g.declare(b)
		return []Stmt{VarDecl{Names: []string{a.name, b.name}, Type: t, Values: vals}}
	case 4: // a, b := e1, e2 (mixed types)
		t2 := g.scalarType()
		e1 := g.expr(t, g.cfg.ExprDepth-1)
		e2 := g.expr(t2, g.cfg.ExprDepth-1)
		a := g.newVar(t, e1, false)
		g.declare(a)
		b := g.newVar(t2, e2, false)
		g.declare(b)
		return []Stmt{VarDecl{Names: []string{a.name, b.name}, Short: true, Values: []Expr{e1, e2}}}
	case 5: // a, b := multi()
		var cands []*gfunc
		for _, f := range g.funcs {
			if len(f.results) >= 2 {
				cands = append(cands, f)
			}
		}
		if len(cands) > 0 {
			f := cands[g.r.Intn(len(cands))]
			call := g.callTo(f, g.cfg.ExprDepth)
			names := []string{}
			for _, rt := range f.results {
				v := g.newVar(rt, nil, false)
				g.declare(v)
				names = append(names, v.name)
			}
			if g.r.Intn(2) == 0 {
				return []Stmt{VarDecl{Names: names, Short: true, Values: []Expr{call}}}
			}
			return []Stmt{VarDecl{Names: names, Values: []Expr{call}}}
		}
	case 6: // frozen string for subscripts
		if g.cfg.StringOps {
			s := g.strLit()
			v := g.newVar(TString, StrLit{V: s}, true)
			v.frozen = true
			v.minLen = len(s)
			g.declare(v)
			return []Stmt{VarDecl{Names: []string{v.name}, Short: true, Values: []Expr{StrLit{V: s}}}}
		}
	}
	e := g.expr(t, g.cfg.ExprDepth)
	v := g.newVar(t, e, false)
	g.declare(v)
	return []Stmt{VarDecl{Names: []string{v.name}, Short: true, Values: []Expr{e}}}
}

func (g *Gen) assignStmt() []Stmt {
	t := g.anyType()
	v := g.pickVar(t, true)
	if v == nil {
		return g.declStmt()
	}
	switch g.r.Intn(8) {
	case 0, 1:
		if t == TInt {
			return []Stmt{IncDec{v.name, g.r.Intn(2) == 0}}
		}
	case 2, 3:
		if t == TInt {
			op := []string{"+", "-", "*", "/", "%"}[g.r.Intn(5)]
			var e Expr = g.expr(TInt, g.cfg.ExprDepth-1)
			if op == "/" || op == "%" {
				lit := g.intLit()
				if lit == 0 || lit == -1 {
					lit = 7
				}
				e = IntLit{lit}
			}
			return []Stmt{OpAssign{v.name, op, e}}
		}
		if t == TString {
			return []Stmt{OpAssign{v.name, "+", g.expr(TString, g.cfg.ExprDepth-1)}}
		}
	case 4:
		if g.cfg.MultiAssign {
			t2 := g.scalarType()
			if w := g.pickVar(t2, true); w != nil && w != v {
				e1 := g.expr(t, g.cfg.ExprDepth-1)
				e2 := g.expr(t2, g.cfg.ExprDepth-1)
				g.noteAssign(v, e1)
				g.noteAssign(w, e2)
				return []Stmt{Assign{[]string{v.name, w.name}, []Expr{e1, e2}}}
			}
		}
	case 5:
		// multi-value call assignment
		for _, f := range g.funcs {
			if len(f.results) == 2 {
				a := g.pickVar(f.results[0], true)
				b := g.pickVar(f.results[1], true)
				if a != nil && b != nil && a != b && g.r.Intn(2) == 0 {
					g.noteAssign(a, nil)
					g.noteAssign(b, nil)
					return []Stmt{Assign{[]string{a.name, b.name}, []Expr{g.callTo(f, g.cfg.ExprDepth)}}}
				}
			}
		}
	}
	e := g.expr(t, g.cfg.ExprDepth)
	g.noteAssign(v, e)
	return []Stmt{Assign{[]string{v.name}, []Expr{e}}}
}

func (g *Gen) noteAssign(v *gvar, e Expr) {
	if v.t.IsSlice() || v.t == TString {
		n := 0
		if e != nil {
			n = g.staticLen(e)
		}
		if g.depth > 0 || g.loopDepth > 0 {
			v.minLen = min(v.minLen, n)
		} else {
			v.minLen = n
		}
	}
}

func (g *Gen) printStmt() []Stmt {
	n := 1
	switch g.r.Intn(8) {
	case 0:
		n = 0
	case 1, 2:
		n = 2
	case 3:
		n = 3
	}
	args := make([]Expr, n)
	for i := range args {
		args[i] = g.expr(g.scalarType(), g.cfg.ExprDepth)
	}
	return []Stmt{Print{args}}
}

func (g *Gen) condExpr() Expr {
	return g.expr(TBool, g.cfg.ExprDepth)
}

func (g *Gen) ifStmt() []Stmt {
	g.depth++
	defer func() { g.depth-- }()
	n := 1
	switch g.r.Intn(6) {
	case 0, 1:
		n = 2
	case 2:
		n = 3
	}
	st := If{}
	for i := 0; i < n; i++ {
		c := g.condExpr()
		st.Branches = append(st.Branches, IfBranch{c, g.block(g.cfg.MaxBlock)})
	}
	if g.r.Intn(2) == 0 {
		st.HasElse = true
		st.Else = g.block(g.cfg.MaxBlock)
	}
	return []Stmt{st}
}

func (g *Gen) switchStmt() []Stmt {
	g.depth++
	g.swDepth++
	defer func() { g.depth--; g.swDepth-- }()
	st := Switch{}
	var tagT Type
	switch g.r.Intn(3) {
	case 0: // tagless
		tagT = TBool
	case 1: // switch true / bool var
		tagT = TBool
		if g.r.Intn(2) == 0 {
			st.Tag = BoolLit{true}
		} else if v := g.pickVar(TBool, false); v != nil {
			st.Tag = VarRef{v.name}
		} else {
			st.Tag = BoolLit{false}
		}
	default:
		tagT = []Type{TInt, TString}[g.r.Intn(2)]
		// the tag must be free of side effects (excluded by the property):
		// variables, literals and pure operators only
		if v := g.pickVar(tagT, false); v != nil {
			st.Tag = VarRef{v.name}
			if tagT == TInt && g.r.Intn(3) == 0 {
				st.Tag = Bin{"%", VarRef{v.name}, IntLit{3}}
			}
		} else if tagT == TInt {
			st.Tag = IntLit{int64(g.r.Intn(4))}
		} else {
			st.Tag = StrLit{V: g.strLit()}
		}
	}
	n := g.r.Intn(4)
	defPos := -1
	if g.r.Intn(3) != 0 {
		defPos = g.r.Intn(n + 1)
	}
	for i := 0; i <= n; i++ {
		if i == defPos {
			st.Cases = append(st.Cases, SwitchCase{Default: true, Body: g.block(g.cfg.MaxBlock)})
		}
		if i < n {
			var e Expr
			if tagT == TInt && g.r.Intn(2) == 0 {
				e = IntLit{int64(g.r.Intn(4))}
			} else {
				e = g.expr(tagT, g.cfg.ExprDepth-1)
			}
			st.Cases = append(st.Cases, SwitchCase{E: e, Body: g.block(g.cfg.MaxBlock)})
		}
	}
	return []Stmt{st}
}

func (g *Gen) forStmt() []Stmt {
	g.depth++
	g.loopDepth++
	saveSw := g.swDepth
	g.swDepth = 0
	defer func() { g.depth--; g.loopDepth--; g.swDepth = saveSw }()
	bound := int64(1 + g.r.Intn(4))
	out := []Stmt{}
	kind := g.r.Intn(9)
	if (kind == 7 || kind == 8) && !(g.cfg.Slices || g.cfg.StringOps) {
		kind = g.r.Intn(7)
	}
	switch kind {
	case 0, 1: // for i := 0; i < K; i++
		g.push()
		i := g.newVar(TInt, nil, true)
		g.declare(i)
		var post Stmt = IncDec{i.name, true}
		switch g.r.Intn(4) {
		case 0:
			post = OpAssign{i.name, "+", IntLit{1}}
		case 1:
			post = Assign{[]string{i.name}, []Expr{Bin{"+", VarRef{i.name}, IntLit{1}}}}
		}
		var cond Expr = Cmp{"<", VarRef{i.name}, IntLit{bound}}
		if g.r.Intn(4) == 0 {
			cond = Logic{"&&", cond, g.condExpr()}
		}
		var init Stmt = VarDecl{Names: []string{i.name}, Short: true, Values: []Expr{IntLit{0}}}
		body := g.block(g.cfg.MaxBlock)
		g.pop()
		out = append(out, For{Kind: ForThree, Init: init, Cond: cond, Post: post, Body: body})
	case 2: // counting down with --
		g.push()
		i := g.newVar(TInt, nil, true)
		g.declare(i)
		body := g.block(g.cfg.MaxBlock)
		g.pop()
		out = append(out, For{Kind: ForThree, Init: VarDecl{Names: []string{i.name}, Short: true, Values: []Expr{IntLit{bound}}},
			Cond: Cmp{">", VarRef{i.name}, IntLit{0}}, Post: IncDec{i.name, false}, Body: body})
	case 3: // i := 0 ; for ; i < K; { i++ ... }  /  for i = 0; ; i++ { if i >= K { break } }
		c := g.newVar(TInt, nil, true)
		g.declare(c)
		out = append(out, VarDecl{Names: []string{c.name}, Short: true, Values: []Expr{IntLit{0}}})
		if g.r.Intn(2) == 0 {
			g.push()
			body := g.block(g.cfg.MaxBlock)
			g.pop()
			body = append([]Stmt{IncDec{c.name, true}}, body...)
			out = append(out, For{Kind: ForThree, Cond: Cmp{"<", VarRef{c.name}, IntLit{bound}}, Body: body})
		} else {
			g.push()
			body := g.block(g.cfg.MaxBlock)
			g.pop()
			body = append([]Stmt{If{Branches: []IfBranch{{Cmp{">=", VarRef{c.name}, IntLit{bound}}, []Stmt{Break{}}}}}}, body...)
			out = append(out, For{Kind: ForThree, Init: Assign{[]string{c.name}, []Expr{IntLit{0}}}, Post: IncDec{c.name, true}, Body: body})
		}
	case 4, 5: // while form
		c := g.newVar(TInt, nil, true)
		g.declare(c)
		out = append(out, VarDecl{Names: []string{c.name}, Short: true, Values: []Expr{IntLit{0}}})
		g.push()
		body := g.block(g.cfg.MaxBlock)
		g.pop()
		body = append([]Stmt{IncDec{c.name, true}}, body...)
		var cond Expr = Cmp{"<", VarRef{c.name}, IntLit{bound}}
		if g.r.Intn(4) == 0 {
			cond = Logic{"&&", g.condExpr(), cond}
		}
		out = append(out, For{Kind: ForCond, Cond: cond, Body: body})
	case 6: // endless with guarded break
		c := g.newVar(TInt, nil, true)
		g.declare(c)
		out = append(out, VarDecl{Names: []string{c.name}, Short: true, Values: []Expr{IntLit{0}}})
		g.push()
		body := g.block(g.cfg.MaxBlock)
		g.pop()
		pre := []Stmt{IncDec{c.name, true}, If{Branches: []IfBranch{{Cmp{">", VarRef{c.name}, IntLit{bound}}, []Stmt{Break{}}}}}}
		out = append(out, For{Kind: ForEver, Body: append(pre, body...)})
	default: // range
		var over Expr
		var elemT Type
		if g.cfg.Slices && (g.r.Intn(2) == 0 || !g.cfg.StringOps) {
			v := g.anySliceVar()
			if v == nil {
				t := []Type{TSliceInt, TSliceBool, TSliceString}[g.r.Intn(3)]
				e := g.sliceExpr(t, 1)
				if _, ok := e.(SliceLit); !ok {
					e = SliceLit{t.Elem(), []Expr{g.leaf(t.Elem())}}
				}
				nv := g.newVar(t, e, false)
				g.declare(nv)
				out = append(out, VarDecl{Names: []string{nv.name}, Short: true, Values: []Expr{e}})
				v = nv
			}
			over = VarRef{v.name}
			elemT = v.t.Elem()
		} else {
			elemT = TString
			if v := g.pickVar(TString, false); v != nil && g.r.Intn(3) != 0 {
				over = VarRef{v.name}
			} else {
				over = StrLit{V: g.strLit()}
			}
		}
		g.push()
		i := g.newVar(TInt, nil, true)
		g.declare(i)
		st := For{Kind: ForRange, RangeIdx: i.name, Over: over}
		if g.r.Intn(3) != 0 {
			val := g.newVar(elemT, nil, true)
			if elemT == TString {
				val.minLen = 0
			}
			g.declare(val)
			st.RangeVal = val.name
		}
		// the body must not resize the slice: mark ranged slice readonly for growth (handled dynamically by the interpreter)
		st.Body = g.block(g.cfg.MaxBlock)
		g.pop()
		out = append(out, st)
	}
	return out
}

func (g *Gen) jumpStmt() []Stmt {
	if g.loopDepth == 0 {
		return g.printStmt()
	}
	var j Stmt = Continue{}
	if g.swDepth == 0 && g.r.Intn(2) == 0 {
		j = Break{}
	}
	// always conditional so that code after it stays reachable
	return []Stmt{If{Branches: []IfBranch{{g.condExpr(), []Stmt{j}}}}}
}

func (g *Gen) sliceStmt() []Stmt {
	v := g.anySliceVar()
	if v == nil || v.readonly {
		t := []Type{TSliceInt, TSliceBool, TSliceString}[g.r.Intn(3)]
		e := g.sliceExpr(t, 1)
		nv := g.newVar(t, e, false)
		g.declare(nv)
		return []Stmt{VarDecl{Names: []string{nv.name}, Short: true, Values: []Expr{e}}}
	}
	switch g.r.Intn(6) {
	case 0, 1: // in-range write
		if v.minLen > 0 {
			return []Stmt{SliceSet{v.name, g.indexFor(v, g.cfg.ExprDepth), g.expr(v.t.Elem(), g.cfg.ExprDepth-1)}}
		}
		fallthrough
	case 2: // append / growth with a literal index
		idx := v.minLen + g.r.Intn(3)
		if g.r.Intn(5) == 0 {
			idx += 8
		}
		st := SliceSet{v.name, IntLit{int64(idx)}, g.expr(v.t.Elem(), g.cfg.ExprDepth-1)}
		if g.depth == 0 && g.loopDepth == 0 {
			v.minLen = idx + 1
		}
		return []Stmt{st}
	case 3: // append at len
		return []Stmt{SliceSet{v.name, Len{VarRef{v.name}}, g.expr(v.t.Elem(), g.cfg.ExprDepth-1)}}
	case 4: // copy
		src := g.sliceExpr(v.t, 1)
		n := g.newVar(TInt, nil, false)
		// copy into a longer destination is excluded; use a fresh empty destination half the time
		if g.r.Intn(2) == 0 {
			d := g.newVar(v.t, nil, false)
			g.declare(d)
			g.declare(n)
			d.minLen = g.staticLen(src)
			return []Stmt{
				VarDecl{Names: []string{d.name}, Type: v.t},
				VarDecl{Names: []string{n.name}, Short: true, Values: []Expr{Copy{d.name, src}}},
			}
		}
		g.declare(n)
		return []Stmt{VarDecl{Names: []string{n.name}, Short: true, Values: []Expr{Copy{v.name, src}}}}
	default: // print len and an element
		args := []Expr{Len{VarRef{v.name}}}
		if v.minLen > 0 {
			args = append(args, Index{v.name, g.indexFor(v, 2)})
		}
		return []Stmt{Print{args}}
	}
}

func (g *Gen) callStmt() []Stmt {
	if len(g.funcs) == 0 {
		return g.printStmt()
	}
	f := g.funcs[g.r.Intn(len(g.funcs))]
	call := g.callTo(f, g.cfg.ExprDepth)
	if len(f.results) == 0 || g.r.Intn(4) == 0 {
		return []Stmt{ExprStmt{call}}
	}
	if len(f.results) == 1 {
		if f.results[0].IsSlice() {
			v := g.newVar(f.results[0], nil, false)
			g.declare(v)
			return []Stmt{VarDecl{Names: []string{v.name}, Short: true, Values: []Expr{call}}}
		}
		return []Stmt{Print{[]Expr{call}}}
	}
	names := []string{}
	for _, rt := range f.results {
		v := g.newVar(rt, nil, false)
		g.declare(v)
		names = append(names, v.name)
	}
	return []Stmt{VarDecl{Names: names, Short: true, Values: []Expr{call}}}
}

func (g *Gen) appChain() AppCall {
	n := 1 + g.r.Intn(3)
	st := []AppStage{}
	for i := 0; i < n; i++ {
		name := []string{"ls", "grep", "sort", "cat", "mytool"}[g.r.Intn(5)]
		lit := false
		if g.r.Intn(5) == 0 {
			name, lit = "./tools/run.sh", true
		}
		args := []Expr{}
		for k := g.r.Intn(3); k > 0; k-- {
			args = append(args, g.expr(TString, 1))
		}
		st = append(st, AppStage{Name: name, NameLit: lit, Args: args})
	}
	return AppCall{st}
}

func (g *Gen) builtinStmt() []Stmt {
	switch g.r.Intn(7) {
	case 0:
		w := Write{Path: g.expr(TString, 1), Data: g.expr(TString, g.cfg.ExprDepth-1)}
		if g.r.Intn(2) == 0 {
			w.Append = g.expr(TBool, 1)
		}
		return []Stmt{w}
	case 1:
		e := Read{g.expr(TString, 1)}
		v := g.newVar(TString, nil, false)
		g.declare(v)
		return []Stmt{VarDecl{Names: []string{v.name}, Short: true, Values: []Expr{e}}}
	case 2:
		e := Exists{g.expr(TString, 1)}
		v := g.newVar(TBool, nil, false)
		g.declare(v)
		return []Stmt{VarDecl{Names: []string{v.name}, Short: true, Values: []Expr{e}}}
	case 3:
		in := Input{}
		if g.r.Intn(2) == 0 {
			in.Prompt = g.expr(TString, 1)
		}
		v := g.newVar(TString, nil, false)
		g.declare(v)
		return []Stmt{VarDecl{Names: []string{v.name}, Short: true, Values: []Expr{in}}}
	case 4:
		return []Stmt{ExprStmt{g.appChain()}}
	case 5:
		chain := g.appChain()
		o := g.newVar(TString, nil, false)
		g.declare(o)
		e := g.newVar(TString, nil, false)
		g.declare(e)
		c := g.newVar(TInt, nil, false)
		g.declare(c)
		return []Stmt{VarDecl{Names: []string{o.name, e.name, c.name}, Short: true, Values: []Expr{chain}}}
	default:
		return []Stmt{If{Branches: []IfBranch{{Exists{g.expr(TString, 1)}, []Stmt{Print{[]Expr{Read{g.expr(TString, 1)}}}}}}}}
	}
}

func (g *Gen) stmt() []Stmt {
	canNest := g.depth < g.cfg.MaxDepth
	if g.cfg.Builtins && g.r.Intn(6) == 0 {
		return g.builtinStmt()
	}
	for {
		switch g.r.Intn(20) {
		case 0, 1, 2:
			return g.declStmt()
		case 3, 4, 5:
			return g.assignStmt()
		case 6, 7, 8:
			return g.printStmt()
		case 9, 10:
			if canNest {
				return g.ifStmt()
			}
		case 11:
			if canNest && !g.cfg.NoSwitch {
				return g.switchStmt()
			}
		case 12, 13:
			if canNest {
				return g.forStmt()
			}
		case 14:
			return g.jumpStmt()
		case 15, 16:
			if g.cfg.Slices {
				return g.sliceStmt()
			}
		case 17, 18:
			if len(g.funcs) > 0 {
				return g.callStmt()
			}
		case 19:
			if g.cfg.Panic && g.r.Intn(6) == 0 {
				return []Stmt{If{Branches: []IfBranch{{g.condExpr(), []Stmt{Panic{StrLit{V: g.strLit()}}}}}}}
			}
			if g.inFunc != nil && len(g.inFunc.results) > 0 && g.depth > 0 && g.r.Intn(2) == 0 {
				return []Stmt{g.returnStmt()}
			}
		}
	}
}

func (g *Gen) returnStmt() Stmt {
	vals := make([]Expr, len(g.inFunc.results))
	for i, t := range g.inFunc.results {
		vals[i] = g.expr(t, g.cfg.ExprDepth-1)
	}
	return Return{vals}
}

func (g *Gen) funcDecl() Stmt {
	f := &gfunc{name: "fn" + g.freshName()}
	if g.cfg.SmallNames {
		f.name = fmt.Sprintf("f%c", 'a'+len(g.funcs))
	}
	np := g.r.Intn(4)
	nr := []int{0, 1, 1, 1, 2, 2, 3}[g.r.Intn(7)]
	// function scope: globals stay visible (scopes[0]); drop everything else
	saved := g.scopes
	g.scopes = []*gscope{saved[0]}
	g.push()
	for i := 0; i < np; i++ {
		t := g.anyType()
		v := g.newVar(t, nil, false)
		v.global = false
		g.declare(v)
		f.params = append(f.params, Param{v.name, t})
	}
	for i := 0; i < nr; i++ {
		t := g.scalarType()
		if g.cfg.Slices && g.r.Intn(6) == 0 {
			t = []Type{TSliceInt, TSliceBool, TSliceString}[g.r.Intn(3)]
		}
		f.results = append(f.results, t)
	}
	saveIn, saveLoop, saveSw, saveDepth := g.inFunc, g.loopDepth, g.swDepth, g.depth
	g.inFunc, g.loopDepth, g.swDepth, g.depth = f, 0, 0, 0
	body := []Stmt{}
	if g.cfg.Effects {
		args := []Expr{StrLit{V: f.name}}
		for _, p := range f.params {
			if !p.T.IsSlice() {
				args = append(args, VarRef{p.Name})
			}
		}
		body = append(body, Print{args})
	}
	n := 1 + g.r.Intn(g.cfg.MaxBlock+1)
	for i := 0; i < n; i++ {
		body = append(body, g.stmt()...)
	}
	if nr > 0 {
		body = append(body, g.returnStmt())
	}
	g.inFunc, g.loopDepth, g.swDepth, g.depth = saveIn, saveLoop, saveSw, saveDepth
	g.pop()
	g.scopes = saved
	g.funcs = append(g.funcs, f)
	return FuncDecl{Name: f.name, Params: f.params, Results: f.results, Body: body}
}

// Program generates one single-file program.
func (g *Gen) Program() *Program {
	g.scopes = nil
	g.push()
	stmts := []Stmt{}
	nf := 0
	if g.cfg.MaxFuncs > 0 {
		nf = 1 + g.r.Intn(g.cfg.MaxFuncs)
	}
	ntop := 2 + g.r.Intn(g.cfg.MaxTop)
	// a few globals first so that functions have something to share
	for i := 0; i < 1+g.r.Intn(3); i++ {
		stmts = append(stmts, g.declStmt()...)
	}
	fi := 0
	for i := 0; i < ntop; i++ {
		if fi < nf && g.r.Intn(3) == 0 {
			stmts = append(stmts, g.funcDecl())
			fi++
			continue
		}
		stmts = append(stmts, g.stmt()...)
	}
	for ; fi < nf; fi++ {
		stmts = append(stmts, g.funcDecl())
		stmts = append(stmts, g.callStmt()...)
	}
	// final observation of all scalar globals
	final := []Expr{}
	for _, v := range g.scopes[0].vars {
		if !v.t.IsSlice() && len(final) < 6 {
			final = append(final, VarRef{v.name})
		}
	}
	if len(final) > 0 {
		stmts = append(stmts, Print{final})
	}
	for _, v := range g.scopes[0].vars {
		if v.t.IsSlice() {
			stmts = append(stmts, Print{[]Expr{Len{VarRef{v.name}}}})
		}
	}
	return SingleFile(stmts)
}
