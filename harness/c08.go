package main

import (
	"fmt"
	"math/rand"
	"strings"
)

func init() { register("C08", checkC08) }

var c08Origins = []string{"literal", "literal-raw", "file", "file-dash", "file-blank", "stdin", "stdin-prompt", "stdin-last-unterminated", "cmd"}
var c08Paths = []string{"print", "assign", "concat", "compare", "arg", "arg-direct", "return", "slice-store", "slice-literal", "slice-load-copy", "range-string", "range-nested", "multi-assign", "redeclared", "range-slice", "subscript", "len", "write", "panic", "switch"}

// c08Program builds the program for one (origin, path) with value v. ok=false
// when the combination is not defined (e.g. a raw literal cannot hold a backquote).
func c08Program(origin, path, v, place string) (bc BashCase, ok bool) {
	stmts := []Stmt{}
	pre := map[string]string{}
	stdin := ""
	runtime := strings.HasPrefix(origin, "file") || strings.HasPrefix(origin, "stdin") || origin == "cmd"
	if runtime && strings.HasSuffix(v, "\n") {
		return bc, false // the origin APIs are specified to drop a trailing newline (C17/C18)
	}
	switch origin {
	case "literal":
		stmts = append(stmts, def("v", StrLit{V: v}))
	case "literal-raw":
		if strings.ContainsAny(v, "`\r") {
			return bc, false
		}
		stmts = append(stmts, def("v", StrLit{V: v, Raw: true}))
	case "file":
		pre["in.txt"] = v + "\n"
		stmts = append(stmts, def("v", Read{sl("in.txt")}))
	case "file-dash", "file-blank":
		// the same through a file whose name is "-" / contains blanks
		fname := map[string]string{"file-dash": "-", "file-blank": "in put file.txt"}[origin]
		pre[fname] = v + "\n"
		stmts = append(stmts, def("v", Read{sl(fname)}))
	case "stdin-last-unterminated":
		// the value is the last line of the input and has no line end
		if strings.Contains(v, "\n") || v == "" {
			return bc, false
		}
		stdin = "first line\n" + v
		stmts = append(stmts, def("first", Input{}), def("v", Input{}))
	case "stdin":
		if strings.Contains(v, "\n") {
			return bc, false
		}
		stdin = v + "\n"
		stmts = append(stmts, def("v", Input{}))
	case "stdin-prompt":
		if strings.Contains(v, "\n") {
			return bc, false
		}
		stdin = v + "\n"
		stmts = append(stmts, def("v", Input{Prompt: sl("value: ")}))
	case "cmd":
		pre["in.txt"] = v + "\n"
		stmts = append(stmts, VarDecl{Names: []string{"v", "ve", "vc"}, Short: true, Values: []Expr{AppCall{[]AppStage{{Name: "cat", Args: []Expr{sl("in.txt")}}}}}})
	}
	V := vr("v")
	// the value expression itself (a literal for the literal origins): used where the value must reach a
	// position without passing through a variable first
	var direct Expr = V
	if len(stmts) > 0 {
		if d, ok := stmts[len(stmts)-1].(VarDecl); ok && len(d.Names) == 1 && d.Names[0] == "v" && len(d.Values) == 1 {
			direct = d.Values[0]
		}
	}
	switch path {
	case "print":
		stmts = append(stmts, pr(V), pr(sl("next")))
	case "assign":
		stmts = append(stmts, def("w", V), VarDecl{Names: []string{"u"}, Type: TString}, set("u", vr("w")), pr(vr("u")))
	case "concat":
		stmts = append(stmts, pr(bin("+", bin("+", sl("<"), V), sl(">"))), def("d", bin("+", V, V)), pr(vr("d")))
	case "compare":
		stmts = append(stmts, def("w", V), pr(cmp("==", V, vr("w")), cmp("!=", V, vr("w")), cmp("==", V, sl("zz")), cmp("!=", V, sl("zz")), cmp("==", bin("+", V, sl("x")), V)))
	case "arg":
		stmts = append([]Stmt{fn("show", []Param{{"p", TString}, {"q", TString}}, nil, pr(vr("p")), pr(vr("q"))), fn("idf", []Param{{"p", TString}}, []Type{TString}, ret(vr("p")))}, stmts...)
		// as a variable, and as the result of a call standing directly in the argument list of a call statement
		stmts = append(stmts, callS("show", V, sl("second")), callS("show", call("idf", V), sl("third")), callS("show", sl("fourth"), Group{call("idf", call("idf", V))}))
	case "arg-direct":
		if origin == "cmd" {
			return bc, false // three-valued, cannot stand in an argument list
		}
		// the defining statement of v is dropped: the value expression stands directly in the argument lists
		stmts = stmts[:len(stmts)-1]
		stmts = append([]Stmt{fn("show", []Param{{"p", TString}, {"q", TString}}, nil, pr(vr("p")), pr(vr("q"))), fn("idf", []Param{{"p", TString}}, []Type{TString}, ret(vr("p")))}, stmts...)
		if strings.HasPrefix(origin, "stdin") {
			stmts = append(stmts, callS("show", direct, sl("second")), pr(sl("end")))
		} else {
			stmts = append(stmts, callS("show", direct, sl("second")), callS("show", sl("first"), direct), pr(call("idf", direct)), def("kept", call("idf", direct)), pr(vr("kept")), pr(bin("+", call("idf", direct), sl("|"))))
		}
	case "return":
		stmts = append([]Stmt{fn("id", []Param{{"p", TString}}, []Type{TString}, ret(vr("p"))), fn("two", []Param{{"p", TString}}, []Type{TString, TString}, ret(sl("k"), vr("p")))}, stmts...)
		stmts = append(stmts, pr(call("id", V)), VarDecl{Names: []string{"r1", "r2"}, Short: true, Values: []Expr{call("two", V)}}, pr(vr("r2")), pr(vr("r1")))
	case "slice-store":
		stmts = append(stmts, def("s", SliceLit{TString, []Expr{sl("x")}}), SliceSet{"s", il(0), V}, SliceSet{"s", il(2), V}, pr(Index{"s", il(0)}), pr(Index{"s", il(2)}), pr(Len{vr("s")}, framed(Index{"s", il(1)})))
	case "slice-literal":
		stmts = append(stmts, def("t", SliceLit{TString, []Expr{V, sl("k"), V}}), pr(Index{"t", il(0)}), pr(Index{"t", il(2)}), pr(Len{vr("t")}, Index{"t", il(1)}))
	case "slice-load-copy":
		stmts = append(stmts, def("t", SliceLit{TString, []Expr{sl("k")}}), SliceSet{"t", il(1), V}, VarDecl{Names: []string{"u"}, Type: TSliceString}, def("n", Copy{"u", vr("t")}), def("got", Index{"u", il(1)}), pr(vr("got")), pr(vr("n"), Index{"u", il(0)}))
	case "range-string":
		stmts = append(stmts, For{Kind: ForRange, RangeIdx: "i", RangeVal: "ch", Over: V, Body: []Stmt{pr(vr("i")), pr(vr("ch"))}}, pr(sl("end")))
	case "multi-assign":
		// the value in a value list next to a call whose callee runs a value list of its own
		stmts = append([]Stmt{fn("flip", []Param{{"p", TString}, {"q", TString}}, []Type{TString}, def("x", vr("p")), def("y", vr("q")), Assign{[]string{"x", "y"}, []Expr{vr("y"), vr("x")}}, ret(vr("x")))}, stmts...)
		stmts = append(stmts, VarDecl{Names: []string{"l", "r"}, Short: true, Values: []Expr{V, call("flip", sl("p"), V)}}, pr(vr("l")), pr(vr("r")),
			Assign{[]string{"l", "r"}, []Expr{call("flip", V, sl("k")), vr("l")}}, pr(vr("l")), pr(vr("r")),
			VarDecl{Names: []string{"m1", "m2", "m3"}, Short: true, Values: []Expr{sl("first"), V, call("flip", sl("a"), call("flip", sl("b"), V))}}, pr(vr("m1")), pr(vr("m2")), pr(vr("m3")))
	case "redeclared":
		// a declaration without value runs again after the variable held the value: it is empty again
		stmts = append(stmts, For{Kind: ForThree, Init: def("pass", il(0)), Cond: cmp("<", vr("pass"), il(2)), Post: IncDec{"pass", true}, Body: []Stmt{
			VarDecl{Names: []string{"w"}, Type: TString}, pr(framed(vr("w"))), set("w", V), pr(vr("w")),
			VarDecl{Names: []string{"ws"}, Type: TSliceString}, pr(Len{vr("ws")}), SliceSet{"ws", il(0), V}, pr(Index{"ws", il(0)})}},
			fn("fresh", []Param{{"p", TString}, {"keep", TBool}}, []Type{TString}, VarDecl{Names: []string{"acc"}, Type: TString}, ifs(vr("keep"), set("acc", vr("p"))), ret(bin("+", bin("+", sl("<"), vr("acc")), sl(">")))),
			pr(call("fresh", V, bl(true))), pr(call("fresh", V, bl(false))), pr(call("fresh", sl("other"), bl(true))), pr(call("fresh", V, bl(false))))
	case "range-nested":
		// two loops over operands of different lengths inside each other, in both orders
		stmts = append(stmts, For{Kind: ForRange, RangeIdx: "i", RangeVal: "a", Over: V, Body: []Stmt{For{Kind: ForRange, RangeIdx: "j", RangeVal: "b", Over: sl("xy"), Body: []Stmt{pr(vr("i"), vr("j")), pr(bin("+", vr("a"), vr("b")))}}}}, pr(sl("middle")),
			For{Kind: ForRange, RangeIdx: "i", RangeVal: "a", Over: sl("xy"), Body: []Stmt{For{Kind: ForRange, RangeIdx: "j", RangeVal: "b", Over: V, Body: []Stmt{pr(vr("i"), vr("j")), pr(bin("+", vr("a"), vr("b")))}}}}, pr(sl("end")))
	case "range-slice":
		stmts = append(stmts, def("t", SliceLit{TString, []Expr{sl("k")}}), SliceSet{"t", il(1), V}, For{Kind: ForRange, RangeIdx: "i", RangeVal: "e", Over: vr("t"), Body: []Stmt{pr(vr("e"))}}, pr(sl("end")))
	case "subscript":
		n := len(v)
		// a subscript of another, non-empty string runs first: what it left behind is not the answer for v
		stmts = append(stmts, def("before", sl("world")), pr(Substr{"before", il(1), il(3)}), pr(Substr{"v", nil, nil}), pr(Substr{"before", il(0), il(1)}), pr(Substr{"v", il(0), nil}), pr(Substr{"v", nil, il(int64(n))}), pr(Len{Substr{"v", nil, nil}}))
		for i := 0; i < n && i < 4; i++ {
			stmts = append(stmts, pr(Index{"v", il(int64(i))}))
		}
		if n >= 2 {
			stmts = append(stmts, pr(Substr{"v", il(1), nil}), pr(Substr{"v", nil, il(int64(n - 1))}), pr(Substr{"v", il(1), il(int64(n))}))
		}
		stmts = append(stmts, pr(sl("end")))
	case "len":
		stmts = append(stmts, pr(Len{V}, Len{bin("+", V, sl("ab"))}))
	case "panic":
		// the value written directly as the message (a literal for the literal origins); the variable form sits in a branch that is compiled but not taken
		if origin == "cmd" {
			direct = V
		}
		if direct != V {
			stmts = stmts[:len(stmts)-1]
			stmts = append(stmts, pr(sl("before")), Panic{direct}, pr(sl("never reached")))
		} else {
			stmts = append(stmts, pr(sl("before")), Panic{V}, pr(sl("never reached")))
		}
	case "switch":
		stmts = append(stmts, def("w", V), Switch{Tag: V, Cases: []SwitchCase{{E: sl("zz"), Body: []Stmt{pr(sl("wrong"))}}, {E: vr("w"), Body: []Stmt{pr(sl("same"))}}, {Default: true, Body: []Stmt{pr(sl("default"))}}}}, Switch{Tag: sl("zz"), Cases: []SwitchCase{{E: V, Body: []Stmt{pr(sl("equal to zz"))}}, {Default: true, Body: []Stmt{pr(sl("not zz"))}}}})
	case "write":
		stmts = append(stmts, Write{Path: sl("out.txt"), Data: V}, Write{Path: sl("out.txt"), Data: bin("+", sl("2:"), V), Append: bl(true)}, pr(sl("written")))
	default:
		panic("c08 path")
	}
	if place != "top" {
		// the same origin and data path inside a function body ("func"), or two blocks deep in it ("nested")
		funcs, body := []Stmt{}, []Stmt{}
		for _, st := range stmts {
			if _, isFn := st.(FuncDecl); isFn {
				funcs = append(funcs, st)
			} else {
				body = append(body, st)
			}
		}
		if place == "nested" {
			body = []Stmt{For{Kind: ForThree, Init: def("kk", il(0)), Cond: cmp("<", vr("kk"), il(1)), Post: IncDec{"kk", true}, Body: []Stmt{ifs(cmp("==", vr("kk"), il(0)), body...)}}}
		}
		stmts = append(funcs, fn("run", nil, nil, body...), callS("run"), pr(sl("done")))
	}
	bc = BashCase{Prog: SingleFile(stmts), Stdin: stdin, PreFiles: pre, CheckFS: true}
	if origin == "cmd" {
		bc.AppHook = func(stages [][]string, fs map[string][]byte) (string, int) {
			if len(stages) == 1 && stages[0][0] == "cat" && len(stages[0]) == 2 {
				if b, ok := fs[stages[0][1]]; ok {
					return string(b), 0
				}
			}
			return "", 1
		}
	}
	return bc, true
}

func c08CharKey(c byte) string { return fmt.Sprintf("c%02x", c) }

var c08Payloads = map[string]string{
	"cmdsubst":       "$(touch CANARY_1)",
	"backticks":      "`touch CANARY_2`",
	"semicolon":      "\";touch CANARY_3;\"",
	"home":           "$HOME",
	"braces":         "${x}",
	"star":           "*",
	"question":       "?",
	"tilde":          "~",
	"dash-n":         "-n",
	"dash-e":         "-e",
	"dash-neE":       "-neE",
	"two-blanks":     "a  b",
	"lead-blank":     " lead",
	"trail-blank":    "trail ",
	"backslash-n":    "\\n",
	"backslash-quote": "\\'",
	"bang":           "!",
	"bang-history":   "!!",
	"redirect":       "x > CANARY_4",
	"pipe":           "a | touch CANARY_5",
	"amp":            "a & touch CANARY_6",
	"dollar-paren":   "$((1+1))",
	"quote-dollar":   "\"$PATH\"",
	"single-quotes":  "it's",
	"glob-class":     "[a-z]*",
	"brace-expand":   "{a,b}",
	"newline-mid":    "l1\nl2",
	"newline-blank-before": "a \nb",
	"newline-tab-before":   "a\t\nb",
	"newline-blank-after":  "a\n b",
	"newline-tab-after":    "a\n\tb",
	"newline-blank-lines":  " l1  \n\n  l3 ",
	"tab-mid":        "a\tb",
	"percent":        "100%s",
	"hash":           "#no comment",
	"only-blank":     " ",
	"empty":          "",
	"eval-breaker":   "\"); touch CANARY_7; (\"",
	"dollar-at":      "$@ $* $# $? $0 $1",
	"arith":          "a[$(touch CANARY_8)]",
	"unicode":        "héllo wörld",
	// what the language's own comments look like, inside data
	"block-comment":        "a /* b */ c",
	"block-comment-open":   "src/*/test",
	"block-comment-close":  "x */ y",
	"glob-path-two-stars":  "src/*/test/*/data",
	"line-comment":         "http://host/path // tail",
	"line-comment-on-second-line": "l1\n// l2 is not a comment\nl3",
	"comment-in-comment":   "/* // */ // /*",
}

func checkC08(c *Check) {
	c.Rule = "table: origin (literal interpreted/raw, file via read incl. files named - and with blanks, stdin via input with and without prompt and as an unterminated last line, command output via @cat) x data path (17: panic message, switch tag and case, print, assign, concat, compare, argument via a variable, argument written directly in the call, return, slice store, slice literal, slice load via copy, range over string, range over slice, subscript, len, write) x character (95 printable ASCII, newline, tab) x position (first, middle, last, only) x place (top level, function body, two blocks deep inside a function), one program per cell, plus a payload list (command substitution, backticks, option-like words, globs, redirections, history, blanks) on every path x origin and random strings (thorough); each program runs under real bash in a sandbox; oracle = reference stdout/exit, empty stderr and the complete sandbox file system (any file the reference does not predict, e.g. a CANARY created by executed data, is a violation). Non-trivial = every cell; distinct = SHA-256 of source + stdin + files"
	c.Assumptions = []string{"reference interpreter treats strings as byte vectors", "run-time origins skip values ending in a newline (the origin APIs drop it, C17/C18)", "Batch target not claimed"}
	runProbes(c, bashProbeJudge)
	cases := []BashCase{}
	r2 := rand.New(rand.NewSource(c.Seed*8000009 + 12))
	add := func(key, origin, path, v string) {
		for _, place := range []string{"top", "func", "nested"} {
			k := key
			if place != "top" {
				// quick tier: payloads at every place, table cells at a seed-selected eighth
				if !c.Thorough() && !strings.Contains(key, "/payload/") && r2.Intn(8) != 0 {
					continue
				}
				parts := strings.SplitN(key, "/", 3)
				k = parts[0] + "/" + parts[1] + "@" + place + "/" + parts[2]
			}
			bc, ok := c08Program(origin, path, v, place)
			if !ok {
				return
			}
			bc.Key = k
			cases = append(cases, bc)
		}
	}
	r := rand.New(rand.NewSource(c.Seed*8000009 + 11))
	chars := []byte{}
	for ch := byte(0x20); ch < 0x7f; ch++ {
		chars = append(chars, ch)
	}
	chars = append(chars, '\n', '\t')
	positions := map[string]func(ch byte) string{
		"first":  func(ch byte) string { return string(ch) + "bc" },
		"middle": func(ch byte) string { return "a" + string(ch) + "c" },
		"last":   func(ch byte) string { return "ab" + string(ch) },
		"only":   func(ch byte) string { return string(ch) },
	}
	for _, origin := range c08Origins {
		for _, path := range c08Paths {
			for _, ch := range chars {
				for _, pos := range []string{"first", "middle", "last", "only"} {
					// run-time origins strip terminators/guards from the end of the value: the last character is
					// never thinned out on the shortest path
					keep := (strings.HasPrefix(origin, "file") || origin == "cmd" || strings.HasPrefix(origin, "stdin")) && path == "print" && (pos == "last" || pos == "only")
					if !c.Thorough() && !keep {
						// quick tier: a seed-selected quarter of the table; letters/digits thinned out
						isAlnum := (ch >= 'a' && ch <= 'z') || (ch >= 'A' && ch <= 'Z') || (ch >= '0' && ch <= '9')
						if isAlnum && ch != 'n' && ch != 'e' && ch != '0' {
							continue
						}
						if r.Intn(4) != 0 {
							continue
						}
					}
					add(fmt.Sprintf("%s/%s/%s/%s", origin, path, c08CharKey(ch), pos), origin, path, positions[pos](ch))
				}
			}
			for _, pn := range func() []string {
				m := map[string]string{}
				for k := range c08Payloads {
					m[k] = ""
				}
				return sortedKeys(m)
			}() {
				add(fmt.Sprintf("%s/%s/payload/%s", origin, path, pn), origin, path, c08Payloads[pn])
			}
		}
	}
	c.Exhaustive = c.Thorough()
	if c.Thorough() {
		for k := 0; k < 2000; k++ {
			n := 1 + r.Intn(12)
			b := make([]byte, n)
			for i := range b {
				b[i] = chars[r.Intn(len(chars))]
			}
			origin := c08Origins[r.Intn(len(c08Origins))]
			path := c08Paths[r.Intn(len(c08Paths))]
			cls := "random-plain"
			if strings.ContainsAny(string(b), "\"$`\\") {
				cls = "random-special" // contains one of the four characters of the recorded literal finding
			}
			add(fmt.Sprintf("%s/%s/%s/%d", origin, path, cls, k), origin, path, string(b))
		}
	}
	c.Extra["cells"] = len(cases)
	runBashCases(c, cases)
}
