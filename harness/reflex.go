package main

import (
	"fmt"
	"strconv"
	"strings"
)

// Reference lexer: an independent, table-driven maximal-munch scanner for the
// token grammar the README implies (Go's lexical grammar restricted to
// TypeShell's token set, plus @ and |; a '-' directly followed by a digit is a
// negative literal only where no operand precedes).

type RKind int

const (
	RIdent RKind = iota
	RKeyword
	RNumber
	RString
	ROp
	RNewline
	RComment
	RSpace
	REOF
)

type RTok struct {
	Kind       RKind
	Text       string // source text of the token
	Value      string // token value as the repository's lexer should report it
	Row, Col   int    // 1-based position of the first character (byte column)
	Start, End int    // byte offsets in the (CRLF-normalised) source
}

var refOps = []string{
	"==", "!=", "<=", ">=", "&&", "||", "+=", "-=", "*=", "/=", "%=", ":=", "++", "--",
	"(", ")", "[", "]", "{", "}", "<", ">", "=", "!", "+", "-", "*", "/", "%", ",", ":", ";", ".", "@", "|",
}

var refKeywords = map[string]bool{
	"import": true, "var": true, "func": true, "return": true, "if": true, "else": true, "switch": true, "case": true,
	"default": true, "for": true, "range": true, "break": true, "continue": true, "nil": true, "len": true, "print": true,
	"input": true, "copy": true, "itoa": true, "exists": true, "read": true, "write": true, "panic": true, "bool": true,
	"int": true, "string": true, "error": true, "true": true, "false": true,
}

func isLetter(c byte) bool { return c == '_' || (c >= 'a' && c <= 'z') || (c >= 'A' && c <= 'Z') }
func isDigit(c byte) bool  { return c >= '0' && c <= '9' }

type RefLexError struct {
	Msg      string
	Row, Col int
}

func (e *RefLexError) Error() string { return fmt.Sprintf("%s at %d:%d", e.Msg, e.Row, e.Col) }

// operandEnd: after such a token a '-' is a binary operator.
func operandEnd(t RTok) bool {
	switch t.Kind {
	case RIdent, RNumber, RString:
		return true
	case RKeyword:
		switch t.Text {
		case "true", "false", "nil":
			return true
		}
		return false
	case ROp:
		return t.Text == ")" || t.Text == "]"
	}
	return false
}

// RefLex tokenises src (after CRLF normalisation). Comments and blanks are
// returned as tokens too (callers filter).
func RefLex(src string) ([]RTok, error) {
	src = strings.ReplaceAll(src, "\r\n", "\n")
	toks := []RTok{}
	row, col := 1, 1
	i := 0
	var lastSig *RTok
	emit := func(k RKind, start, end int, value string) {
		t := RTok{Kind: k, Text: src[start:end], Value: value, Row: row, Col: col, Start: start, End: end}
		toks = append(toks, t)
		if k != RSpace && k != RComment {
			lastSig = &toks[len(toks)-1]
		}
		for _, c := range []byte(src[start:end]) {
			if c == '\n' {
				row++
				col = 1
			} else {
				col++
			}
		}
	}
	for i < len(src) {
		c := src[i]
		switch {
		case c == ' ' || c == '\t':
			emit(RSpace, i, i+1, "")
			i++
		case c == '\n':
			emit(RNewline, i, i+1, "\n")
			i++
		case c == '"':
			j := i + 1
			for j < len(src) && src[j] != '"' {
				if src[j] == '\\' {
					j++
				}
				j++
			}
			if j >= len(src) || src[j] != '"' {
				return toks, &RefLexError{"unterminated string", row, col}
			}
			lit := src[i : j+1]
			// TypeShell's interpreted strings may span lines (the repository's own suite relies on it):
			// escapes are decoded one by one, every other byte (also a line break) is kept
			v := []byte{}
			for rest := lit[1 : len(lit)-1]; len(rest) > 0; {
				if rest[0] != '\\' {
					v = append(v, rest[0])
					rest = rest[1:]
					continue
				}
				r, mb, tail, err := strconv.UnquoteChar(rest, '"')
				if err != nil {
					return toks, &RefLexError{"invalid string literal " + lit, row, col}
				}
				if mb {
					v = append(v, string(r)...)
				} else {
					v = append(v, byte(r))
				}
				rest = tail
			}
			emit(RString, i, j+1, string(v))
			i = j + 1
		case c == '`':
			j := strings.IndexByte(src[i+1:], '`')
			if j < 0 {
				return toks, &RefLexError{"unterminated raw string", row, col}
			}
			end := i + 1 + j + 1
			emit(RString, i, end, strings.ReplaceAll(src[i+1:end-1], "\r", ""))
			i = end
		case c == '/' && i+1 < len(src) && src[i+1] == '/':
			j := strings.IndexByte(src[i:], '\n')
			end := len(src)
			if j >= 0 {
				end = i + j
			}
			emit(RComment, i, end, src[i+2:end])
			i = end
		case c == '/' && i+1 < len(src) && src[i+1] == '*':
			j := strings.Index(src[i+2:], "*/")
			if j < 0 {
				return toks, &RefLexError{"unterminated comment", row, col}
			}
			end := i + 2 + j + 2
			emit(RComment, i, end, src[i+2:end-2])
			i = end
		case isLetter(c):
			j := i
			for j < len(src) && (isLetter(src[j]) || isDigit(src[j])) {
				j++
			}
			w := src[i:j]
			if refKeywords[w] {
				emit(RKeyword, i, j, w)
			} else {
				emit(RIdent, i, j, w)
			}
			i = j
		case isDigit(c) || (c == '-' && i+1 < len(src) && isDigit(src[i+1]) && (lastSig == nil || !operandEnd(*lastSig))):
			j := i + 1
			for j < len(src) && isDigit(src[j]) {
				j++
			}
			emit(RNumber, i, j, src[i:j])
			i = j
		default:
			matched := false
			for _, op := range refOps {
				if strings.HasPrefix(src[i:], op) {
					emit(ROp, i, i+len(op), op)
					i += len(op)
					matched = true
					break
				}
			}
			if !matched {
				return toks, &RefLexError{fmt.Sprintf("unknown character %q", c), row, col}
			}
		}
	}
	toks = append(toks, RTok{Kind: REOF, Row: row, Col: col, Start: len(src), End: len(src)})
	return toks, nil
}

// Significant drops blanks and comments.
func Significant(toks []RTok) []RTok {
	out := []RTok{}
	for _, t := range toks {
		if t.Kind != RSpace && t.Kind != RComment {
			out = append(out, t)
		}
	}
	return out
}
