package main

import "fmt"

// Static typing of RefLang expressions by Go's rules for the shared syntax
// (string/error/nil are one type, as the README says).

type TypeEnv struct {
	Vars  map[string]Type
	Funcs map[string]*FuncDecl
}

func (env *TypeEnv) typeOf(e Expr) (Type, error) {
	switch x := e.(type) {
	case IntLit:
		return TInt, nil
	case BoolLit:
		return TBool, nil
	case StrLit, NilLit:
		return TString, nil
	case VarRef:
		t, ok := env.Vars[x.Name]
		if !ok {
			return TVoid, fmt.Errorf("undefined %s", x.Name)
		}
		return t, nil
	case Group:
		return env.typeOf(x.E)
	case Not:
		t, err := env.typeOf(x.E)
		if err != nil {
			return TVoid, err
		}
		if t != TBool {
			return TVoid, fmt.Errorf("! on %s", t)
		}
		return TBool, nil
	case Bin:
		l, err := env.typeOf(x.L)
		if err != nil {
			return TVoid, err
		}
		r, err := env.typeOf(x.R)
		if err != nil {
			return TVoid, err
		}
		if l != r {
			return TVoid, fmt.Errorf("mismatched %s %s %s", l, x.Op, r)
		}
		if l == TInt || (l == TString && x.Op == "+") {
			return l, nil
		}
		return TVoid, fmt.Errorf("operator %s on %s", x.Op, l)
	case Cmp:
		l, err := env.typeOf(x.L)
		if err != nil {
			return TVoid, err
		}
		r, err := env.typeOf(x.R)
		if err != nil {
			return TVoid, err
		}
		if l != r || l.IsSlice() || l == TVoid {
			return TVoid, fmt.Errorf("mismatched %s %s %s", l, x.Op, r)
		}
		if l == TBool && x.Op != "==" && x.Op != "!=" {
			return TVoid, fmt.Errorf("operator %s on bool", x.Op)
		}
		return TBool, nil
	case Logic:
		l, err := env.typeOf(x.L)
		if err != nil {
			return TVoid, err
		}
		r, err := env.typeOf(x.R)
		if err != nil {
			return TVoid, err
		}
		if l != TBool || r != TBool {
			return TVoid, fmt.Errorf("%s on %s, %s", x.Op, l, r)
		}
		return TBool, nil
	case Itoa:
		return TString, nil
	case Len:
		return TInt, nil
	case Call:
		fd := env.Funcs[x.Fn]
		if fd == nil || len(fd.Results) != 1 {
			return TVoid, fmt.Errorf("call %s", x.Fn)
		}
		return fd.Results[0], nil
	}
	return TVoid, fmt.Errorf("typeOf: unsupported %T", e)
}

// parseFlat builds the AST Go's precedence and left-associativity give to
// operands[0] ops[0] operands[1] ops[1] ... (no parentheses).
func parseFlat(operands []Expr, ops []string) Expr {
	pos := 0
	var climb func(minPrec int) Expr
	opPrec := func(op string) int {
		switch op {
		case "*", "/", "%":
			return 5
		case "+", "-":
			return 4
		case "==", "!=", "<", "<=", ">", ">=":
			return 3
		case "&&":
			return 2
		case "||":
			return 1
		}
		panic("bad op " + op)
	}
	mk := func(op string, l, r Expr) Expr {
		switch opPrec(op) {
		case 5, 4:
			return Bin{op, l, r}
		case 3:
			return Cmp{op, l, r}
		}
		return Logic{op, l, r}
	}
	climb = func(minPrec int) Expr {
		left := operands[pos]
		for pos < len(ops) && opPrec(ops[pos]) >= minPrec {
			op := ops[pos]
			pos++
			right := climb(opPrec(op) + 1)
			left = mk(op, left, right)
		}
		return left
	}
	return climb(1)
}
