package main

import (
	"fmt"
	"os"
	"path/filepath"
	"strconv"
	"strings"
)

// Executable model of cmd.exe for exactly the Batch subset the converter emits
// (DESIGN.md Appendix A). Anything outside the rule cards raises Unmodelled and
// the run is inconclusive.

type CmdResult struct {
	Stdout     string
	Exit       int
	Steps      int
	Unmodelled string // non-empty => inconclusive
	ScriptErr  string // a certain script error (missing label, unbalanced block, division by zero)
	NonTerm    bool
}

type cmdNode interface{}

type cmdSimple struct{ text string }
type cmdBlock struct{ cmds []cmdNode }
type cmdSeq struct{ cmds []cmdNode } // a & b
type cmdIf struct {
	not             bool
	kind            string // "cmp", "defined", "exist"
	left, op, right string
	then, els       cmdNode
}
type cmdFor struct {
	opts string
	v    byte
	set  string // raw text between the parentheses
	body cmdNode
}
type cmdLabel struct{ name string }

type cmdFrame struct {
	args       []string
	localDepth int
}

type cmdUnmodelled struct{ why string }
type cmdScriptError struct{ why string }
type cmdExit struct {
	code int
	all  bool
}
type cmdGoto struct{ label string }
type cmdNonTerm struct{}

type CmdModel struct {
	lines              []string
	env                map[string]string
	stack              []map[string]string
	frames             []*cmdFrame
	out                strings.Builder
	errlevel           int
	steps              int
	MaxSteps           int
	Dir                string   // sandbox for "if exist"
	Stdin              []string // lines for set /p
	EndlocalPopsCaller bool     // variant V1
	forVars            map[byte]string
	lint               bool // structural parsing only: special characters in simple commands are tolerated
}

func (m *CmdModel) unmodelled(format string, a ...interface{}) {
	panic(cmdUnmodelled{fmt.Sprintf(format, a...)})
}

func (m *CmdModel) scriptError(format string, a ...interface{}) {
	panic(cmdScriptError{fmt.Sprintf(format, a...)})
}

func RunCmdModel(script string, maxSteps int, dir string, stdin string, variant bool) (res CmdResult) {
	m := &CmdModel{env: map[string]string{}, MaxSteps: maxSteps, Dir: dir, EndlocalPopsCaller: variant, forVars: map[byte]string{}}
	script = strings.ReplaceAll(script, "\r\n", "\n")
	m.lines = strings.Split(script, "\n")
	if stdin != "" {
		m.Stdin = strings.Split(strings.TrimSuffix(stdin, "\n"), "\n")
	}
	m.frames = []*cmdFrame{{}}
	defer func() {
		res.Stdout = m.out.String()
		res.Steps = m.steps
		if r := recover(); r != nil {
			switch e := r.(type) {
			case cmdUnmodelled:
				res.Unmodelled = e.why
			case cmdScriptError:
				res.ScriptErr = e.why
				res.Exit = 1
			case cmdNonTerm:
				res.NonTerm = true
			case cmdExit:
				res.Exit = e.code
			default:
				panic(r)
			}
		}
	}()
	code := m.runFrom(0)
	res.Exit = code
	return
}

func (m *CmdModel) get(name string) (string, bool) {
	v, ok := m.env[strings.ToUpper(name)]
	return v, ok
}

func (m *CmdModel) set(name, value string) {
	k := strings.ToUpper(name)
	if value == "" {
		delete(m.env, k)
	} else {
		m.env[k] = value
	}
}

// ---- phase 1: percent expansion of a physical line ----

func (m *CmdModel) percentExpand(line string) string {
	args := m.frames[len(m.frames)-1].args
	var b strings.Builder
	for i := 0; i < len(line); i++ {
		c := line[i]
		if c != '%' {
			b.WriteByte(c)
			continue
		}
		if i+1 < len(line) && line[i+1] == '%' {
			b.WriteByte('%')
			i++
			continue
		}
		// %N, %~N, %*
		j := i + 1
		tilde := false
		if j < len(line) && line[j] == '~' {
			tilde = true
			j++
		}
		if j < len(line) && line[j] >= '0' && line[j] <= '9' {
			n := int(line[j] - '0')
			v := ""
			if n == 0 {
				v = "script.bat"
			} else if n-1 < len(args) {
				v = args[n-1]
			}
			if tilde && len(v) >= 2 && v[0] == '"' && v[len(v)-1] == '"' {
				v = v[1 : len(v)-1]
			}
			b.WriteString(v)
			i = j
			continue
		}
		if tilde {
			if m.lint {
				continue
			}
			m.unmodelled("percent modifier %q", line[i:])
		}
		if j < len(line) && line[j] == '*' {
			b.WriteString(strings.Join(args, " "))
			i = j
			continue
		}
		// %name%
		k := strings.IndexByte(line[i+1:], '%')
		if k < 0 {
			continue // a lone % is dropped
		}
		name := line[i+1 : i+1+k]
		if strings.ContainsAny(name, ":") {
			m.unmodelled("percent substring/replace expansion %%%s%%", name)
		}
		if v, ok := m.get(name); ok {
			b.WriteString(v)
		}
		i = i + 1 + k
	}
	return b.String()
}

// ---- parser ----

type cmdParser struct {
	m     *CmdModel
	pc    *int   // next physical line to read
	buf   string // rest of the current (percent-expanded) line
	depth int    // open parentheses
}

func (p *cmdParser) more() bool {
	if *p.pc >= len(p.m.lines) {
		return false
	}
	raw := p.m.lines[*p.pc]
	*p.pc++
	p.buf = p.m.percentExpand(raw)
	return true
}

func trimLeftBlanks(s string) string { return strings.TrimLeft(s, " \t") }

func hasPrefixFold(s, prefix string) bool {
	return len(s) >= len(prefix) && strings.EqualFold(s[:len(prefix)], prefix)
}

// keywordAt: s starts with the keyword followed by a delimiter.
func keywordAt(s, kw string) bool {
	if !hasPrefixFold(s, kw) {
		return false
	}
	if len(s) == len(kw) {
		return true
	}
	c := s[len(kw)]
	return c == ' ' || c == '\t' || c == '(' || c == '/' || c == '.' || c == '=' || c == ',' || c == ';'
}

// parseCommand parses one command from the buffer (which may pull further
// physical lines for parenthesised blocks).
func (p *cmdParser) parseCommand() cmdNode {
	p.buf = trimLeftBlanks(p.buf)
	for strings.HasPrefix(p.buf, "@") {
		p.buf = trimLeftBlanks(p.buf[1:])
	}
	s := p.buf
	switch {
	case s == "":
		return nil
	case strings.HasPrefix(s, ":"):
		// label or :: comment; the rest of the line belongs to it
		p.buf = ""
		name := strings.TrimLeft(s, ":")
		if i := strings.IndexAny(name, " \t:+&|<>="); i >= 0 {
			name = name[:i]
		}
		return cmdLabel{name}
	case strings.HasPrefix(s, "("):
		p.buf = s[1:]
		return p.parseBlock()
	case keywordAt(s, "if"):
		p.buf = s[2:]
		return p.parseIf()
	case keywordAt(s, "for"):
		p.buf = s[3:]
		return p.parseFor()
	case keywordAt(s, "rem"):
		p.buf = ""
		return cmdSimple{"rem"}
	}
	return p.parseSimple()
}

// parseSimple reads up to an unquoted &, or an unquoted ) when inside a block.
func (p *cmdParser) parseSimple() cmdNode {
	s := p.buf
	inq := false
	end := len(s)
	var next byte
	for i := 0; i < len(s); i++ {
		c := s[i]
		if c == '"' {
			inq = !inq
			continue
		}
		if inq {
			continue
		}
		if p.m.lint && (c == '^' || c == '|' || c == '<' || c == '>') {
			if c == '^' {
				i++
			}
			continue
		}
		if c == '^' {
			if i+1 < len(s) && s[i+1] == '!' {
				i++
				continue
			}
			if i+1 == len(s) {
				// line continuation: only the (set LF=^ idiom is modelled, by the caller
				p.m.unmodelled("caret line continuation")
			}
			p.m.unmodelled("caret escape in %q", s)
		}
		if c == '&' {
			end, next = i, '&'
			break
		}
		if c == '|' || c == '<' || c == '>' {
			p.m.unmodelled("redirection or pipe in %q", s)
		}
		if c == ')' && p.depth > 0 {
			end, next = i, ')'
			break
		}
	}
	text := s[:end]
	var node cmdNode = cmdSimple{text}
	switch next {
	case '&':
		if end+1 < len(s) && s[end+1] == '&' {
			p.m.unmodelled("&& operator")
		}
		p.buf = s[end+1:]
		rest := p.parseCommand()
		if rest == nil {
			return node
		}
		if seq, ok := rest.(cmdSeq); ok {
			return cmdSeq{append([]cmdNode{node}, seq.cmds...)}
		}
		return cmdSeq{[]cmdNode{node, rest}}
	case ')':
		p.buf = s[end:] // leave the parenthesis for the block parser
	default:
		p.buf = ""
	}
	return node
}

// parseBlock: after "(" up to the matching ")".
func (p *cmdParser) parseBlock() cmdNode {
	p.depth++
	blk := cmdBlock{}
	for {
		p.buf = trimLeftBlanks(p.buf)
		if p.buf == "" {
			if !p.more() {
				p.m.scriptError("unbalanced parenthesis: end of file inside a block")
			}
			continue
		}
		if strings.HasPrefix(p.buf, ")") {
			p.buf = p.buf[1:]
			p.depth--
			return blk
		}
		n := p.parseCommand()
		if n != nil {
			blk.cmds = append(blk.cmds, n)
		}
	}
}

func (p *cmdParser) token() string {
	p.buf = trimLeftBlanks(p.buf)
	s := p.buf
	if s == "" {
		return ""
	}
	if s[0] == '"' {
		j := strings.IndexByte(s[1:], '"')
		if j < 0 {
			p.buf = ""
			return s
		}
		// a quoted token extends to the next blank after the closing quote
		end := j + 2
		for end < len(s) && s[end] != ' ' && s[end] != '\t' && s[end] != '(' {
			end++
		}
		p.buf = s[end:]
		return s[:end]
	}
	end := 0
	for end < len(s) && s[end] != ' ' && s[end] != '\t' {
		if s[end] == '(' && end > 0 {
			break
		}
		end++
	}
	p.buf = s[end:]
	return s[:end]
}

func (p *cmdParser) parseIf() cmdNode {
	n := cmdIf{}
	save := p.buf
	t := p.token()
	if strings.EqualFold(t, "/i") {
		p.m.unmodelled("if /i")
	}
	if strings.EqualFold(t, "not") {
		n.not = true
		save = p.buf
		t = p.token()
	}
	switch strings.ToLower(t) {
	case "defined":
		n.kind = "defined"
		n.left = p.token()
	case "exist":
		n.kind = "exist"
		n.left = p.token()
	case "errorlevel":
		p.m.unmodelled("if errorlevel")
	default:
		_ = save
		n.kind = "cmp"
		n.left = t
		n.op = strings.ToLower(p.token())
		switch n.op {
		case "equ", "neq", "lss", "leq", "gtr", "geq":
		default:
			p.m.unmodelled("if operator %q", n.op)
		}
		n.right = p.token()
	}
	n.then = p.parseCommand()
	if n.then == nil {
		p.m.scriptError("if without a command")
	}
	// else must follow on the same logical line
	rest := trimLeftBlanks(p.buf)
	if keywordAt(rest, "else") {
		p.buf = rest[4:]
		n.els = p.parseCommand()
		if n.els == nil {
			p.m.scriptError("else without a command")
		}
	}
	return n
}

func (p *cmdParser) parseFor() cmdNode {
	n := cmdFor{}
	t := p.token()
	if !strings.EqualFold(t, "/f") {
		p.m.unmodelled("for without /f")
	}
	t = p.token()
	if strings.HasPrefix(t, "\"") {
		n.opts = strings.Trim(t, "\"")
		t = p.token()
	}
	if len(t) != 2 || t[0] != '%' {
		p.m.unmodelled("for variable %q", t)
	}
	n.v = t[1]
	if in := p.token(); !strings.EqualFold(in, "in") {
		p.m.unmodelled("for: expected in, got %q", in)
	}
	p.buf = trimLeftBlanks(p.buf)
	if !strings.HasPrefix(p.buf, "(") {
		p.m.unmodelled("for: expected (")
	}
	// the set: up to the matching ) outside quotes
	s := p.buf[1:]
	inq := byte(0)
	end := -1
	for i := 0; i < len(s); i++ {
		c := s[i]
		if inq != 0 {
			if c == inq {
				inq = 0
			}
			continue
		}
		if c == '"' || c == '\'' {
			inq = c
			continue
		}
		if c == ')' {
			end = i
			break
		}
	}
	if end < 0 {
		p.m.unmodelled("for: set spans lines")
	}
	n.set = strings.TrimSpace(s[:end])
	p.buf = s[end+1:]
	if do := p.token(); !strings.EqualFold(do, "do") {
		p.m.unmodelled("for: expected do, got %q", do)
	}
	n.body = p.parseCommand()
	if n.opts != "delims=" && !p.m.lint {
		p.m.unmodelled("for /f options %q", n.opts)
	}
	return n
}

// ---- delayed expansion ----

func (m *CmdModel) delayedExpand(s string) string {
	if !strings.Contains(s, "!") {
		return s
	}
	var b strings.Builder
	for i := 0; i < len(s); i++ {
		c := s[i]
		if c == '^' && i+1 < len(s) && s[i+1] == '!' {
			b.WriteByte('!')
			i++
			continue
		}
		if c != '!' {
			b.WriteByte(c)
			continue
		}
		j := strings.IndexByte(s[i+1:], '!')
		if j < 0 {
			// unpaired ! is removed
			continue
		}
		ref := s[i+1 : i+1+j]
		i = i + 1 + j
		name := ref
		sub := ""
		if k := strings.Index(ref, ":~"); k >= 0 {
			name, sub = ref[:k], ref[k+2:]
		} else if strings.Contains(ref, ":") {
			m.unmodelled("delayed replace expansion !%s!", ref)
		}
		v, ok := m.get(name)
		if sub == "" {
			if ok {
				b.WriteString(v)
			}
			continue
		}
		if !ok {
			m.unmodelled("substring of undefined variable %s", name)
		}
		b.WriteString(m.substring(v, sub))
	}
	return b.String()
}

func (m *CmdModel) substring(v, spec string) string {
	parts := strings.SplitN(spec, ",", 2)
	start, err := strconv.Atoi(strings.TrimSpace(parts[0]))
	if err != nil {
		m.unmodelled("substring start %q", parts[0])
	}
	n := len(v)
	if start < 0 {
		start = n + start
		if start < 0 {
			start = 0
		}
	}
	if start > n {
		start = n
	}
	end := n
	if len(parts) == 2 {
		l, err := strconv.Atoi(strings.TrimSpace(parts[1]))
		if err != nil {
			m.unmodelled("substring length %q", parts[1])
		}
		if l < 0 {
			end = n + l
		} else {
			end = start + l
		}
		if end > n {
			end = n
		}
		if end < start {
			end = start
		}
	}
	return v[start:end]
}

// ---- execution ----

func (m *CmdModel) tick() {
	m.steps++
	if m.steps > m.MaxSteps {
		panic(cmdNonTerm{})
	}
}

// runFrom executes lines starting at pc in the current frame until exit /B or
// end of file; returns the exit code of the frame.
func (m *CmdModel) runFrom(pc int) int {
	for {
		if pc >= len(m.lines) {
			return m.errlevel
		}
		// the (set LF=^ idiom: three physical lines
		if strings.TrimSpace(m.lines[pc]) == "(set LF=^" && pc+2 < len(m.lines) && m.lines[pc+1] == "" && strings.TrimSpace(m.lines[pc+2]) == ")" {
			m.set("LF", "\n")
			pc += 3
			continue
		}
		next := pc
		p := &cmdParser{m: m, pc: &next}
		if !p.more() {
			return m.errlevel
		}
		var nodes []cmdNode
		for {
			n := p.parseCommand()
			if n != nil {
				nodes = append(nodes, n)
			}
			rest := trimLeftBlanks(p.buf)
			if rest == "" {
				break
			}
			if strings.HasPrefix(rest, ")") {
				// a closing parenthesis without a block: reached after a goto into a former block
				// no emitted script of the unchanged tree ever gets here; what cmd.exe does with such a line is
				// not part of its documented rules, so a script that depends on it is reported, not guessed at
				m.scriptError("control reaches the closing parenthesis of a block it is not in (line %d): the behaviour is outside cmd's documented rules", next)
			}
			m.unmodelled("trailing text %q at line %d", rest, next)
		}
		ctl := m.execAll(nodes)
		switch c := ctl.(type) {
		case nil:
			pc = next
		case cmdGoto:
			pc = m.findLabel(c.label, next)
		case cmdExit:
			if c.all {
				panic(c)
			}
			return c.code
		}
	}
}

func (m *CmdModel) findLabel(label string, start int) int {
	label = strings.TrimPrefix(label, ":")
	if strings.EqualFold(label, "eof") {
		return len(m.lines)
	}
	n := len(m.lines)
	for k := 0; k < n; k++ {
		i := (start + k) % n
		l := trimLeftBlanks(m.lines[i])
		if !strings.HasPrefix(l, ":") || strings.HasPrefix(l, "::") {
			continue
		}
		name := l[1:]
		if j := strings.IndexAny(name, " \t:+&|<>="); j >= 0 {
			name = name[:j]
		}
		if strings.EqualFold(name, label) {
			return i + 1
		}
	}
	m.scriptError("label %s not found", label)
	return 0
}

func (m *CmdModel) execAll(nodes []cmdNode) interface{} {
	for _, n := range nodes {
		if ctl := m.exec(n); ctl != nil {
			return ctl
		}
	}
	return nil
}

func (m *CmdModel) exec(n cmdNode) interface{} {
	m.tick()
	switch x := n.(type) {
	case nil, cmdLabel:
		return nil
	case cmdBlock:
		return m.execAll(x.cmds)
	case cmdSeq:
		return m.execAll(x.cmds)
	case cmdIf:
		cond := m.evalIf(x)
		if cond != x.not {
			return m.exec(x.then)
		}
		if x.els != nil {
			return m.exec(x.els)
		}
		return nil
	case cmdFor:
		return m.execFor(x)
	case cmdSimple:
		return m.execSimple(x.text)
	}
	m.unmodelled("node %T", n)
	return nil
}

func (m *CmdModel) substForVars(s string) string {
	if len(m.forVars) == 0 || !strings.Contains(s, "%") {
		return s
	}
	var b strings.Builder
	for i := 0; i < len(s); i++ {
		if s[i] == '%' && i+1 < len(s) {
			if v, ok := m.forVars[s[i+1]]; ok {
				b.WriteString(v)
				i++
				continue
			}
		}
		b.WriteByte(s[i])
	}
	return b.String()
}

func (m *CmdModel) expandOperand(s string) string {
	return m.delayedExpand(m.substForVars(s))
}

func isCanonicalInt(s string) (int64, bool) {
	if s == "" {
		return 0, false
	}
	t := s
	if t[0] == '-' || t[0] == '+' {
		t = t[1:]
	}
	if t == "" {
		return 0, false
	}
	for i := 0; i < len(t); i++ {
		if t[i] < '0' || t[i] > '9' {
			return 0, false
		}
	}
	v, err := strconv.ParseInt(s, 10, 64)
	if err != nil || v > 2147483647 || v < -2147483648 {
		return 0, false
	}
	return v, true
}

func (m *CmdModel) evalIf(x cmdIf) bool {
	switch x.kind {
	case "defined":
		_, ok := m.get(m.expandOperand(x.left))
		return ok
	case "exist":
		p := strings.Trim(m.expandOperand(x.left), "\"")
		if m.Dir == "" {
			m.unmodelled("if exist without a sandbox")
		}
		p = filepath.FromSlash(strings.ReplaceAll(p, "\\", "/"))
		if !filepath.IsAbs(p) {
			p = filepath.Join(m.Dir, p)
		}
		_, err := os.Stat(p)
		return err == nil
	}
	l := m.expandOperand(x.left)
	r := m.expandOperand(x.right)
	ln, lok := isCanonicalInt(l)
	rn, rok := isCanonicalInt(r)
	// cmd converts with C rules: a leading zero means octal (010 is 8); digits 8 and 9 make such an operand a string
	octal := func(s string, n int64, ok bool) (int64, bool) {
		if !ok {
			return n, ok
		}
		body := strings.TrimLeft(s, "-+")
		if len(body) > 1 && body[0] == '0' {
			v, err := strconv.ParseInt(body, 8, 64)
			if err != nil {
				return 0, false
			}
			if strings.HasPrefix(s, "-") {
				v = -v
			}
			return v, true
		}
		return n, ok
	}
	ln, lok = octal(l, ln, lok)
	rn, rok = octal(r, rn, rok)
	if lok && rok {
		switch x.op {
		case "equ":
			return ln == rn
		case "neq":
			return ln != rn
		case "lss":
			return ln < rn
		case "leq":
			return ln <= rn
		case "gtr":
			return ln > rn
		case "geq":
			return ln >= rn
		}
	}
	switch x.op {
	case "equ":
		return l == r
	case "neq":
		return l != r
	}
	// string ordering: modelled only for strings over digits, quotes and minus (ordinal order)
	for _, s := range []string{l, r} {
		for i := 0; i < len(s); i++ {
			c := s[i]
			if !(c >= '0' && c <= '9') && c != '"' {
				m.unmodelled("string ordering comparison of %q and %q", l, r)
			}
		}
	}
	cmp := strings.Compare(l, r)
	switch x.op {
	case "lss":
		return cmp < 0
	case "leq":
		return cmp <= 0
	case "gtr":
		return cmp > 0
	case "geq":
		return cmp >= 0
	}
	return false
}

func (m *CmdModel) execFor(x cmdFor) interface{} {
	set := m.expandOperand(x.set)
	if len(set) < 2 || set[0] != '"' || set[len(set)-1] != '"' {
		m.unmodelled("for /f over a command or a file: %q", x.set)
	}
	text := set[1 : len(set)-1]
	if text == "" || text[0] == ';' {
		return nil // empty lines and lines starting with the eol character yield no iteration
	}
	if strings.Contains(text, "\n") {
		m.unmodelled("for /f over a multi-line string")
	}
	old, had := m.forVars[x.v]
	m.forVars[x.v] = text
	ctl := m.exec(x.body)
	if had {
		m.forVars[x.v] = old
	} else {
		delete(m.forVars, x.v)
	}
	return ctl
}

func splitCmdName(text string) (string, string) {
	text = trimLeftBlanks(text)
	i := 0
	for i < len(text) && text[i] != ' ' && text[i] != '\t' && text[i] != '.' && text[i] != '/' && text[i] != '"' && text[i] != '=' && text[i] != ',' && text[i] != ';' && text[i] != '(' {
		i++
	}
	return strings.ToLower(text[:i]), text[i:]
}

func (m *CmdModel) execSimple(raw string) interface{} {
	text := m.substForVars(raw)
	name, rest := splitCmdName(text)
	switch name {
	case "":
		return nil
	case "rem":
		return nil
	case "echo":
		m.execEcho(rest)
		return nil
	case "set":
		m.execSet(rest)
		return nil
	case "goto":
		return cmdGoto{strings.TrimSpace(m.delayedExpand(rest))}
	case "call":
		return m.execCall(m.delayedExpand(rest))
	case "exit":
		args := strings.Fields(m.delayedExpand(rest))
		if len(args) == 0 || !strings.EqualFold(args[0], "/b") {
			code := 0
			if len(args) > 0 {
				code, _ = strconv.Atoi(args[0])
			}
			return cmdExit{code: code, all: true}
		}
		if len(args) > 1 {
			c, err := strconv.Atoi(args[1])
			if err != nil {
				m.unmodelled("exit /B %q", args[1])
			}
			m.errlevel = c
		}
		return cmdExit{code: m.errlevel}
	case "setlocal":
		snap := map[string]string{}
		for k, v := range m.env {
			snap[k] = v
		}
		m.stack = append(m.stack, snap)
		m.frames[len(m.frames)-1].localDepth++
		return nil
	case "endlocal":
		fr := m.frames[len(m.frames)-1]
		if fr.localDepth == 0 {
			if len(m.frames) > 1 && m.EndlocalPopsCaller && len(m.stack) > 0 {
				m.env = m.stack[len(m.stack)-1]
				m.stack = m.stack[:len(m.stack)-1]
			}
			return nil
		}
		fr.localDepth--
		if len(m.stack) > 0 {
			m.env = m.stack[len(m.stack)-1]
			m.stack = m.stack[:len(m.stack)-1]
		}
		return nil
	}
	if strings.HasPrefix(name, ")") {
		// a line that starts with the closing parenthesis of a block, reached from outside that block (after a
		// goto out of it): no emitted script of the unchanged tree gets here, and what cmd.exe does with such a
		// line is not part of its documented rules
		m.scriptError("control reaches the closing parenthesis of a block it is not in (%q): the behaviour is outside cmd's documented rules", name)
	}
	m.unmodelled("external or unknown command %q", name)
	return nil
}

func (m *CmdModel) execEcho(rest string) {
	if strings.HasPrefix(rest, "(") {
		// echo(text prints the text as it is: empty, blank-only, on/off included
		m.out.WriteString(m.delayedExpand(rest[1:]) + "\n")
		return
	}
	if strings.HasPrefix(rest, ".") && strings.TrimSpace(rest) == "." {
		m.out.WriteString("\n")
		return
	}
	if rest != "" {
		rest = rest[1:] // exactly one separator character is removed
	}
	text := m.delayedExpand(rest)
	t := strings.TrimSpace(text)
	switch {
	case t == "":
		m.out.WriteString("ECHO is off.\n")
	case strings.EqualFold(t, "on") || strings.EqualFold(t, "off"):
		// switches command echoing, prints nothing
	case strings.EqualFold(t, "/?"):
		m.unmodelled("echo /?")
	default:
		m.out.WriteString(text + "\n")
	}
	if m.out.Len() > 1<<20 {
		panic(cmdNonTerm{})
	}
}

func (m *CmdModel) execSet(rest string) {
	rest = trimLeftBlanks(rest)
	if hasPrefixFold(rest, "/a") {
		m.execSetA(trimLeftBlanks(rest[2:]))
		return
	}
	if hasPrefixFold(rest, "/p") {
		arg := m.delayedExpand(trimLeftBlanks(rest[2:]))
		arg = stripSetQuotes(arg)
		k := strings.IndexByte(arg, '=')
		if k < 0 {
			m.unmodelled("set /p without =")
		}
		m.out.WriteString(arg[k+1:])
		if len(m.Stdin) > 0 {
			m.set(arg[:k], m.Stdin[0])
			m.Stdin = m.Stdin[1:]
		}
		return
	}
	arg := m.delayedExpand(rest)
	arg = stripSetQuotes(arg)
	k := strings.IndexByte(arg, '=')
	if k <= 0 {
		m.unmodelled("set without assignment: %q", rest)
	}
	m.set(arg[:k], arg[k+1:])
}

// stripSetQuotes: set "N=V": name/value lie between the first quote and the last quote.
func stripSetQuotes(arg string) string {
	if strings.HasPrefix(arg, "\"") {
		if j := strings.LastIndexByte(arg, '"'); j > 0 {
			return arg[1:j]
		}
		return arg[1:]
	}
	return arg
}

// ---- set /A ----

type setAParser struct {
	m   *CmdModel
	s   string
	pos int
}

func (q *setAParser) skip() {
	for q.pos < len(q.s) && (q.s[q.pos] == ' ' || q.s[q.pos] == '\t') {
		q.pos++
	}
}

func wrap32(v int64) int64 { return int64(int32(v)) }

func (q *setAParser) primary() int64 {
	q.skip()
	if q.pos >= len(q.s) {
		q.m.scriptError("set /A: missing operand in %q", q.s)
	}
	c := q.s[q.pos]
	switch {
	case c == '(':
		q.pos++
		v := q.bitor()
		q.skip()
		if q.pos >= len(q.s) || q.s[q.pos] != ')' {
			q.m.scriptError("set /A: unbalanced parenthesis in %q", q.s)
		}
		q.pos++
		return v
	case c == '-':
		q.pos++
		return wrap32(-q.primary())
	case c == '+':
		q.pos++
		return q.primary()
	case c == '!' || c == '~':
		q.m.unmodelled("set /A operator %c", c)
	case c >= '0' && c <= '9':
		st := q.pos
		for q.pos < len(q.s) && q.s[q.pos] >= '0' && q.s[q.pos] <= '9' {
			q.pos++
		}
		lit := q.s[st:q.pos]
		if len(lit) > 1 && lit[0] == '0' {
			q.m.unmodelled("set /A: octal/hex literal %q", lit)
		}
		if q.pos < len(q.s) && (q.s[q.pos] == 'x' || q.s[q.pos] == 'X') {
			q.m.unmodelled("set /A: hex literal")
		}
		v, err := strconv.ParseInt(lit, 10, 64)
		if err != nil || v > 2147483647 {
			if v == 2147483648 {
				q.m.unmodelled("set /A: literal 2147483648 (MinInt32 cannot be written)")
			}
			q.m.scriptError("set /A: invalid number %q (numbers are limited to 32 bits)", lit)
		}
		return v
	case isLetter(c):
		st := q.pos
		for q.pos < len(q.s) && (isLetter(q.s[q.pos]) || isDigit(q.s[q.pos])) {
			q.pos++
		}
		v, ok := q.m.get(q.s[st:q.pos])
		if !ok {
			return 0
		}
		n, ok2 := isCanonicalInt(v)
		if !ok2 {
			q.m.unmodelled("set /A: variable %s holds %q", q.s[st:q.pos], v)
		}
		return n
	}
	q.m.scriptError("set /A: unexpected %q in %q", string(c), q.s)
	return 0
}

func (q *setAParser) muldiv() int64 {
	v := q.primary()
	for {
		q.skip()
		if q.pos >= len(q.s) {
			return v
		}
		c := q.s[q.pos]
		if c != '*' && c != '/' && c != '%' {
			return v
		}
		q.pos++
		r := q.primary()
		switch c {
		case '*':
			v = wrap32(v * r)
		case '/':
			if r == 0 {
				q.m.scriptError("set /A: division by zero")
			}
			if v == -2147483648 && r == -1 {
				q.m.unmodelled("set /A: MinInt32 / -1")
			}
			v = wrap32(v / r)
		case '%':
			if r == 0 {
				q.m.scriptError("set /A: division by zero")
			}
			if v == -2147483648 && r == -1 {
				q.m.unmodelled("set /A: MinInt32 %% -1")
			}
			v = wrap32(v % r)
		}
	}
}

// bit operators of set /A in cmd's documented order of precedence (below + and -): << >>, then &, then ^, then |.
// Operands are 32-bit two's-complement values; >> is an arithmetic shift; shift counts outside 0..31 are left to
// the "unmodelled" verdict (cmd's behaviour there is not documented).
func (q *setAParser) shift() int64 {
	v := q.addsub()
	for {
		q.skip()
		if q.pos+1 >= len(q.s) || (q.s[q.pos:q.pos+2] != "<<" && q.s[q.pos:q.pos+2] != ">>") {
			return v
		}
		op := q.s[q.pos : q.pos+2]
		q.pos += 2
		r := q.addsub()
		if r < 0 || r > 31 {
			q.m.unmodelled("set /A shift count %d", r)
		}
		if op == "<<" {
			v = wrap32(int64(int32(v) << uint(r)))
		} else {
			v = wrap32(int64(int32(v) >> uint(r)))
		}
	}
}

func (q *setAParser) bitLevel(ops string, next func() int64) int64 {
	v := next()
	for {
		q.skip()
		if q.pos >= len(q.s) || !strings.ContainsRune(ops, rune(q.s[q.pos])) {
			return v
		}
		if q.pos+1 < len(q.s) && (q.s[q.pos+1] == '=' || q.s[q.pos+1] == q.s[q.pos]) {
			return v // &= |= ^= && ||: not operators of this level
		}
		c := q.s[q.pos]
		q.pos++
		r := next()
		switch c {
		case '&':
			v = wrap32(int64(int32(v) & int32(r)))
		case '^':
			v = wrap32(int64(int32(v) ^ int32(r)))
		case '|':
			v = wrap32(int64(int32(v) | int32(r)))
		}
	}
}

func (q *setAParser) bitor() int64 {
	return q.bitLevel("|", func() int64 { return q.bitLevel("^", func() int64 { return q.bitLevel("&", q.shift) }) })
}

func (q *setAParser) addsub() int64 {
	v := q.muldiv()
	for {
		q.skip()
		if q.pos >= len(q.s) {
			return v
		}
		c := q.s[q.pos]
		if c != '+' && c != '-' {
			return v
		}
		q.pos++
		r := q.muldiv()
		if c == '+' {
			v = wrap32(v + r)
		} else {
			v = wrap32(v - r)
		}
	}
}

func (m *CmdModel) execSetA(rest string) {
	arg := stripSetQuotes(m.delayedExpand(rest))
	k := strings.IndexByte(arg, '=')
	if k <= 0 {
		m.unmodelled("set /A without assignment: %q", arg)
	}
	name := strings.TrimSpace(arg[:k])
	if strings.ContainsAny(name, "+-*/%&|^<>") {
		m.unmodelled("set /A compound assignment %q", arg)
	}
	q := &setAParser{m: m, s: arg[k+1:]}
	v := q.bitor()
	q.skip()
	if q.pos < len(q.s) {
		if q.s[q.pos] == ',' {
			m.unmodelled("set /A with several expressions")
		}
		if strings.ContainsAny(q.s[q.pos:q.pos+1], "<>&|^~!") {
			// shift, bitwise and logical operators are legal in set /A but outside this model's arithmetic
			m.unmodelled("set /A operator %q", q.s[q.pos:q.pos+1])
		}
		m.scriptError("set /A: trailing %q in %q", q.s[q.pos:], arg)
	}
	m.set(name, strconv.FormatInt(v, 10))
}

// ---- call ----

func splitCallArgs(s string) []string {
	args := []string{}
	var cur strings.Builder
	inq := false
	flush := func() {
		if cur.Len() > 0 {
			args = append(args, cur.String())
			cur.Reset()
		}
	}
	for i := 0; i < len(s); i++ {
		c := s[i]
		if c == '"' {
			inq = !inq
			cur.WriteByte(c)
			continue
		}
		if !inq && (c == ' ' || c == '\t' || c == ',' || c == ';' || c == '=') {
			flush()
			continue
		}
		cur.WriteByte(c)
	}
	flush()
	return args
}

func (m *CmdModel) execCall(rest string) interface{} {
	rest = trimLeftBlanks(rest)
	if !strings.HasPrefix(rest, ":") {
		m.unmodelled("call of an external command: %q", rest)
	}
	if strings.ContainsAny(rest, "%^&|<>") {
		m.unmodelled("special characters in call arguments: %q", rest)
	}
	parts := splitCallArgs(rest)
	if len(parts) == 0 {
		m.scriptError("call without a label")
	}
	label := parts[0]
	if len(m.frames) > 200 {
		panic(cmdNonTerm{})
	}
	start := m.findLabel(label, 0)
	m.frames = append(m.frames, &cmdFrame{args: parts[1:]})
	depth := len(m.stack)
	code := m.runFrom(start)
	fr := m.frames[len(m.frames)-1]
	m.frames = m.frames[:len(m.frames)-1]
	// setlocals made by the frame and not ended are ended on return
	for fr.localDepth > 0 && len(m.stack) > depth-0 && len(m.stack) > 0 {
		m.env = m.stack[len(m.stack)-1]
		m.stack = m.stack[:len(m.stack)-1]
		fr.localDepth--
	}
	m.errlevel = code
	return nil
}

func init() {
	extraCommands["cmdmodel"] = func(args []string) {
		if len(args) < 1 {
			fmt.Fprintln(os.Stderr, "usage: tsverif cmdmodel <file.bat>")
			os.Exit(2)
		}
		b, err := os.ReadFile(args[0])
		if err != nil {
			fmt.Fprintln(os.Stderr, err)
			os.Exit(2)
		}
		dir := filepath.Dir(args[0])
		r := RunCmdModel(string(b), 2000000, dir, "", false)
		os.Stdout.WriteString(strings.ReplaceAll(r.Stdout, "\n", "\r\n"))
		if r.Unmodelled != "" {
			if lg := os.Getenv("TSV_UNMODELLED_LOG"); lg != "" {
				if f, err := os.OpenFile(lg, os.O_APPEND|os.O_CREATE|os.O_WRONLY, 0o644); err == nil {
					fmt.Fprintf(f, "%s\t%s\n", os.Getenv("TSV_TEST_NAME"), r.Unmodelled)
					f.Close()
				}
			}
			fmt.Fprintln(os.Stderr, "UNMODELLED:", r.Unmodelled)
			os.Exit(97)
		}
		if r.ScriptErr != "" {
			fmt.Fprintln(os.Stderr, "SCRIPT ERROR:", r.ScriptErr)
		}
		if r.NonTerm {
			fmt.Fprintln(os.Stderr, "NON-TERMINATION (step budget)")
			os.Exit(98)
		}
		os.Exit(r.Exit)
	}
}
