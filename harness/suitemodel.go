package main

import (
	"bufio"
	"encoding/json"
	"fmt"
	"os"
	"os/exec"
	"path/filepath"
	"regexp"
	"sort"
	"strings"
)

// The Windows half of the repository's suite (validated upstream on real
// cmd.exe) is run on Linux with cmd.exe replaced by the model: calibration of
// the model and, at check time, a C05 workload.

const modelHelperSrc = `package tests

import (
	"os"
	"os/exec"
	"path/filepath"
	"strings"
	"testing"

	"github.com/monstermichl/typeshell/converters/batch"
	"github.com/monstermichl/typeshell/transpiler"
	"github.com/stretchr/testify/require"
)

func transpileModelFunc(t *testing.T, source sourceCallout, compare compareCallout) {
	exe, err := os.Executable()
	require.Nil(t, err)
	exePath := filepath.Dir(exe)
	err = copyStd(exePath)
	require.Nil(t, err)
	dir := filepath.Join(exePath, t.Name())
	err = os.MkdirAll(dir, 0700)
	require.Nil(t, err)
	defer os.RemoveAll(dir)
	trans := transpiler.New()
	file := filepath.Join(dir, "test.tsh")
	outputString := ""
	src, err := source(dir)
	if err == nil {
		var code string
		err = os.WriteFile(file, []byte(src), 0700)
		require.Nil(t, err)
		code, err = trans.Transpile(file, batch.New())
		output := []byte{}
		if err == nil {
			targetFile := filepath.Join(dir, "test.bat")
			err = os.WriteFile(targetFile, []byte(code), 0700)
			require.Nil(t, err)
			cmd := exec.Command(os.Getenv("TSVERIF_BIN"), "cmdmodel", targetFile)
			cmd.Env = append(os.Environ(), "TSV_TEST_NAME="+t.Name())
			output, err = cmd.Output()
		}
		outputString = string(output)
		outputString = strings.ReplaceAll(outputString, "\r\n", "\n")
		outputString = strings.TrimSpace(outputString)
	}
	compare(outputString, err)
}

func transpileBatchModel(t *testing.T, source string, compare compareCallout) {
	transpileModelFunc(t, func(_ string) (string, error) { return source, nil }, compare)
}

func transpileBatchModelFunc(t *testing.T, source sourceCallout, compare compareCallout) {
	transpileModelFunc(t, source, compare)
}
`

type SuiteModelResult struct {
	Pass, Fail, Unmodelled []string
	Output                 map[string]string
	BuildError             string
}

func RunSuiteUnderModel() SuiteModelResult {
	res := SuiteModelResult{Output: map[string]string{}}
	work := filepath.Join(scratch(), "suite-model")
	os.RemoveAll(work)
	defer os.RemoveAll(work)
	cp := exec.Command("rsync", "-a", "--exclude", ".git", repoDir()+"/", work+"/")
	if out, err := cp.CombinedOutput(); err != nil {
		res.BuildError = "rsync: " + string(out)
		return res
	}
	tests := filepath.Join(work, "tests")
	files, _ := filepath.Glob(filepath.Join(tests, "*_windows_test.go"))
	reTest := regexp.MustCompile(`func Test(\w+)\(`)
	n := 0
	for _, f := range files {
		b, _ := os.ReadFile(f)
		s := string(b)
		s = reTest.ReplaceAllString(s, "func TestModel$1(")
		s = strings.ReplaceAll(s, "transpileBatchFunc", "transpileBatchModelFunc")
		s = regexp.MustCompile(`\btranspileBatch\b`).ReplaceAllString(s, "transpileBatchModel")
		base := strings.TrimSuffix(filepath.Base(f), "_windows_test.go")
		os.WriteFile(filepath.Join(tests, "zz_model_"+base+"_test.go"), []byte(s), 0o644)
		n++
	}
	os.WriteFile(filepath.Join(tests, "zz_model_helper_test.go"), []byte(modelHelperSrc), 0o644)
	unlog := filepath.Join(work, "unmodelled.log")
	exe, _ := os.Executable()
	cmd := exec.Command("go", "test", "-vet=off", "-count=1", "-run", "^TestModel", "-json", "./tests/")
	cmd.Dir = work
	cmd.Env = append(os.Environ(), "TSVERIF_BIN="+exe, "TSV_UNMODELLED_LOG="+unlog, "GOFLAGS=-mod=mod", "GOPROXY=off", "GOSUMDB=off", "GOTOOLCHAIN=local")
	out, _ := cmd.Output()
	type ev struct {
		Action, Test, Output string
	}
	status := map[string]string{}
	sc := bufio.NewScanner(strings.NewReader(string(out)))
	sc.Buffer(make([]byte, 1<<20), 1<<24)
	sawAny := false
	for sc.Scan() {
		var e ev
		if json.Unmarshal(sc.Bytes(), &e) != nil {
			continue
		}
		if e.Test == "" {
			if e.Action == "output" && strings.Contains(e.Output, "[build failed]") {
				res.BuildError += e.Output
			}
			continue
		}
		sawAny = true
		switch e.Action {
		case "output":
			res.Output[e.Test] += e.Output
		case "pass", "fail", "skip":
			status[e.Test] = e.Action
		}
	}
	if !sawAny && res.BuildError == "" {
		res.BuildError = "no test events; raw output: " + clip(string(out), 2000)
	}
	unm := map[string]bool{}
	if b, err := os.ReadFile(unlog); err == nil {
		for _, l := range strings.Split(string(b), "\n") {
			if f := strings.SplitN(l, "\t", 2); len(f) == 2 {
				unm[f[0]] = true
			}
		}
	}
	for t, s := range status {
		switch {
		case s == "pass":
			res.Pass = append(res.Pass, t)
		case unm[t]:
			res.Unmodelled = append(res.Unmodelled, t)
		default:
			res.Fail = append(res.Fail, t)
		}
	}
	sort.Strings(res.Pass)
	sort.Strings(res.Fail)
	sort.Strings(res.Unmodelled)
	return res
}

func init() {
	extraCommands["suitemodel"] = func(args []string) {
		r := RunSuiteUnderModel()
		cleanupScratch()
		fmt.Printf("pass=%d fail=%d unmodelled=%d\n", len(r.Pass), len(r.Fail), len(r.Unmodelled))
		if r.BuildError != "" {
			fmt.Println("BUILD ERROR:", r.BuildError)
		}
		for _, t := range r.Fail {
			fmt.Println("FAIL", t)
			if len(args) > 0 {
				fmt.Println(clip(r.Output[t], 1500))
			}
		}
		for _, t := range r.Unmodelled {
			fmt.Println("UNMODELLED", t)
		}
	}
}
