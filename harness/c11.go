package main

import (
	"fmt"
	"go/scanner"
	gotoken "go/token"
	"math/rand"
	"os"
	"strconv"
	"strings"

	"github.com/monstermichl/typeshell/lexer"
)

func init() { register("C11", checkC11) }

var kwType = map[string]lexer.TokenType{
	"import": lexer.IMPORT, "var": lexer.VAR_DEFINITION, "func": lexer.FUNCTION_DEFINITION, "return": lexer.RETURN,
	"if": lexer.IF, "else": lexer.ELSE, "switch": lexer.SWITCH, "case": lexer.CASE, "default": lexer.DEFAULT,
	"for": lexer.FOR, "range": lexer.RANGE, "break": lexer.BREAK, "continue": lexer.CONTINUE, "nil": lexer.NIL_LITERAL,
	"len": lexer.LEN, "print": lexer.PRINT, "input": lexer.INPUT, "copy": lexer.COPY, "itoa": lexer.ITOA,
	"exists": lexer.EXISTS, "read": lexer.READ, "write": lexer.WRITE, "panic": lexer.PANIC,
	"bool": lexer.DATA_TYPE, "int": lexer.DATA_TYPE, "string": lexer.DATA_TYPE, "error": lexer.DATA_TYPE,
	"true": lexer.BOOL_LITERAL, "false": lexer.BOOL_LITERAL,
}

var opType = map[string]lexer.TokenType{
	"(": lexer.OPENING_ROUND_BRACKET, ")": lexer.CLOSING_ROUND_BRACKET, "[": lexer.OPENING_SQUARE_BRACKET, "]": lexer.CLOSING_SQUARE_BRACKET,
	"{": lexer.OPENING_CURLY_BRACKET, "}": lexer.CLOSING_CURLY_BRACKET,
	"==": lexer.COMPARE_OPERATOR, "!=": lexer.COMPARE_OPERATOR, "<=": lexer.COMPARE_OPERATOR, ">=": lexer.COMPARE_OPERATOR, "<": lexer.COMPARE_OPERATOR, ">": lexer.COMPARE_OPERATOR,
	"&&": lexer.LOGICAL_OPERATOR, "||": lexer.LOGICAL_OPERATOR,
	"+=": lexer.COMPOUND_ASSIGN_OPERATOR, "-=": lexer.COMPOUND_ASSIGN_OPERATOR, "*=": lexer.COMPOUND_ASSIGN_OPERATOR, "/=": lexer.COMPOUND_ASSIGN_OPERATOR, "%=": lexer.COMPOUND_ASSIGN_OPERATOR,
	"=": lexer.ASSIGN_OPERATOR, ":=": lexer.SHORT_INIT_OPERATOR, "++": lexer.INCREMENT_OPERATOR, "--": lexer.DECREMENT_OPERATOR, "!": lexer.UNARY_OPERATOR,
	"+": lexer.BINARY_OPERATOR, "-": lexer.BINARY_OPERATOR, "*": lexer.BINARY_OPERATOR, "/": lexer.BINARY_OPERATOR, "%": lexer.BINARY_OPERATOR,
	",": lexer.COMMA, ":": lexer.COLON, ";": lexer.SEMICOLON, ".": lexer.DOT, "@": lexer.AT, "|": lexer.PIPE,
}

type gtok struct {
	class string // ident keyword number negnumber string rawstring op newline
	text  string
	value string
	typ   lexer.TokenType
}

type expTok struct {
	typ      lexer.TokenType
	value    string
	row, col int
}

var c11Idents = []string{"a", "x1", "_", "_1", "a1_b", "trueish", "falsey", "nilx", "format", "iffy", "lenx", "intx", "printer", "forx", "returns", "elsewhere", "Break", "TRUE", "False", "truefalse", "istrue", "t", "f", "importx", "caseX", "stringer", "boolean", "errorx", "in", "go", "Zz9", "veryLongIdentifierName_with_123"}
var c11Numbers = []string{"0", "7", "42", "1234567890", "007", "9223372036854775807"}
var c11StrContents = []string{"", "a", "hello world", "tab\there", "nl\nhere", "quote\"in", "back\\slash", "bell\a\b\f\r\v", "// not a comment", "/* neither */", "sp  aces ", "$x `y` 'z'", "é", "日本語", "😀 smile", "mixed é 日 ok", "\x01\x7f", "%d 100%", "a;b|c&d", "{}[]()", "-5", "true", "tick`tick", "trail\\", "\\", "\\\\", "C:\\tmp\\", "a\\n", "mid\\dle", "\\\"", "ends with quote\""}

func mkIdent(s string) gtok  { return gtok{"ident", s, s, lexer.IDENTIFIER} }
func mkKw(s string) gtok     { return gtok{"keyword", s, s, kwType[s]} }
func mkNum(s string) gtok    { return gtok{"number", s, s, lexer.NUMBER_LITERAL} }
func mkNegNum(s string) gtok { return gtok{"negnumber", "-" + s, "-" + s, lexer.NUMBER_LITERAL} }
func mkOp(s string) gtok     { return gtok{"op", s, s, opType[s]} }
func mkNL(crlf bool) gtok {
	if crlf {
		return gtok{"newline", "\r\n", "\n", lexer.NEWLINE}
	}
	return gtok{"newline", "\n", "\n", lexer.NEWLINE}
}

// mkStr spells content as an interpreted string literal; style selects the escape spelling.
func mkStr(content string, style int) gtok {
	var b strings.Builder
	b.WriteByte('"')
	for _, r := range content {
		switch {
		case r == '"':
			b.WriteString(`\"`)
		case r == '\\':
			b.WriteString(`\\`)
		case r == '\n':
			b.WriteString(`\n`)
		case r == '\t':
			if style == 1 {
				b.WriteString("\t")
			} else {
				b.WriteString(`\t`)
			}
		case r == '\a':
			b.WriteString(`\a`)
		case r == '\b':
			b.WriteString(`\b`)
		case r == '\f':
			b.WriteString(`\f`)
		case r == '\r':
			b.WriteString(`\r`)
		case r == '\v':
			b.WriteString(`\v`)
		case r < 0x20 || r == 0x7f:
			switch style {
			case 2:
				fmt.Fprintf(&b, `\%03o`, r)
			default:
				fmt.Fprintf(&b, `\x%02x`, r)
			}
		case r > 0x7f && style == 2:
			if r > 0xffff {
				fmt.Fprintf(&b, `\U%08x`, r)
			} else {
				fmt.Fprintf(&b, `\u%04x`, r)
			}
		case r < 0x7f && style == 3 && r != ' ':
			fmt.Fprintf(&b, `\x%02x`, r)
		default:
			b.WriteRune(r)
		}
	}
	b.WriteByte('"')
	lit := b.String()
	v, err := strconv.Unquote(lit)
	if err != nil || v != content {
		panic("mkStr: bad literal " + lit)
	}
	return gtok{fmt.Sprintf("string/style%d", style), lit, content, lexer.STRING_LITERAL}
}

// mkStrBytes spells every byte of content as a \xNN (hex=true) or \NNN octal escape: the value holds arbitrary
// bytes (also >= 0x80, not valid UTF-8) while the literal itself is plain ASCII.
func mkStrBytes(content string, hex bool) gtok {
	var b strings.Builder
	b.WriteByte('"')
	for i := 0; i < len(content); i++ {
		c := content[i]
		if c >= 0x80 || c < 0x20 || i%2 == 0 {
			if hex {
				fmt.Fprintf(&b, `\x%02x`, c)
			} else {
				fmt.Fprintf(&b, `\%03o`, c)
			}
		} else if c == '"' || c == '\\' {
			b.WriteByte('\\')
			b.WriteByte(c)
		} else {
			b.WriteByte(c)
		}
	}
	b.WriteByte('"')
	lit := b.String()
	v, err := strconv.Unquote(lit)
	if err != nil || v != content {
		panic("mkStrBytes: bad literal " + lit)
	}
	return gtok{"string/byte-escapes", lit, content, lexer.STRING_LITERAL}
}

func mkRaw(content string) gtok {
	return gtok{"rawstring", "`" + content + "`", strings.ReplaceAll(content, "\r", ""), lexer.STRING_LITERAL}
}

type sepKind struct {
	name string
	text string
}

var c11Seps = []sepKind{{"none", ""}, {"blank", " "}, {"tab", "\t"}, {"blanks", "   "}, {"block", "/* c */"}, {"block-star", "/** x * y **/"}, {"block-multiline", "/* a\n   b */"}, {"block-with-quotes", "/* \" ` */"}, {"blank-block-blank", " /* c */ "}}

// render concatenates tokens and separators and computes the expected
// positions with its own counter.
func c11Render(toks []gtok, seps []string) (string, []expTok) {
	var b strings.Builder
	row, col := 1, 1
	adv := func(s string) {
		s = strings.ReplaceAll(s, "\r\n", "\n")
		for i := 0; i < len(s); i++ {
			if s[i] == '\n' {
				row++
				col = 1
			} else {
				col++
			}
		}
	}
	exp := []expTok{}
	for i, t := range toks {
		exp = append(exp, expTok{t.typ, t.value, row, col})
		b.WriteString(t.text)
		adv(t.text)
		if i < len(seps) {
			b.WriteString(seps[i])
			adv(seps[i])
		}
	}
	exp = append(exp, expTok{lexer.EOF, "", row, col})
	return b.String(), exp
}

// refAgrees: the reference lexer reproduces the generating list.
func refAgrees(text string, exp []expTok) bool {
	rt, err := RefLex(text)
	if err != nil {
		return false
	}
	sig := Significant(rt)
	if len(sig) != len(exp) {
		return false
	}
	for i, t := range sig {
		e := exp[i]
		if t.Row != e.row || t.Col != e.col || t.Value != e.value {
			return false
		}
	}
	return true
}

func tokString(typ lexer.TokenType, v string, row, col int) string {
	return fmt.Sprintf("(type=%d %q @%d:%d)", typ, v, row, col)
}

func c11Compare(text string, exp []expTok) (bool, string) {
	got, err := lexer.Tokenize(text)
	if err != nil {
		return false, "Tokenize returned an error for a text inside the grammar: " + err.Error()
	}
	for i := 0; i < len(exp) || i < len(got); i++ {
		if i >= len(got) {
			return false, fmt.Sprintf("token %d missing: expected %s", i, tokString(exp[i].typ, exp[i].value, exp[i].row, exp[i].col))
		}
		g := got[i]
		if i >= len(exp) {
			return false, fmt.Sprintf("extra token %d: %s", i, tokString(g.Type(), g.Value(), g.Row(), g.Column()))
		}
		e := exp[i]
		if g.Type() != e.typ || g.Value() != e.value || g.Row() != e.row || g.Column() != e.col {
			return false, fmt.Sprintf("token %d: expected %s, got %s", i, tokString(e.typ, e.value, e.row, e.col), tokString(g.Type(), g.Value(), g.Row(), g.Column()))
		}
	}
	return true, ""
}

// goScannerAgrees cross-checks positions and boundaries with go/scanner on
// Go-compatible text (oracle self-check). ok=false means "not comparable".
func goScannerAgrees(text string, exp []expTok) (comparable bool, agrees bool, detail string) {
	if strings.ContainsAny(text, "@") || strings.Contains(text, "\r") {
		return false, true, ""
	}
	fset := gotoken.NewFileSet()
	file := fset.AddFile("x.go", fset.Base(), len(text))
	var s scanner.Scanner
	bad := false
	s.Init(file, []byte(text), func(pos gotoken.Position, msg string) { bad = true }, 0)
	type gt struct {
		row, col int
		lit      string
		tok      gotoken.Token
	}
	gts := []gt{}
	for {
		pos, tok, lit := s.Scan()
		if tok == gotoken.EOF {
			break
		}
		p := fset.Position(pos)
		if tok == gotoken.FLOAT || tok == gotoken.IMAG || tok == gotoken.CHAR {
			return false, true, ""
		}
		if tok == gotoken.SEMICOLON && lit == "\n" {
			continue // automatic semicolon; newline handling differs by design
		}
		gts = append(gts, gt{p.Line, p.Column, lit, tok})
	}
	if bad {
		return false, true, ""
	}
	// compare non-newline tokens; Go splits negative literals, so merge
	ei := 0
	for gi := 0; gi < len(gts); gi++ {
		for ei < len(exp) && (exp[ei].typ == lexer.NEWLINE || exp[ei].typ == lexer.EOF) {
			ei++
		}
		if ei >= len(exp) {
			return true, false, "go/scanner saw more tokens"
		}
		e := exp[ei]
		g := gts[gi]
		if e.typ == lexer.NUMBER_LITERAL && strings.HasPrefix(e.value, "-") && g.tok == gotoken.SUB && gi+1 < len(gts) {
			gi++ // '-' and the digits
		} else if g.tok.IsOperator() && e.typ != lexer.IDENTIFIER {
			// Go-only multi-character operators (<<, &^, ...) make the text incomparable
			if g.tok.String() != e.value {
				return false, true, ""
			}
		}
		if g.row != e.row || g.col != e.col {
			return true, false, fmt.Sprintf("go/scanner has token %q at %d:%d, oracle expects %q at %d:%d", g.lit+g.tok.String(), g.row, g.col, e.value, e.row, e.col)
		}
		if g.tok == gotoken.STRING {
			v, err := strconv.Unquote(g.lit)
			if err == nil && v != e.value {
				return true, false, "string value differs from go/scanner+Unquote"
			}
		}
		ei++
	}
	return true, true, ""
}

type c11Case struct {
	key  string
	text string
	exp  []expTok
}

func c11Vocabulary() []gtok {
	v := []gtok{}
	for _, s := range c11Idents {
		v = append(v, mkIdent(s))
	}
	// identifiers that begin or end with a keyword / literal word, continued by a digit or an underscore
	for _, w := range []string{"true", "false", "nil", "if", "for", "func", "var", "int", "string", "bool", "len", "print", "return", "import", "range", "case", "else", "break", "copy", "read", "itoa"} {
		for _, id := range []string{w + "1", w + "0", w + "_", "_" + w, w + "9z", w + w} {
			v = append(v, mkIdent(id))
		}
	}
	for k := range kwType {
		v = append(v, mkKw(k))
	}
	for _, s := range c11Numbers {
		v = append(v, mkNum(s))
	}
	for o := range opType {
		v = append(v, mkOp(o))
	}
	for i, s := range c11StrContents {
		if !strings.Contains(s, "`") {
			v = append(v, mkRaw(s))
		}
		v = append(v, mkStr(s, i%4))
	}
	for _, s := range []string{"\xff", "\xff\xfe\x80", "caf\xc3\xa9", "a\x80b", "\xe6\x97\xa5", "\x7f\x80\x81", "plain"} {
		v = append(v, mkStrBytes(s, true), mkStrBytes(s, false))
	}
	// deterministic order
	for i := 0; i < len(v); i++ {
		for j := i + 1; j < len(v); j++ {
			if v[j].class+v[j].text < v[i].class+v[i].text {
				v[i], v[j] = v[j], v[i]
			}
		}
	}
	return v
}

func wordy(t gtok) bool {
	// "." counts as wordy next to numbers: 0.5 / 7. / .5 are float spellings, which the grammar does not define
	return t.class == "ident" || t.class == "keyword" || t.class == "number" || t.class == "negnumber" || (t.class == "op" && t.text == ".")
}

func nonASCII(s string) bool {
	for i := 0; i < len(s); i++ {
		if s[i] >= 0x80 {
			return true
		}
	}
	return false
}

func classOf(t gtok) string {
	if t.class == "op" {
		return "op:" + t.text
	}
	if t.class == "keyword" {
		return "kw:" + t.text
	}
	if strings.HasPrefix(t.class, "string") || t.class == "rawstring" {
		switch {
		case nonASCII(t.value):
			return t.class + ":utf8"
		case strings.Contains(t.value, "\n"):
			return t.class + ":multiline"
		case strings.ContainsAny(t.value, "\\\"/*`$"):
			return t.class + ":special"
		}
		return t.class + ":plain"
	}
	return t.class
}

func c11Cases(c *Check) []c11Case {
	cases := []c11Case{}
	vocab := c11Vocabulary()
	// representatives for the pair table: one per class key
	reps := []gtok{}
	seen := map[string]bool{}
	for _, t := range vocab {
		k := classOf(t)
		if !seen[k] {
			seen[k] = true
			reps = append(reps, t)
		}
	}
	reps = append(reps, mkIdent("trueish"), mkIdent("falsey"), mkIdent("nilx"), mkIdent("format"), mkIdent("lenx"))
	c.Extra["pair_table_representatives"] = len(reps)
	add := func(key string, toks []gtok, seps []string) {
		for i := 0; i+1 < len(toks); i++ {
			if toks[i].class == "op" && (toks[i].text == "}" || toks[i].text == "++" || toks[i].text == "--") && (toks[i+1].class == "negnumber" || (toks[i+1].class == "op" && toks[i+1].text == "-")) {
				return // whether '}', '++' or '--' end an operand before '-' is not specified
			}
		}
		text, exp := c11Render(toks, seps)
		if !refAgrees(text, exp) {
			// the adjacency was not token-preserving: widen empty separators and retry once
			for i := range seps {
				if seps[i] == "" {
					seps[i] = " "
				}
			}
			text, exp = c11Render(toks, seps)
			if !refAgrees(text, exp) {
				c.Inconclusive("generated token list not reproduced by the reference lexer")
				if os.Getenv("VERIF_VERBOSE") != "" {
					fmt.Printf("NOTREPRO %s %q\n", key, text)
				}
				return
			}
			key += "+widened"
		}
		cases = append(cases, c11Case{key, text, exp})
	}
	// every single vocabulary member alone and followed by a newline
	for _, t := range vocab {
		add("single/"+classOf(t)+"/"+hexKey(t.text), []gtok{t}, nil)
		add("single-nl/"+classOf(t)+"/"+hexKey(t.text), []gtok{t, mkNL(false), mkIdent("z")}, []string{"", ""})
	}
	// all ordered pairs of representatives x separators, observed through a trailing identifier
	for _, a := range reps {
		for _, b := range reps {
			for _, sp := range c11Seps {
				if sp.text == "" && wordy(a) && wordy(b) {
					continue
				}
				if nonASCII(a.text) && !strings.Contains(sp.text, "\n") {
					// byte versus character columns are not specified: keep the rest of the line empty
					add(fmt.Sprintf("pair/%s/%s/nl", classOf(a), classOf(b)), []gtok{a, mkNL(false), b, mkIdent("end")}, []string{"", "", " "})
					continue
				}
				tl := []gtok{a, b, mkIdent("end")}
				if nonASCII(b.text) {
					tl = []gtok{a, b, mkNL(false), mkIdent("end")}
					add(fmt.Sprintf("pair/%s/%s/%s", classOf(a), classOf(b), sp.name), tl, []string{sp.text, "", ""})
					continue
				}
				add(fmt.Sprintf("pair/%s/%s/%s", classOf(a), classOf(b), sp.name), tl, []string{sp.text, " "})
			}
		}
	}
	// negative literals in operand-free positions, '-' after operands
	for _, before := range []string{"=", "(", ",", ":=", "==", "+", "-", "return", "[", "{", ":", "<", "&&", "*", "+=", "case"} {
		var bt gtok
		if _, ok := kwType[before]; ok {
			bt = mkKw(before)
		} else {
			bt = mkOp(before)
		}
		for _, sp := range []string{"", " "} {
			if sp == "" && wordy(bt) {
				continue
			}
			add(fmt.Sprintf("negative/after-%s/sep=%q", hexKey(before), sp), []gtok{mkIdent("x"), bt, mkNegNum("5"), mkOp(")"), mkIdent("e")}, []string{" ", sp, "", " "})
		}
	}
	// tokens far to the right and far down: columns beyond 16 and 17 bits (one long line made of a long literal, a
	// long comment or a long run of blanks), rows beyond 16 bits
	for _, w := range []int{255, 256, 32767, 32768, 65535, 65536, 70000, 131072} {
		add(fmt.Sprintf("far-right/after-literal/%d", w), []gtok{mkIdent("v"), mkOp("="), mkStr(strings.Repeat("d", w), 0), mkOp(")"), mkIdent("far"), mkNum("7")}, []string{" ", " ", "", " ", " "})
		add(fmt.Sprintf("far-right/after-blanks/%d", w), []gtok{mkIdent("v"), mkIdent("w"), mkOp("+"), mkNum("1")}, []string{strings.Repeat(" ", w), " ", ""})
		add(fmt.Sprintf("far-right/after-comment/%d", w), []gtok{mkIdent("v"), mkIdent("w"), mkNL(false), mkIdent("n")}, []string{"/*" + strings.Repeat("c", w) + "*/", "", ""})
	}
	for _, h := range []int{255, 256, 32768, 65535, 65536, 70000} {
		toks := []gtok{mkIdent("top")}
		seps := []string{}
		for i := 0; i < h; i++ {
			toks = append(toks, mkNL(false))
			seps = append(seps, "")
		}
		toks = append(toks, mkIdent("low"), mkOp("="), mkNum("1"))
		seps = append(seps, "", " ", " ")
		add(fmt.Sprintf("far-down/%d", h), toks, seps)
	}
	add("negative/at-start", []gtok{mkNegNum("12"), mkOp("+"), mkNum("1")}, []string{" ", " "})
	for _, before := range []gtok{mkIdent("a"), mkNum("3"), mkOp(")"), mkOp("]"), mkStr("s", 0), mkKw("true"), mkKw("nil")} {
		for _, sp := range [][2]string{{"", ""}, {" ", ""}, {"", " "}, {" ", " "}} {
			add(fmt.Sprintf("minus-after-operand/%s/%q%q", classOf(before), sp[0], sp[1]), []gtok{before, mkOp("-"), mkNum("1"), mkIdent("e")}, []string{sp[0], sp[1], " "})
		}
	}
	// line comments: before a newline and at end of file
	for _, a := range reps {
		if nonASCII(a.text) {
			continue
		}
		add("linecomment/after-"+classOf(a), []gtok{a, mkNL(false), mkIdent("b")}, []string{" // trailing \" ` /* comment", " "})
		add("linecomment/eof-after-"+classOf(a), []gtok{a}, []string{" // last"})
		add("linecomment/crlf-after-"+classOf(a), []gtok{a, mkNL(true), mkIdent("b")}, []string{"// c", ""})
	}
	// line comments without text, of blanks only, of slashes only: the comment ends at the line break, what follows is code
	for li, lc := range []string{"//", "// ", "//\t", "///", "////", "//  \t ", "// //", "//*", "///*"} {
		add(fmt.Sprintf("linecomment/textless/%d/own-line", li), []gtok{mkIdent("p"), mkNL(false), mkNL(false), mkIdent("q"), mkOp("="), mkNum("1"), mkNL(false), mkIdent("r")}, []string{"", lc, "", " ", " ", "", ""})
		add(fmt.Sprintf("linecomment/textless/%d/after-code", li), []gtok{mkIdent("p"), mkOp("="), mkNum("2"), mkNL(false), mkIdent("q"), mkNL(false), mkNL(false), mkIdent("r")}, []string{" ", " ", " " + lc, "", " " + lc, "", ""})
		add(fmt.Sprintf("linecomment/textless/%d/crlf", li), []gtok{mkIdent("p"), mkNL(true), mkIdent("q")}, []string{lc, ""})
		add(fmt.Sprintf("linecomment/textless/%d/eof", li), []gtok{mkIdent("p")}, []string{" " + lc})
	}
	// identifiers containing every digit at every place behind the first
	for d := 0; d <= 9; d++ {
		add(fmt.Sprintf("ident-digit/%d", d), []gtok{mkIdent(fmt.Sprintf("x%d", d)), mkIdent(fmt.Sprintf("a%db", d)), mkIdent(fmt.Sprintf("_%d%d", d, d)), mkIdent(fmt.Sprintf("n1%d", d)), mkNum(fmt.Sprintf("%d", d)), mkNum(fmt.Sprintf("1%d0", d))}, []string{" ", " ", " ", " ", " "})
	}
	// one literal body in both quote kinds in one text, in both orders: each is decoded by its own rules
	for bi, body := range []string{`\t`, `C:\new\temp`, `a\nb`, `\x41\x42`, `%d\n`, `\\`, `q\"q`, `plain`, `\u00e9`, `\101`} {
		val, err := strconv.Unquote(`"` + body + `"`)
		if err != nil || strings.Contains(body, "`") {
			continue
		}
		interp, raw := gtok{"string/same-body", `"` + body + `"`, val, lexer.STRING_LITERAL}, mkRaw(body)
		add(fmt.Sprintf("same-body-both-quotes/%d/interpreted-first", bi), []gtok{interp, mkOp("+"), raw, mkOp("+"), interp}, []string{" ", " ", " ", " "})
		add(fmt.Sprintf("same-body-both-quotes/%d/raw-first", bi), []gtok{raw, mkOp("+"), interp, mkOp("+"), raw}, []string{" ", " ", " ", " "})
		add(fmt.Sprintf("same-body-both-quotes/%d/on-two-lines", bi), []gtok{mkIdent("a"), mkOp("="), raw, mkNL(false), mkIdent("b"), mkOp("="), interp}, []string{" ", " ", "", "", " ", " "})
	}
	// two block comments with code between, comments spanning lines, rows after multi-line tokens
	multi := []string{"/* one */", "/* a\nb\nc */", "/**/", "/* * / */", "/*\n*/"}
	for i, m1 := range multi {
		for j, m2 := range multi {
			add(fmt.Sprintf("twocomments/%d/%d", i, j), []gtok{mkIdent("p"), mkIdent("x"), mkOp("="), mkNum("1"), mkIdent("q"), mkNL(false), mkIdent("r")}, []string{" " + m1 + " ", " ", " ", " " + m2 + " ", "", ""})
		}
	}
	// comment bodies made of the delimiters' own characters, quotes and line breaks
	for bi, body := range []string{"", "/", "//", "*", "**", "/ banner /", "/ x", "x /", "* /", "/*", "/* /*", "\"", "`", "'", "\n/", "/\n", "\n", "*\n*", "// x\n", " / * ", "/**", "a*b/c"} {
		cm := "/*" + body + "*/"
		for si, sp := range []string{"", " ", "\n"} {
			if sp == "\n" {
				add(fmt.Sprintf("commentbody/%d/own-line", bi), []gtok{mkIdent("p"), mkNL(false), mkIdent("q"), mkOp("="), mkNum("1")}, []string{"", cm + " ", " ", " "})
				continue
			}
			add(fmt.Sprintf("commentbody/%d/sep%d", bi, si), []gtok{mkIdent("p"), mkOp("+"), mkIdent("q"), mkNL(false), mkIdent("r")}, []string{sp + cm + sp, sp + cm + sp, " " + cm, ""})
		}
	}
	for _, raw := range []string{"one\ntwo", "\n", "a\n\n\nb", "l1\r\nl2", "x\n  y\n"} {
		for _, after := range []gtok{mkIdent("z"), mkOp("+"), mkStr("s", 0), mkNum("4")} {
			add(fmt.Sprintf("after-multiline-raw/%s/%s", hexKey(raw), classOf(after)), []gtok{mkIdent("v"), mkOp("="), mkRaw(raw), after, mkNL(false), mkIdent("n"), mkOp(":="), mkNum("2")}, []string{" ", " ", " ", "", "", " ", " "})
			add(fmt.Sprintf("after-multiline-raw-nl/%s/%s", hexKey(raw), classOf(after)), []gtok{mkRaw(raw), mkNL(false), after, mkOp("@")}, []string{"", "", " "})
		}
	}
	// random sequences
	r := rand.New(rand.NewSource(c.Seed*11000003 + 7))
	nrand := c.Pick(3000, 60000)
	for n := 0; n < nrand; n++ {
		ln := 5 + r.Intn(40)
		toks := []gtok{}
		seps := []string{}
		for i := 0; i < ln; i++ {
			var t gtok
			switch r.Intn(12) {
			case 0:
				t = mkNL(r.Intn(4) == 0)
			case 1, 2:
				t = vocab[r.Intn(len(vocab))]
			case 3, 4:
				t = mkIdent(c11Idents[r.Intn(len(c11Idents))])
			case 5:
				t = mkNum(c11Numbers[r.Intn(len(c11Numbers))])
			case 6:
				ct := c11StrContents[r.Intn(len(c11StrContents))]
				if r.Intn(3) == 0 && !strings.Contains(ct, "`") {
					t = mkRaw(ct)
				} else {
					t = mkStr(ct, r.Intn(4))
				}
			default:
				ops := []string{"(", ")", "[", "]", "{", "}", "==", "!=", "<=", ">=", "<", ">", "&&", "||", "+=", "-=", "*=", "/=", "%=", "=", ":=", "++", "--", "!", "+", "-", "*", "/", "%", ",", ":", ";", ".", "@", "|"}
				t = mkOp(ops[r.Intn(len(ops))])
			}
			if nonASCII(t.text) {
				// keep the rest of the line empty after non-ASCII text
				toks = append(toks, t, mkNL(false))
				seps = append(seps, "", []string{"", " ", "\t"}[r.Intn(3)])
				continue
			}
			toks = append(toks, t)
			sp := ""
			switch r.Intn(10) {
			case 0, 1, 2, 3:
				sp = " "
			case 4:
				sp = "\t"
			case 5:
				sp = c11Seps[r.Intn(len(c11Seps))].text
			case 6:
				if t.class == "newline" {
					sp = "\t\t"
				}
			}
			if i+1 < ln {
				seps = append(seps, sp)
			}
		}
		seps = seps[:len(toks)-1]
		// wordy neighbours need a separator
		for i := 0; i+1 < len(toks); i++ {
			if seps[i] == "" && wordy(toks[i]) && wordy(toks[i+1]) {
				seps[i] = " "
			}
		}
		add(fmt.Sprintf("random/seed=%d/n=%d", c.Seed, n), toks, seps)
	}
	return cases
}

func checkC11(c *Check) {
	c.Rule = "generated token lists rendered with chosen separators (none, blanks, tabs, block comments incl. multi-line, line comments, LF/CRLF): every vocabulary member alone, all ordered pairs of class representatives x 9 separators, negative-literal contexts, comment and multi-line-token position cases, random sequences of 5-45 tokens; expected (type, value, row, column) come from the generating list with positions counted by the renderer; the reference lexer must reproduce the list (else the case is inconclusive) and go/scanner is a second witness of positions on Go-compatible text; error cases: unterminated strings/comments and bytes outside the grammar. Non-trivial = at least 2 significant tokens; distinct = SHA-256 of the text"
	c.Assumptions = []string{"columns are byte offsets + 1 (as go/scanner counts); lines after non-ASCII text are left empty so that byte/character columns coincide", "'-' directly followed by a digit is a negative literal only where no operand precedes", "string values are strconv.Unquote of the literal"}
	runProbes(c, bashProbeJudge)
	cases := c11Cases(c)
	selfcheckOK, selfcheckN := 0, 0
	for i, cs := range cases {
		c.Eval(cs.text, len(cs.exp) > 2)
		if comparable, agrees, detail := goScannerAgrees(cs.text, cs.exp); comparable {
			selfcheckN++
			if !agrees {
				fmt.Printf("INCONCLUSIVE oracle-self-check: %s: %s\ntext: %q\n", cs.key, detail, cs.text)
				c.Inconclusive("oracle disagrees with go/scanner")
				continue
			}
			selfcheckOK++
		}
		ok, detail := c11Compare(cs.text, cs.exp)
		if !ok {
			c.Violation(c11Key(cs.key), detail+"; text="+strconv.Quote(clip(cs.text, 200)), map[string]string{"input.tsh": cs.text, "detail.txt": detail})
		} else if i%4001 == 3 {
			c.Sample(map[string]interface{}{"key": cs.key, "text": cs.text, "tokens": len(cs.exp)})
		}
	}
	c.Extra["go_scanner_cross_checked"] = selfcheckN
	c.Extra["go_scanner_agreed"] = selfcheckOK
	// error cases
	errTexts := map[string]string{
		"unterminated-dq": `x := "abc`, "unterminated-dq-newline": "x := \"abc\ny := 1\n", "unterminated-raw": "x := `abc\n", "unterminated-escape": `x := "abc\"`,
		"hash": "x := 1 # c", "dollar": "x := $y", "question": "x ? y", "tilde": "~x", "backslash": `x \ y`, "single-quote": "x := 'a'", "nul": "x\x00y", "high-byte": "x \x80 y",
		"caret": "x ^ y", "lone-amp": "x & y", "unterminated-block-comment": "x /* never closed", "unterminated-comment-slash": "/*/", "unterminated-comment-slash-2": "x /*/ y", "unterminated-comment-star": "x /** y", "unterminated-comment-star-slash-apart": "x /* * / y", "utf8-identifier": "é := 1",
	}
	// characters outside ASCII are not part of the token grammar outside string literals and comments, whatever
	// their bytes look like one by one (in Latin-1 many of those bytes are letters)
	for _, r := range []rune("¡¢£¤¥¦§¨©ª«¬®¯°±²³´µ¶·¸¹º»¼½¾¿ÀÁÂÃÄÅÆÇÈÉÊËÌÍÎÏÐÑÒÓÔÕÖ×ØÙÚÛÜÝÞßàáâãäåæçèéêëìíîïðñòóôõö÷øùúûüýþÿĀłŒšžƒαβγλπωЖяאبあ日本€‐–—…™") {
		ch := string(r)
		errTexts[fmt.Sprintf("non-ascii/U+%04X/in-identifier", r)] = "men" + ch + " := 3"
		errTexts[fmt.Sprintf("non-ascii/U+%04X/alone", r)] = "x := 1\n" + ch + "\n"
		errTexts[fmt.Sprintf("non-ascii/U+%04X/after-number", r)] = "x := 1" + ch
		errTexts[fmt.Sprintf("non-ascii/U+%04X/identifier-start", r)] = ch + "s := 250"
	}
	// bytes that look like white space to some library functions but are neither blank, tab nor line break of
	// this grammar: between tokens, at the start, at the end, next to a real blank
	for _, b := range []byte{0x0b, 0x0c, 0x85, 0xa0, 0x1c, 0x1d, 0x1e, 0x1f, 0x08, 0x07, 0x1b, 0x7f, 0x01} {
		ch := string([]byte{b})
		errTexts[fmt.Sprintf("odd-space/%02x/between-tokens", b)] = "x :=" + ch + "1"
		errTexts[fmt.Sprintf("odd-space/%02x/next-to-blank", b)] = "x := " + ch + " 1"
		errTexts[fmt.Sprintf("odd-space/%02x/line-start", b)] = "x := 1\n" + ch + "y := 2\n"
		errTexts[fmt.Sprintf("odd-space/%02x/line-end", b)] = "x := 1" + ch + "\ny := 2\n"
		errTexts[fmt.Sprintf("odd-space/%02x/last-byte", b)] = "x := 1" + ch
	}
	for _, r := range []rune{0x85, 0xa0, 0x1680, 0x2000, 0x2003, 0x2028, 0x2029, 0x202f, 0x205f, 0x3000, 0xfeff} {
		errTexts[fmt.Sprintf("odd-space/U+%04X/between-tokens", r)] = "x :=" + string(r) + "1"
		errTexts[fmt.Sprintf("odd-space/U+%04X/line-start", r)] = string(r) + "x := 1\n"
	}
	errTexts["odd-space/lone-cr-between-tokens"] = "x :=\r1\n"
	errTexts["odd-space/lone-cr-line-start"] = "x := 1\n\ry := 2\n"
	for k, txt := range errTexts {
		c.Eval(txt, true)
		_, err := lexer.Tokenize(txt)
		if err == nil {
			c.Violation("error/"+k, "Tokenize accepted a text outside the grammar: "+strconv.Quote(txt), map[string]string{"input.tsh": txt})
		} else if err.Error() == "" {
			c.Violation("error/"+k, "empty error", map[string]string{"input.tsh": txt})
		}
	}
	c.Extra["error_cases"] = len(errTexts)
}

// c11Key strips the per-case suffix so that known-finding cell patterns stay narrow and stable.
func c11Key(k string) string { return k }
