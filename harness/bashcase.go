package main

import (
	"fmt"
	"os"
	"path/filepath"
	"sort"
	"strings"
	"time"
)

// A BashCase is one generated program together with how it is to be judged.
type BashCase struct {
	Key   string // generator path or cell key
	Prog  *Program
	Stdin string
	// NonTrivial decides whether the case counts towards distinct_nontrivial.
	NonTrivial  func(r Result) bool
	PreFiles    map[string]string // files present in the sandbox (and the model file system) before the run
	PreDirs     []string
	CheckFS     bool // compare the complete sandbox file system with the model afterwards
	AppHook     func(stages [][]string, fs map[string][]byte) (string, int)
	Tools       map[string]string // extra executables to install in the sandbox (name -> absolute source path)
	PathSandbox bool              // put the sandbox directory first in PATH
	MayReject   bool              // the form is not known to be part of the accepted language: a rejection discards the case
}

type caseOutcome int

const (
	outcomeHeld caseOutcome = iota
	outcomeViolated
	outcomeDiscarded
	outcomeInconclusive
)

const interpBudget = 20000

// judgeBash runs one case end to end: reference interpreter -> real Transpile
// -> real /bin/bash -> comparison. It reports violations on c.
func judgeBash(c *Check, bc BashCase) caseOutcome {
	it := &Interp{Width: 64, MaxSteps: interpBudget, prog: bc.Prog, FS: map[string][]byte{}, Dirs: map[string]bool{}}
	for n, s := range bc.PreFiles {
		it.FS[n] = []byte(s)
	}
	for _, d := range bc.PreDirs {
		it.Dirs[d] = true
	}
	if bc.Stdin != "" {
		it.Stdin = strings.Split(strings.TrimSuffix(bc.Stdin, "\n"), "\n")
	}
	if bc.AppHook != nil {
		it.AppHook = func(stages [][]string) (string, int) { return bc.AppHook(stages, it.FS) }
	}
	ref := it.Run()
	if ref.Undefined != "" {
		if strings.HasPrefix(ref.Undefined, "interpreter:") {
			fatalf("oracle fault on %s: %s\n%s", bc.Key, ref.Undefined, RenderFile(bc.Prog.Files[0]))
		}
		if !strings.Contains(bc.Key, "random/") {
			c.mu.Lock()
			l, _ := c.Extra["enumerated_cases_discarded_as_undefined"].([]string)
			if len(l) < 60 {
				c.Extra["enumerated_cases_discarded_as_undefined"] = append(l, bc.Key+": "+ref.Undefined)
			}
			c.mu.Unlock()
		}
		c.Discard()
		return outcomeDiscarded
	}
	dir := newSandbox()
	defer os.RemoveAll(dir)
	mainPath, srcs := WriteProgram(dir, bc.Prog)
	tr := TranspileFile(mainPath, Bash, 30*time.Second)
	files := map[string]string{}
	for n, s := range srcs {
		files[n] = s
	}
	files["expected.stdout"] = ref.Stdout
	files["expected.exit"] = fmt.Sprint(ref.Exit)
	nontrivial := true
	if bc.NonTrivial != nil {
		nontrivial = bc.NonTrivial(ref)
	}
	id := srcs[bc.Prog.Files[0].Name]
	if len(bc.Prog.Files) > 1 {
		for _, n := range sortedKeys(srcs) {
			id += "\x00" + n + "\x00" + srcs[n]
		}
	}
	id += "\x00" + bc.Stdin
	for _, n := range sortedKeys(bc.PreFiles) {
		id += "\x00" + n + "\x00" + bc.PreFiles[n]
	}
	c.Eval(id, nontrivial)
	c.AddFeats(ref.Features)
	if tr.Hang {
		c.Violation(bc.Key, "Transpile did not return within 30s for a well-typed program", files)
		return outcomeViolated
	}
	if tr.Panic != "" {
		files["panic.txt"] = tr.Panic
		c.Violation(bc.Key, "Transpile panicked on a well-typed program: "+firstLine(tr.Panic), files)
		return outcomeViolated
	}
	if tr.Err != nil && bc.MayReject {
		c.Count("may_reject_cases_rejected", 1)
		c.Discard()
		return outcomeDiscarded
	}
	if tr.Err != nil {
		c.Violation(bc.Key, "well-typed program rejected: "+stripDir(tr.Err.Error(), dir), files)
		return outcomeViolated
	}
	files["script.sh"] = tr.Script
	// run in a fresh sandbox so that source files are not visible to the script
	run := newSandbox()
	defer os.RemoveAll(run)
	for n, s := range bc.PreFiles {
		full := filepath.Join(run, n)
		os.MkdirAll(filepath.Dir(full), 0o755)
		os.WriteFile(full, []byte(s), 0o644)
	}
	for _, d := range bc.PreDirs {
		os.MkdirAll(filepath.Join(run, d), 0o755)
	}
	ignore := []string{}
	for n, src := range bc.Tools {
		// a symlink, not a copy: writing an executable while other goroutines fork would race into ETXTBSY
		os.MkdirAll(filepath.Dir(filepath.Join(run, n)), 0o755)
		os.Symlink(src, filepath.Join(run, n))
		ignore = append(ignore, filepath.Clean(n))
	}
	ro := RunOpts{Stdin: bc.Stdin, Timeout: 6 * time.Second, Snap: bc.CheckFS, Ignore: ignore}
	if bc.PathSandbox {
		ro.Path = run + ":/usr/bin:/bin"
	}
	rr := RunBash(run, tr.Script, ro)
	if rr.TimedOut || rr.Capped {
		// decide on logical steps, not on wall time; confirm at most a few per run
		if c.bumpNonterm() > 8 {
			c.Inconclusive("non-termination suspected, confirmation skipped (8 already confirmed in this run)")
			return outcomeInconclusive
		}
		run2 := newSandbox()
		defer os.RemoveAll(run2)
		limit := 100*ref.Steps + 5000
		r2 := RunBashStepLimited(run2, tr.Script, limit, RunOpts{Stdin: bc.Stdin})
		if r2.Exit == 97 {
			files["observed.stdout"] = clip(rr.Stdout, 4000)
			c.Violation(bc.Key, fmt.Sprintf("script does not terminate: exceeded %d shell steps where the reference needs %d interpreter steps", limit, ref.Steps), files)
			return outcomeViolated
		}
		c.Inconclusive("bash watchdog without step-limit confirmation")
		return outcomeInconclusive
	}
	files["observed.stdout"] = rr.Stdout
	files["observed.stderr"] = rr.Stderr
	files["observed.exit"] = fmt.Sprint(rr.Exit)
	problems := []string{}
	if rr.Stdout != ref.Stdout {
		problems = append(problems, "stdout differs: "+firstDiff(ref.Stdout, rr.Stdout))
	}
	if rr.Exit != ref.Exit {
		problems = append(problems, fmt.Sprintf("exit status %d, expected %d", rr.Exit, ref.Exit))
	}
	if rr.Stderr != "" {
		problems = append(problems, "stderr not empty: "+oneLine(stripDir(rr.Stderr, run)))
	}
	if bc.CheckFS && !rr.TimedOut {
		want := map[string]string{}
		for n, b := range ref.FS {
			n = filepath.Clean(n)
			want[n] = string(b)
			for d := filepath.Dir(n); d != "." && d != "/"; d = filepath.Dir(d) {
				want[d+"/"] = ""
			}
		}
		for _, d := range bc.PreDirs {
			want[d+"/"] = ""
		}
		for _, n := range sortedKeys(want) {
			got, ok := rr.Files[n]
			if !ok {
				problems = append(problems, fmt.Sprintf("file %q missing after the run", n))
			} else if got != want[n] {
				problems = append(problems, fmt.Sprintf("file %q holds %q, expected %q", n, clip(got, 80), clip(want[n], 80)))
			}
		}
		for _, n := range sortedKeys(rr.Files) {
			if _, ok := want[n]; !ok {
				problems = append(problems, fmt.Sprintf("unexpected file %q created (content %q)", n, clip(rr.Files[n], 60)))
			}
		}
	}
	if len(problems) > 0 {
		c.Violation(bc.Key, strings.Join(problems, "; "), files)
		return outcomeViolated
	}
	c.Count("output_lines_compared", strings.Count(ref.Stdout, "\n"))
	c.Count("exit_status_"+fmt.Sprint(ref.Exit), 1)
	c.Sample(map[string]interface{}{"key": bc.Key, "source": clip(srcs[bc.Prog.Files[0].Name], 1500), "expected_stdout": clip(ref.Stdout, 400), "exit": ref.Exit, "script_excerpt": clip(tr.Script, 600)})
	return outcomeHeld
}

func firstLine(s string) string {
	if i := strings.IndexByte(s, '\n'); i >= 0 {
		return s[:i]
	}
	return s
}

func stripDir(s, dir string) string {
	s = strings.ReplaceAll(s, dir+"/", "")
	return strings.ReplaceAll(s, dir, ".")
}

func firstDiff(want, got string) string {
	wl := strings.Split(want, "\n")
	gl := strings.Split(got, "\n")
	for i := 0; i < len(wl) || i < len(gl); i++ {
		var w, g string
		if i < len(wl) {
			w = wl[i]
		} else {
			w = "<eof>"
		}
		if i < len(gl) {
			g = gl[i]
		} else {
			g = "<eof>"
		}
		if w != g {
			return fmt.Sprintf("line %d: expected %q, got %q", i+1, clip(w, 120), clip(g, 120))
		}
	}
	return "no difference"
}

// runBashCases judges all cases in parallel and returns per-outcome counts.
func runBashCases(c *Check, cases []BashCase) map[caseOutcome]int {
	counts := make([]caseOutcome, len(cases))
	parallelDo(len(cases), 16, func(i int) {
		counts[i] = judgeBash(c, cases[i])
	})
	m := map[caseOutcome]int{}
	for _, o := range counts {
		m[o]++
	}
	return m
}

// runProbes runs the witness programs attached to known / fixed findings.
// A failing probe of a "known" finding prints KNOWN-FINDING; of a "fixed"
// finding it is a violation (the defect returned).
func runProbes(c *Check, judge func(pr Probe) (ok bool, detail string, files map[string]string)) {
	for _, f := range c.findings {
		for _, pr := range f.Probes {
			ok, detail, files := judge(pr)
			key := "probe/" + f.ID + "/" + pr.Name
			c.Eval(key, true)
			if ok {
				if f.Status == "known" {
					c.Count("known_finding_probes_no_longer_reproducing", 1)
				}
				continue
			}
			if f.Status == "known" {
				c.mu.Lock()
				c.knownHits[f.ID]++
				if _, has := c.knownExample[f.ID]; !has {
					c.knownExample[f.ID] = pr.Name + ": " + detail
				}
				c.mu.Unlock()
			} else {
				c.Violation(key, "fixed finding reproduces again: "+detail, files)
			}
		}
	}
}

// bashProbeJudge judges a probe by running it through Transpile + bash.
func bashProbeJudge(pr Probe) (bool, string, map[string]string) {
	if pr.Target == "reject" || pr.Target == "accept" {
		a, b, dir := transpileBoth(pr.Files["main.tsh"], pr.Files)
		va, vb := verdictOf(a), verdictOf(b)
		files := map[string]string{}
		for n, s := range pr.Files {
			files[n] = s
		}
		if va != pr.Target || vb != pr.Target {
			d := ""
			if a.Err != nil {
				d = stripDir(a.Err.Error(), dir)
			}
			return false, fmt.Sprintf("expected %s, got bash=%s batch=%s %s", pr.Target, va, vb, d), files
		}
		return true, "", files
	}
	dir := newSandbox()
	defer os.RemoveAll(dir)
	files := map[string]string{}
	for n, s := range pr.Files {
		files[n] = s
	}
	mainPath := WriteSources(dir, pr.Files, "main.tsh")
	tr := TranspileFile(mainPath, Bash, 30*time.Second)
	if !tr.OK() {
		msg := "transpile failed"
		if tr.Err != nil {
			msg = stripDir(tr.Err.Error(), dir)
		} else if tr.Panic != "" {
			msg = "panic: " + firstLine(tr.Panic)
		} else if tr.Hang {
			msg = "hang"
		}
		return false, msg, files
	}
	files["script.sh"] = tr.Script
	run := newSandbox()
	defer os.RemoveAll(run)
	for n, s := range pr.Files {
		if !strings.HasSuffix(n, ".tsh") {
			os.WriteFile(filepath.Join(run, n), []byte(s), 0o644)
		}
	}
	rr := RunBash(run, tr.Script, RunOpts{Stdin: pr.Stdin, Timeout: 5 * time.Second})
	if rr.TimedOut {
		// wall time is no verdict on a loaded machine: decide on logical steps in a fresh sandbox
		verdict, r2 := DecideTimeout(tr.Script, 400000, RunOpts{Stdin: pr.Stdin}, func() string {
			d := newSandbox()
			for n, s := range pr.Files {
				if !strings.HasSuffix(n, ".tsh") {
					os.WriteFile(filepath.Join(d, n), []byte(s), 0o644)
				}
			}
			return d
		})
		if verdict == "finished" {
			rr = r2
		} else if verdict == "inconclusive" {
			return true, "", files // no verdict: the probe neither reproduces nor fails
		}
	}
	files["observed.stdout"] = clip(rr.Stdout, 4000)
	files["observed.stderr"] = rr.Stderr
	if rr.TimedOut || rr.Capped {
		return false, "script did not terminate", files
	}
	if rr.Stdout != pr.Stdout || rr.Exit != pr.Exit || rr.Stderr != "" {
		return false, fmt.Sprintf("stdout %q exit %d stderr %q; expected stdout %q exit %d", clip(rr.Stdout, 200), rr.Exit, clip(rr.Stderr, 200), pr.Stdout, pr.Exit), files
	}
	return true, "", files
}

func topFeatures(m map[string]int, n int) []string {
	ks := featureKeys(m)
	sort.Slice(ks, func(i, j int) bool { return m[ks[i]] > m[ks[j]] })
	if len(ks) > n {
		ks = ks[:n]
	}
	return ks
}

// oracleSelfCheck runs the Go-toolchain self-check on a sample of this run's
// programs; a disagreement is an oracle fault (exit 2), never a violation.
func oracleSelfCheck(c *Check, cases []BashCase, max int) {
	progs := []*Program{}
	step := len(cases)/max + 1
	for i := 0; i < len(cases); i += step {
		progs = append(progs, cases[i].Prog)
	}
	compared, problems := GoSelfCheck(progs)
	c.Extra["oracle_self_check_go_toolchain"] = map[string]int{"programs_compared": compared, "disagreements": len(problems)}
	if len(problems) > 0 {
		for i, p := range problems {
			if i < 3 {
				fmt.Println("INCONCLUSIVE oracle-self-check:", p)
			}
		}
		cleanupScratch()
		os.Exit(2)
	}
}
