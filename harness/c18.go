package main

import (
	"encoding/hex"
	"fmt"
	"math/rand"
	"os"
	"path/filepath"
	"sort"
	"strconv"
	"strings"
)

func init() { register("C18", checkC18) }

func probePath() string {
	exe, _ := os.Executable()
	return filepath.Join(filepath.Dir(exe), "probe")
}

// c18Hook is the model of the probe programs (see probe/main.go).
func c18Hook(stages [][]string, fs map[string][]byte) (string, int) {
	data := ""
	code := 0
	for _, st := range stages {
		name := filepath.Base(st[0])
		args := st[1:]
		rec := []string{"ARGV"}
		for _, a := range args {
			rec = append(rec, "x"+hex.EncodeToString([]byte(a)))
		}
		key := "log." + strings.ReplaceAll(name, " ", "_")
		fs[key] = append(fs[key], []byte(strings.Join(rec, " ")+"\n")...)
		code = 0
		switch {
		case strings.HasPrefix(name, "p_say"):
			data = ""
			if len(args) > 0 {
				b, _ := hex.DecodeString(args[0])
				data = string(b)
			}
			if len(args) > 1 {
				code, _ = strconv.Atoi(args[1])
			}
		case strings.HasPrefix(name, "p_tag"):
			tag := strings.TrimPrefix(name, "p_tag")
			if i := strings.IndexAny(tag, " ."); i >= 0 {
				tag = tag[:i]
			}
			out := ""
			rest := data
			for len(rest) > 0 {
				i := strings.IndexByte(rest, '\n')
				if i < 0 {
					out += tag + ":" + rest
					break
				}
				out += tag + ":" + rest[:i+1]
				rest = rest[i+1:]
			}
			data = out
			if len(args) > 0 {
				code, _ = strconv.Atoi(args[0])
			}
		default:
			data = ""
		}
	}
	return data, code
}

type c18Builder struct {
	pre   map[string]string
	stmts []Stmt
	n     int
	tools map[string]bool
}

func newC18() *c18Builder {
	return &c18Builder{pre: map[string]string{}, tools: map[string]bool{}}
}

// arg yields an expression for value v in the given form.
func (b *c18Builder) arg(v string, form string) (Expr, bool) {
	rt := func() Expr {
		b.n++
		fn := fmt.Sprintf("arg%d.dat", b.n)
		b.pre[fn] = v + "\n"
		vn := fmt.Sprintf("a%d", b.n)
		b.stmts = append(b.stmts, def(vn, Read{sl(fn)}))
		return vr(vn)
	}
	switch form {
	case "literal":
		if !literalSafe(v) {
			return nil, false
		}
		return StrLit{V: v}, true
	case "variable":
		if literalSafe(v) {
			b.n++
			vn := fmt.Sprintf("a%d", b.n)
			b.stmts = append(b.stmts, def(vn, StrLit{V: v}))
			return vr(vn), true
		}
		if strings.HasSuffix(v, "\n") {
			return nil, false
		}
		return rt(), true
	case "runtime":
		if strings.HasSuffix(v, "\n") {
			return nil, false
		}
		return rt(), true
	case "concat":
		if len(v) < 2 || strings.HasSuffix(v, "\n") {
			return nil, false
		}
		// second half arrives at run time, first half as a literal when possible
		h := len(v) / 2
		var left Expr
		if literalSafe(v[:h]) {
			left = StrLit{V: v[:h]}
		} else {
			save := v
			v = save[:h]
			if strings.HasSuffix(v, "\n") {
				return nil, false
			}
			left = rt()
			v = save
		}
		save := v
		v = save[h:]
		right := rt()
		v = save
		return bin("+", left, right), true
	case "call":
		if strings.HasSuffix(v, "\n") {
			return nil, false
		}
		return call("ident", rt()), true
	}
	panic("c18 form")
}

func (b *c18Builder) program(extra ...Stmt) *Program {
	stmts := []Stmt{fn("ident", []Param{{"p", TString}}, []Type{TString}, ret(vr("p")))}
	stmts = append(stmts, b.stmts...)
	stmts = append(stmts, extra...)
	return SingleFile(stmts)
}

func (b *c18Builder) finish(key string, extra ...Stmt) BashCase {
	tools := map[string]string{}
	for t := range b.tools {
		tools[t] = probePath()
	}
	return BashCase{Key: key, Prog: b.program(extra...), PreFiles: b.pre, CheckFS: true, Tools: tools, AppHook: c18Hook, PathSandbox: true}
}

func stage(b *c18Builder, name string, args ...Expr) AppStage {
	b.tools[name] = true
	return AppStage{Name: name, Args: args}
}

func hx(s string) Expr { return sl(hex.EncodeToString([]byte(s))) }

func checkC18(c *Check) {
	c.Rule = "probe programs installed in the sandbox record argc/argv (hex) per invocation, act as tagged filters and produce requested output/status; cells: argument value (C08 payloads, every printable character, blanks, empty) x position (sole, first, last, middle) x form (literal, variable, run-time value, concatenation, call result), glob patterns with matching files present in the working directory, empty strings at every position of 0-5 arguments, program named by identifier or by string literal, pipelines of 1-3 stages with tagged filters, capture of outputs with 0-3 trailing newlines, inner blank lines and white space at the end that is not the trailing newline, computed arguments with an effect in every stage (evaluation order over the chain), statuses {0,1,2,7,126,127,255} on last and non-last stages, statement versus capture form, inside functions; one call site executed five times in a loop / function with shrinking outputs and changing statuses; composite programs of 2-6 calls with random pipelines, arguments, outputs, statuses and placements (branch, loop, function); oracle = model of the probes (expected argv logs as files, expected stdout and captured value/status) plus the sandbox snapshot (a redirect from data shows as a stray file). Non-trivial = at least one command executed; distinct = SHA-256 of source + files"
	c.Assumptions = []string{"literal spellings of \" $ ` \\ avoided (C08 finding); such values arrive at run time", "exit status of a pipeline = status of its last command"}
	runProbes(c, bashProbeJudge)
	nontrivial := func(r Result) bool { return r.Features["appcall"]+r.Features["appcallstmt"] > 0 }
	cases := []BashCase{}
	r := rand.New(rand.NewSource(c.Seed*18000041 + 13))
	add := func(bc BashCase) {
		bc.NonTrivial = nontrivial
		cases = append(cases, bc)
	}
	values := map[string]string{}
	for k, v := range c08Payloads {
		if !strings.Contains(v, "\n") {
			values["payload-"+k] = v
		}
	}
	for ch := byte(0x20); ch < 0x7f; ch++ {
		values[fmt.Sprintf("only-c%02x", ch)] = string(ch)
		values[fmt.Sprintf("char-c%02x", ch)] = "a" + string(ch) + "c"
	}
	values["plain"] = "word"
	values["inner-newline"] = "l1\nl2"
	values["tab"] = "a\tb"
	// white space next to a line break inside one argument: a value spans several physical lines of the emitted script,
	// where a pass over the script text (trimming line ends, re-indenting) meets it
	for k, v := range map[string]string{"blank-before": "a \nb", "tab-before": "a\t\nb", "only-blank-before": " \ny", "blank-after": "a\n b", "tab-after": "a\n\tb",
		"blank-lines-between": "l1  \n\n  l3", "blanks-both-ends-of-lines": " a \n b ", "cr-before": "a\r\nb"} {
		values["ws-newline-"+k] = v
	}
	vnames := sortedKeys(func() map[string]string {
		m := map[string]string{}
		for k := range values {
			m[k] = ""
		}
		return m
	}())
	forms := []string{"literal", "variable", "runtime", "concat", "call"}
	for _, vn := range vnames {
		v := values[vn]
		for _, form := range forms {
			for _, pos := range []string{"sole", "first", "last", "middle"} {
				if !c.Thorough() && r.Intn(5) != 0 && !strings.HasPrefix(vn, "ws-newline-") {
					continue
				}
				b := newC18()
				a, ok := b.arg(v, form)
				if !ok {
					continue
				}
				var args []Expr
				switch pos {
				case "sole":
					args = []Expr{a}
				case "first":
					args = []Expr{a, sl("k2")}
				case "last":
					args = []Expr{sl("k1"), a}
				default:
					args = []Expr{sl("k1"), a, sl("k3")}
				}
				key := fmt.Sprintf("arg/%s/%s/%s", vn, pos, form)
				if (len(vn)+len(form))%2 == 0 {
					add(b.finish(key, ExprStmt{AppCall{[]AppStage{stage(b, "p_rec", args...)}}}, pr(sl("done"))))
				} else {
					// the same argument list in a captured call
					add(b.finish(key+"/captured", VarDecl{Names: []string{"o", "e", "code"}, Short: true, Values: []Expr{AppCall{[]AppStage{stage(b, "p_rec", args...)}}}}, pr(framed(vr("o")), vr("code")), pr(sl("done"))))
				}
			}
		}
	}
	// characters that are special to formatting layers between source and script (%), always in captured calls too
	for vi, v := range []string{"%", "a%c", "100%s", "%d items", "%%", "a%", "%!", "%[1]s", "50%%off", "%x%y"} {
		for _, capture := range []bool{false, true} {
			b := newC18()
			a, _ := b.arg(v, "literal")
			a2, _ := b.arg(v, "variable")
			st := stage(b, "p_rec", a, sl("mid"), a2)
			if capture {
				add(b.finish(fmt.Sprintf("format-characters/%d/captured", vi), VarDecl{Names: []string{"o", "e", "code"}, Short: true, Values: []Expr{AppCall{[]AppStage{st}}}}, pr(framed(vr("o")), vr("code"))))
			} else {
				add(b.finish(fmt.Sprintf("format-characters/%d/statement", vi), ExprStmt{AppCall{[]AppStage{st}}}, pr(sl("done"))))
			}
		}
	}
	// glob patterns that DO match: files a, b, ab, c.txt, k1 exist in the working directory, so an argument
	// that reaches the shell unquoted changes value and count
	for gi, g := range []string{"[ab]", "?", "*", "a*", "[a-c]", "?b", "{a,b}", "~", "a\\b", "^a", "[!a]", "*.txt", "./*", "[ab]*", "k?", "[[:alpha:]]", "a?", "\\*"} {
		for _, form := range forms {
			for _, pos := range []string{"sole", "middle"} {
				b := newC18()
				for _, fnm := range []string{"a", "b", "ab", "c.txt", "k1"} {
					b.pre[fnm] = "content of " + fnm + "\n"
				}
				a, ok := b.arg(g, form)
				if !ok {
					continue
				}
				args := []Expr{a}
				if pos == "middle" {
					args = []Expr{sl("k1"), a, sl("k3")}
				}
				add(b.finish(fmt.Sprintf("glob-with-matches/%d/%s/%s", gi, pos, form), ExprStmt{AppCall{[]AppStage{stage(b, "p_rec", args...)}}}, pr(sl("done"))))
				// the same in a captured two-stage chain inside a function
				if pos == "sole" {
					b2 := newC18()
					for _, fnm := range []string{"a", "b", "ab", "c.txt", "k1"} {
						b2.pre[fnm] = "content of " + fnm + "\n"
					}
					a2, _ := b2.arg(g, form)
					body := []Stmt{VarDecl{Names: []string{"o", "e", "st"}, Short: true, Values: []Expr{AppCall{[]AppStage{stage(b2, "p_rec", a2), stage(b2, "p_rec2", sl("second"), a2)}}}}, pr(framed(vr("o")), vr("st"))}
					add(b2.finish(fmt.Sprintf("glob-with-matches/%d/chain-in-func/%s", gi, form), fn("run", nil, nil, body...), callS("run")))
				}
			}
		}
	}
	// empty strings and argument counts
	for n := 0; n <= 5; n++ {
		for mask := 0; mask < 1<<n; mask++ {
			if n == 5 && !c.Thorough() && mask%5 != 0 {
				continue
			}
			b := newC18()
			args := []Expr{}
			desc := ""
			for i := 0; i < n; i++ {
				if mask>>i&1 == 1 {
					if i%2 == 0 {
						args = append(args, sl(""))
					} else {
						b.stmts = append(b.stmts, VarDecl{Names: []string{fmt.Sprintf("e%d", i)}, Type: TString})
						args = append(args, vr(fmt.Sprintf("e%d", i)))
					}
					desc += "E"
				} else {
					args = append(args, sl(fmt.Sprintf("v%d", i)))
					desc += "v"
				}
			}
			add(b.finish(fmt.Sprintf("empty-args/n=%d/%s", n, desc+"_"), ExprStmt{AppCall{[]AppStage{stage(b, "p_rec", args...)}}}, pr(sl("done"))))
		}
	}
	// program names
	for _, nm := range []struct {
		key, name string
		lit       bool
	}{{"identifier", "p_rec", false}, {"literal-plain", "p_rec", true}, {"literal-dot-slash", "./p_rec", true}, {"literal-subdir", "bin/p_rec", true}, {"literal-with-blank", "./p_rec two", true}, {"literal-dash", "./-p_rec", true}} {
		b := newC18()
		tool := filepath.Base(nm.name)
		st := AppStage{Name: nm.name, NameLit: nm.lit, Args: []Expr{sl("a"), sl("b c")}}
		bc := b.finish("progname/"+nm.key, ExprStmt{AppCall{[]AppStage{st}}}, VarDecl{Names: []string{"o", "e", "code"}, Short: true, Values: []Expr{AppCall{[]AppStage{st}}}}, pr(framed(vr("o")), vr("code")))
		if strings.Contains(nm.name, "/") && filepath.Dir(nm.name) != "." {
			bc.PreDirs = []string{filepath.Dir(nm.name)}
			bc.Tools[nm.name] = probePath()
		} else {
			bc.Tools[tool] = probePath()
		}
		add(bc)
	}
	// program paths holding characters the shell gives a meaning to: the program of exactly that name runs, once, with
	// the arguments given; nothing else runs (a decoy p_rec2 would leave its own log), no file appears
	for mi, meta := range []string{";", "&", "|", ">", "<", "(", ")", "*", "?", "[a]", "{a,b}", "~", "#", "'", "!", "=", "\t", "&&", ";p_rec2;", ">out", "|p_rec2"} {
		for _, capture := range []bool{false, true} {
			b := newC18()
			name := "./p_rec" + meta + "z"
			st := AppStage{Name: name, NameLit: true, Args: []Expr{sl("a"), sl("b c")}}
			var body []Stmt
			if capture {
				body = []Stmt{VarDecl{Names: []string{"o", "e", "code"}, Short: true, Values: []Expr{AppCall{[]AppStage{st}}}}, pr(framed(vr("o")), vr("code"))}
			} else {
				body = []Stmt{ExprStmt{AppCall{[]AppStage{st}}}, pr(sl("done"))}
			}
			bc := b.finish(fmt.Sprintf("progname-meta/%d/%s/capture=%v", mi, hexKey(meta), capture), body...)
			bc.Tools[filepath.Base(name)] = probePath()
			bc.Tools["p_rec2"] = probePath()
			bc.Tools["p_rec"] = probePath()
			add(bc)
		}
	}
	// a program given by a path is run from that path and from nowhere else: the working directory is not in
	// PATH here, and PATH holds another program of the same base name that records under another name
	for _, nm := range []struct{ key, name, dir string }{{"dot-slash", "./p_rec", ""}, {"dot-slash-subdir", "./bin/p_rec", "bin"}, {"subdir", "bin/p_rec", "bin"}, {"parent-hop", "bin/../p_rec", "bin"}, {"double-slash", ".//p_rec", ""}, {"dot-inside", "bin/./p_rec", "bin"}} {
		for _, capture := range []bool{false, true} {
			b := newC18()
			st := AppStage{Name: nm.name, NameLit: true, Args: []Expr{sl("a"), sl("b c")}}
			var body []Stmt
			if capture {
				body = []Stmt{VarDecl{Names: []string{"o", "e", "code"}, Short: true, Values: []Expr{AppCall{[]AppStage{st}}}}, pr(framed(vr("o")), vr("code"))}
			} else {
				body = []Stmt{ExprStmt{AppCall{[]AppStage{st}}}, pr(sl("done"))}
			}
			bc := b.finish(fmt.Sprintf("progname-by-path/%s/capture=%v", nm.key, capture), body...)
			bc.PathSandbox = false
			if nm.dir != "" {
				bc.PreDirs = []string{nm.dir}
			}
			clean := filepath.Clean(nm.name)
			bc.Tools = map[string]string{clean: probePath()}
			add(bc)
		}
	}
	// pipelines, capture, statuses, trailing newlines
	outputs := map[string]string{"none": "", "no-newline": "abc", "one-newline": "abc\n", "two-lines": "l1\nl2\n", "three-newlines": "abc\n\n\n", "inner-blank-lines": "a\n\nb\n", "blanks": "  a  b  \n", "only-newline": "\n", "glob": "*\n", "dash-n": "-n\n",
		// white space at the end that is not the one trailing newline
		"trailing-blank": "a b c ", "trailing-tab": "abc\t", "only-blank": " ", "only-tab": "\t", "blank-then-newline": "abc \n", "tab-then-newline": "abc\t\n", "trailing-cr": "abc\r", "cr-lf": "abc\r\n", "trailing-blanks-two-lines": "l1 \nl2  ", "trailing-vt-ff": "abc\v\f",
		// letters a back end may use as guard or marker
		"ends-in-x-newline": "linux\n", "only-x-newline": "x\n", "only-x": "x", "ends-in-xx": "0xx\n", "x-two-newlines": "ax\n\n", "ends-in-X": "MAX\n", "ends-in-underscore": "a_\n", "ends-in-dot": "end.\n", "ends-in-e": "done\n", "ends-in-n": "n\n", "ends-in-backslash-n-text": "a\\n\n", "ends-in-percent": "100%\n", "ends-in-0": "10\n"}
	statuses := []int{0, 1, 2, 7, 126, 127, 255}
	onames := sortedKeys(func() map[string]string {
		m := map[string]string{}
		for k := range outputs {
			m[k] = ""
		}
		return m
	}())
	for _, on := range onames {
		for _, st := range statuses {
			for plen := 1; plen <= 3; plen++ {
				for _, capture := range []bool{true, false} {
					for _, inFunc := range []bool{false, true} {
						if !c.Thorough() && r.Intn(6) != 0 {
							continue
						}
						b := newC18()
						stages := []AppStage{stage(b, "p_say", hx(outputs[on]), sl(strconv.Itoa(map[bool]int{true: st, false: 3}[plen == 1])))}
						if plen >= 2 {
							code := map[bool]int{true: st, false: 5}[plen == 2]
							stages = append(stages, stage(b, "p_tagA", sl(strconv.Itoa(code))))
						}
						if plen == 3 {
							stages = append(stages, stage(b, "p_tagB", sl(strconv.Itoa(st))))
						}
						var body []Stmt
						if capture {
							body = []Stmt{VarDecl{Names: []string{"o", "e", "code"}, Short: true, Values: []Expr{AppCall{stages}}}, pr(sl("captured")), pr(framed(vr("o"))), pr(framed(vr("e")), vr("code"))}
						} else {
							body = []Stmt{ExprStmt{AppCall{stages}}, pr(sl("after"))}
						}
						key := fmt.Sprintf("pipeline/out=%s/status=%d/len=%d/capture=%v/func=%v", on, st, plen, capture, inFunc)
						if inFunc {
							add(b.finish(key, fn("run", nil, nil, body...), callS("run"), pr(sl("done"))))
						} else {
							add(b.finish(key, append(body, pr(sl("done")))...))
						}
					}
				}
			}
		}
	}
	// computed arguments whose evaluation has an effect: a counter function in the argument lists of every
	// stage (values are handed out left to right over the whole chain)
	for plen := 1; plen <= 3; plen++ {
		for _, capture := range []bool{false, true} {
			for _, inFunc := range []bool{false, true} {
				b := newC18()
				next := fn("next", nil, []Type{TString}, IncDec{"cnt", true}, ret(bin("+", sl("v"), Itoa{vr("cnt")})))
				names := []string{"p_rec", "p_rec2", "p_rec3"}
				stages := []AppStage{}
				for k := 0; k < plen; k++ {
					stages = append(stages, stage(b, names[k], call("next"), sl("lit"), call("next")))
				}
				var body []Stmt
				if capture {
					body = []Stmt{VarDecl{Names: []string{"o", "e", "code"}, Short: true, Values: []Expr{AppCall{stages}}}, pr(framed(vr("o")), vr("code"), vr("cnt"))}
				} else {
					body = []Stmt{ExprStmt{AppCall{stages}}, pr(sl("after"), vr("cnt"))}
				}
				key := fmt.Sprintf("arg-evaluation-order/len=%d/capture=%v/func=%v", plen, capture, inFunc)
				pre := []Stmt{def("cnt", il(0)), next}
				if inFunc {
					add(b.finish(key, append(pre, fn("run", nil, nil, body...), callS("run"), callS("run"), pr(sl("done")))...))
				} else {
					add(b.finish(key, append(append(pre, body...), pr(sl("done")))...))
				}
			}
		}
	}
	// an argument that is itself a command call (its standard output is the one argument)
	for _, inner := range []struct{ name, out string }{{"word", "inner"}, {"two-words", "in ner"}, {"empty", ""}, {"with-newline", "in\n"}, {"glob", "*"}} {
		for _, pos := range []string{"sole", "first", "last"} {
			b := newC18()
			nested := AppCall{[]AppStage{stage(b, "p_say", hx(inner.out), sl("0"))}}
			var args []Expr
			switch pos {
			case "sole":
				args = []Expr{nested}
			case "first":
				args = []Expr{nested, sl("x")}
			default:
				args = []Expr{sl("x"), nested}
			}
			add(b.finish(fmt.Sprintf("nested-command-argument/%s/%s", inner.name, pos), ExprStmt{AppCall{[]AppStage{stage(b, "p_rec", args...)}}}, pr(sl("done"))))
		}
	}
	// one program standing in several stages of a chain: every stage runs
	for _, capture := range []bool{false, true} {
		// (the stages of a chain run at the same time and one program writes one log: the order of its lines says
		// nothing, so these cells are judged by what comes out of the chain, not by the logs)
		for ci, names := range [][]string{{"p_say", "p_tagA", "p_tagA"}, {"p_say", "p_tagA", "p_tagB", "p_tagA"}, {"p_say", "p_tagB", "p_tagB", "p_tagB"}, {"p_say", "p_say"}, {"p_say", "p_say", "p_tagA"}} {
			b := newC18()
			stages := []AppStage{}
			for si, nm := range names {
				switch nm {
				case "p_say":
					stages = append(stages, stage(b, nm, hx(fmt.Sprintf("from stage %d\n", si)), sl(strconv.Itoa(si+1))))
				case "p_rec":
					stages = append(stages, stage(b, nm, sl(fmt.Sprintf("arg of stage %d", si))))
				default:
					stages = append(stages, stage(b, nm, sl(strconv.Itoa(si+2))))
				}
			}
			key := fmt.Sprintf("same-program-in-several-stages/%d/capture=%v", ci, capture)
			var bc BashCase
			if capture {
				bc = b.finish(key, VarDecl{Names: []string{"o", "e", "code"}, Short: true, Values: []Expr{AppCall{stages}}}, pr(framed(vr("o")), vr("code")))
			} else {
				bc = b.finish(key, ExprStmt{AppCall{stages}}, pr(sl("done")))
			}
			bc.CheckFS = false
			add(bc)
		}
	}
	// several command calls used as values in one expression list: each keeps its own output
	{
		say := func(b *c18Builder, out string, code int) Expr {
			return AppCall{[]AppStage{stage(b, "p_say", hx(out), sl(strconv.Itoa(code)))}}
		}
		tagged := func(b *c18Builder, out string) Expr {
			return AppCall{[]AppStage{stage(b, "p_say", hx(out), sl("0")), stage(b, "p_tagA")}}
		}
		mk := map[string]func(b *c18Builder) []Stmt{
			"two-in-argument-list": func(b *c18Builder) []Stmt {
				return []Stmt{ExprStmt{AppCall{[]AppStage{stage(b, "p_rec", say(b, "first", 0), say(b, "second  word", 3))}}}}
			},
			"three-in-argument-list": func(b *c18Builder) []Stmt {
				return []Stmt{ExprStmt{AppCall{[]AppStage{stage(b, "p_rec", say(b, "one", 1), sl("lit"), tagged(b, "two\n"), say(b, "", 0), say(b, "four", 0))}}}}
			},
		}
		mk["two-in-captured-pipeline"] = func(b *c18Builder) []Stmt {
			return []Stmt{VarDecl{Names: []string{"o", "e", "code"}, Short: true, Values: []Expr{AppCall{[]AppStage{stage(b, "p_rec", say(b, "left", 0), say(b, "right side", 2)), stage(b, "p_say", hx("from say\n"), say(b, "7", 0)), stage(b, "p_tagA", say(b, "4", 1))}}}}, pr(framed(vr("o")), vr("code"))}
		}
		mk["two-in-each-stage"] = func(b *c18Builder) []Stmt {
			return []Stmt{ExprStmt{AppCall{[]AppStage{stage(b, "p_rec", say(b, "s1 a", 0), say(b, "s1 b", 0)), stage(b, "p_rec2", say(b, "s2 a", 3), tagged(b, "s2 b"))}}}}
		}
		mk["same-command-twice"] = func(b *c18Builder) []Stmt {
			return []Stmt{ExprStmt{AppCall{[]AppStage{stage(b, "p_rec", say(b, "same", 0), say(b, "same", 0), say(b, "other", 0), say(b, "same", 0))}}}}
		}
		keys := []string{}
		for k := range mk {
			keys = append(keys, k)
		}
		sort.Strings(keys)
		for _, k := range keys {
			for _, inFunc := range []bool{false, true} {
				b := newC18()
				body := mk[k](b)
				if inFunc {
					funcs, rest := []Stmt{}, []Stmt{}
					for _, st := range body {
						if _, isFn := st.(FuncDecl); isFn {
							funcs = append(funcs, st)
						} else {
							rest = append(rest, st)
						}
					}
					add(b.finish(fmt.Sprintf("several-calls-as-values/%s/func", k), append(append(funcs, fn("run", nil, nil, rest...)), callS("run"), callS("run"), pr(sl("done")))...))
				} else {
					add(b.finish(fmt.Sprintf("several-calls-as-values/%s/top", k), append(body, pr(sl("done")))...))
				}
			}
		}
	}
	// two captures in a row and capture used in expressions
	{
		b := newC18()
		s1 := []AppStage{stage(b, "p_say", hx("one\n"), sl("4"))}
		s2 := []AppStage{stage(b, "p_say", hx("two\n"), sl("0")), stage(b, "p_tagA")}
		add(b.finish("capture/two-in-a-row", VarDecl{Names: []string{"o1", "e1", "c1"}, Short: true, Values: []Expr{AppCall{s1}}}, VarDecl{Names: []string{"o2", "e2", "c2"}, Short: true, Values: []Expr{AppCall{s2}}}, pr(vr("o1"), vr("c1"), vr("o2"), vr("c2")), Assign{[]string{"o1", "e1", "c1"}, []Expr{AppCall{s2}}}, pr(vr("o1"), vr("c1"), cmp("==", vr("c1"), il(0)), bin("+", vr("o1"), vr("o2")))))
	}
	// an argument that brings its own double quotes (a raw literal like the grep pattern in std/os.tsh) is handed to
	// the shell as written - the program receives the text between the quotes; its neighbours are still ordinary
	// values and arrive as exactly one unchanged word each
	{
		selfQuotedHook := func(stages [][]string, fs map[string][]byte) (string, int) {
			for _, st := range stages {
				for i := 1; i < len(st); i++ {
					a := st[i]
					if len(a) >= 2 && a[0] == '"' && a[len(a)-1] == '"' && !strings.ContainsAny(a[1:len(a)-1], "\"$`\\") {
						st[i] = a[1 : len(a)-1]
					}
				}
			}
			return c18Hook(stages, fs)
		}
		siblings := []string{"x  y", "*", "", "a b", " lead", "?", "k1", "[ab]", "-n", "~", "#c", "a;b", "a|b", "a>b"}
		quotedLits := []string{"\"own quotes\"", "\"<%s>\"", "\"[0-9a-z][0-9a-z]*$$\"", "\"one\""}
		for qi, q := range quotedLits {
			if strings.Contains(q, "$") {
				q = strings.ReplaceAll(q, "$$", "x")
			}
			for _, pos := range []string{"first", "middle", "last"} {
				for _, form := range []string{"literal", "variable", "runtime"} {
					for _, capture := range []bool{false, true} {
						b := newC18()
						for _, f := range []string{"a", "b", "ab", "c.txt", "k1"} {
							b.pre[f] = f + "\n"
						}
						sib := []Expr{}
						for _, v := range siblings {
							if a, ok := b.arg(v, form); ok {
								sib = append(sib, a)
							}
						}
						ql := StrLit{V: q, Raw: true}
						var args []Expr
						switch pos {
						case "first":
							args = append([]Expr{ql}, sib...)
						case "last":
							args = append(append([]Expr{}, sib...), ql)
						default:
							args = append(append(append([]Expr{}, sib[:len(sib)/2]...), ql), sib[len(sib)/2:]...)
						}
						key := fmt.Sprintf("self-quoted-neighbour/%d/%s/%s/capture=%v", qi, pos, form, capture)
						var bc BashCase
						if capture {
							bc = b.finish(key, VarDecl{Names: []string{"o", "e", "code"}, Short: true, Values: []Expr{AppCall{[]AppStage{stage(b, "p_rec", args...), stage(b, "p_rec2", ql, sib[0], sib[2])}}}}, pr(framed(vr("o")), vr("code")))
						} else {
							bc = b.finish(key, ExprStmt{AppCall{[]AppStage{stage(b, "p_rec", args...)}}}, pr(sl("done")))
						}
						bc.AppHook = selfQuotedHook
						add(bc)
					}
				}
			}
		}
	}
	// one call site executed several times: every execution hands over its own arguments and yields its own
	// output and status (long output, then short, then none; failing, then succeeding)
	{
		seq := []struct {
			out  string
			code int
		}{{"a long first output\nwith two lines\n", 3}, {"s", 0}, {"", 7}, {"x\n\n", 0}, {"last", 255}}
		for plen := 1; plen <= 2; plen++ {
			for _, capture := range []bool{true, false} {
				for _, place := range []string{"loop", "function", "function-in-loop"} {
					b := newC18()
					outs, codes := []Expr{}, []Expr{}
					for _, q := range seq {
						outs = append(outs, hx(q.out))
						codes = append(codes, sl(strconv.Itoa(q.code)))
					}
					pre := []Stmt{def("outs", SliceLit{Elem: TString, Elems: outs}), def("codes", SliceLit{Elem: TString, Elems: codes})}
					mk := func(h, cd Expr) []Stmt {
						stages := []AppStage{stage(b, "p_say", h, map[bool]Expr{true: cd, false: sl("4")}[plen == 1])}
						if plen == 2 {
							stages = append(stages, stage(b, "p_tagA", cd))
						}
						if capture {
							return []Stmt{VarDecl{Names: []string{"o", "e", "code"}, Short: true, Values: []Expr{AppCall{stages}}}, pr(framed(vr("o")), framed(vr("e")), vr("code"))}
						}
						return []Stmt{ExprStmt{AppCall{stages}}, pr(sl("after"))}
					}
					var body []Stmt
					switch place {
					case "loop":
						body = append(pre, For{Kind: ForThree, Init: def("i", il(0)), Cond: cmp("<", vr("i"), il(int64(len(seq)))), Post: IncDec{"i", true}, Body: mk(Index{"outs", vr("i")}, Index{"codes", vr("i")})})
					case "function":
						body = append(pre, fn("run", []Param{{"h", TString}, {"cd", TString}}, nil, mk(vr("h"), vr("cd"))...))
						for i := range seq {
							body = append(body, callS("run", Index{"outs", il(int64(i))}, Index{"codes", il(int64(i))}))
						}
					default:
						body = append(pre, fn("run", []Param{{"h", TString}, {"cd", TString}}, nil, mk(vr("h"), vr("cd"))...), For{Kind: ForThree, Init: def("i", il(0)), Cond: cmp("<", vr("i"), il(int64(len(seq)))), Post: IncDec{"i", true}, Body: []Stmt{callS("run", Index{"outs", vr("i")}, Index{"codes", vr("i")})}})
					}
					add(b.finish(fmt.Sprintf("site-repeated/len=%d/capture=%v/%s", plen, capture, place), append(body, pr(sl("done")))...))
				}
			}
		}
	}
	// composite programs: 2-6 calls with random pipelines, arguments, outputs, statuses and placements
	nComp := c.Pick(120, 4000)
	for k := 0; k < nComp; k++ {
		rr := rand.New(rand.NewSource(c.Seed*18000047 + int64(k)))
		b := newC18()
		b.stmts = append(b.stmts, def("yes", bl(true)))
		body := []Stmt{}
		funcs := []Stmt{}
		ncalls := 2 + rr.Intn(5)
		for i := 0; i < ncalls; i++ {
			plen := 1 + rr.Intn(3)
			stages := []AppStage{}
			args := func() []Expr {
				as := []Expr{}
				for j := rr.Intn(4); j > 0; j-- {
					vn := vnames[rr.Intn(len(vnames))]
					if a, ok := b.arg(values[vn], forms[rr.Intn(len(forms))]); ok {
						as = append(as, a)
					}
				}
				return as
			}
			if rr.Intn(3) == 0 {
				stages = append(stages, stage(b, fmt.Sprintf("p_rec%d", i), args()...))
			} else {
				stages = append(stages, stage(b, "p_say", hx(outputs[onames[rr.Intn(len(onames))]]), sl(strconv.Itoa(statuses[rr.Intn(len(statuses))]))))
			}
			for j := 1; j < plen; j++ {
				if rr.Intn(4) == 0 {
					stages = append(stages, stage(b, fmt.Sprintf("p_rec%d_%d", i, j), args()...))
				} else {
					stages = append(stages, stage(b, []string{"p_tagA", "p_tagB", "p_tagC"}[j%3], sl(strconv.Itoa(statuses[rr.Intn(len(statuses))]))))
				}
			}
			var op []Stmt
			o, e, cd := fmt.Sprintf("o%d", i), fmt.Sprintf("e%d", i), fmt.Sprintf("c%d", i)
			if rr.Intn(2) == 0 {
				op = []Stmt{VarDecl{Names: []string{o, e, cd}, Short: true, Values: []Expr{AppCall{stages}}}, pr(sl(fmt.Sprintf("call %d", i)), framed(vr(o)), framed(vr(e)), vr(cd))}
			} else {
				op = []Stmt{ExprStmt{AppCall{stages}}, pr(sl(fmt.Sprintf("after %d", i)))}
			}
			switch rr.Intn(5) {
			case 0:
				op = []Stmt{ifs(vr("yes"), op...)}
			case 1:
				op = loopForm([]int{0, 3}[rr.Intn(2)], fmt.Sprintf("k%d", i), int64(2+rr.Intn(2)), op)
			case 2:
				fname := fmt.Sprintf("run%d", i)
				funcs = append(funcs, fn(fname, nil, nil, op...))
				op = []Stmt{callS(fname)}
				if rr.Intn(2) == 0 {
					op = append(op, callS(fname))
				}
			}
			body = append(body, op...)
		}
		all := append(append([]Stmt{}, funcs...), body...)
		add(b.finish(fmt.Sprintf("composite/%d", k), append(all, pr(sl("done")))...))
	}
	c.Extra["composite_programs"] = nComp
	c.Extra["cases"] = len(cases)
	runBashCases(c, cases)
}
