package main

import (
	"fmt"
	"math/rand"
	"os"
	"path/filepath"
	"sort"
	"strconv"
	"strings"
	"time"
)

func init() { register("C15", checkC15) }

type c15Tuple struct {
	fn   string
	strs []string // string arguments
	n    int      // int argument (Repeat count, Replace n)
	list []string // Join elements
	key  string
}

func q(s string) string { return quoteTsh(s, false) }

func frameLine(idx int, s string) string { return fmt.Sprintf("%d [%s]\n", idx, s) }
func b01(b bool) string {
	if b {
		return "1"
	}
	return "0"
}

// source returns the TypeShell statements for tuple t with index idx, and the
// stdout Go's strings package prescribes.
func (t c15Tuple) source(idx int) (string, string) {
	I := strconv.Itoa(idx)
	a := func(i int) string { return q(t.strs[i]) }
	switch t.fn {
	case "Index":
		return fmt.Sprintf("print(%s, strings.Index(%s, %s))\n", I, a(0), a(1)), fmt.Sprintf("%d %d\n", idx, strings.Index(t.strs[0], t.strs[1]))
	case "Contains":
		return fmt.Sprintf("print(%s, strings.Contains(%s, %s))\n", I, a(0), a(1)), fmt.Sprintf("%d %s\n", idx, b01(strings.Contains(t.strs[0], t.strs[1])))
	case "HasPrefix":
		return fmt.Sprintf("print(%s, strings.HasPrefix(%s, %s))\n", I, a(0), a(1)), fmt.Sprintf("%d %s\n", idx, b01(strings.HasPrefix(t.strs[0], t.strs[1])))
	case "HasSuffix":
		return fmt.Sprintf("print(%s, strings.HasSuffix(%s, %s))\n", I, a(0), a(1)), fmt.Sprintf("%d %s\n", idx, b01(strings.HasSuffix(t.strs[0], t.strs[1])))
	case "Count":
		return fmt.Sprintf("print(%s, strings.Count(%s, %s))\n", I, a(0), a(1)), fmt.Sprintf("%d %d\n", idx, strings.Count(t.strs[0], t.strs[1]))
	case "Split":
		src := fmt.Sprintf("p%s := strings.Split(%s, %s)\nprint(%s, len(p%s))\nfor i%s, e%s := range p%s {\n\tprint(%s, i%s, \"[\" + e%s + \"]\")\n}\n", I, a(0), a(1), I, I, I, I, I, I, I, I)
		parts := strings.Split(t.strs[0], t.strs[1])
		exp := fmt.Sprintf("%d %d\n", idx, len(parts))
		for i, e := range parts {
			exp += fmt.Sprintf("%d %d [%s]\n", idx, i, e)
		}
		return src, exp
	case "Repeat":
		return fmt.Sprintf("print(%s, \"[\" + strings.Repeat(%s, %d) + \"]\")\n", I, a(0), t.n), frameLine(idx, strings.Repeat(t.strs[0], t.n))
	case "Replace":
		return fmt.Sprintf("print(%s, \"[\" + strings.Replace(%s, %s, %s, %d) + \"]\")\n", I, a(0), a(1), a(2), t.n), frameLine(idx, strings.Replace(t.strs[0], t.strs[1], t.strs[2], t.n))
	case "ReplaceAll":
		return fmt.Sprintf("print(%s, \"[\" + strings.ReplaceAll(%s, %s, %s) + \"]\")\n", I, a(0), a(1), a(2)), frameLine(idx, strings.ReplaceAll(t.strs[0], t.strs[1], t.strs[2]))
	case "Cut":
		b, af, f := strings.Cut(t.strs[0], t.strs[1])
		return fmt.Sprintf("b%s, a%s, f%s := strings.Cut(%s, %s)\nprint(%s, \"[\" + b%s + \"]\", \"[\" + a%s + \"]\", f%s)\n", I, I, I, a(0), a(1), I, I, I, I), fmt.Sprintf("%d [%s] [%s] %s\n", idx, b, af, b01(f))
	case "CutPrefix":
		r, f := strings.CutPrefix(t.strs[0], t.strs[1])
		return fmt.Sprintf("r%s, f%s := strings.CutPrefix(%s, %s)\nprint(%s, \"[\" + r%s + \"]\", f%s)\n", I, I, a(0), a(1), I, I, I), fmt.Sprintf("%d [%s] %s\n", idx, r, b01(f))
	case "CutSuffix":
		r, f := strings.CutSuffix(t.strs[0], t.strs[1])
		return fmt.Sprintf("r%s, f%s := strings.CutSuffix(%s, %s)\nprint(%s, \"[\" + r%s + \"]\", f%s)\n", I, I, a(0), a(1), I, I, I), fmt.Sprintf("%d [%s] %s\n", idx, r, b01(f))
	case "TrimPrefix":
		return fmt.Sprintf("print(%s, \"[\" + strings.TrimPrefix(%s, %s) + \"]\")\n", I, a(0), a(1)), frameLine(idx, strings.TrimPrefix(t.strs[0], t.strs[1]))
	case "TrimSuffix":
		return fmt.Sprintf("print(%s, \"[\" + strings.TrimSuffix(%s, %s) + \"]\")\n", I, a(0), a(1)), frameLine(idx, strings.TrimSuffix(t.strs[0], t.strs[1]))
	case "TrimLeft":
		return fmt.Sprintf("print(%s, \"[\" + strings.TrimLeft(%s, %s) + \"]\")\n", I, a(0), a(1)), frameLine(idx, strings.TrimLeft(t.strs[0], t.strs[1]))
	case "TrimRight":
		return fmt.Sprintf("print(%s, \"[\" + strings.TrimRight(%s, %s) + \"]\")\n", I, a(0), a(1)), frameLine(idx, strings.TrimRight(t.strs[0], t.strs[1]))
	case "Trim":
		return fmt.Sprintf("print(%s, \"[\" + strings.Trim(%s, %s) + \"]\")\n", I, a(0), a(1)), frameLine(idx, strings.Trim(t.strs[0], t.strs[1]))
	case "TrimSpace":
		return fmt.Sprintf("print(%s, \"[\" + strings.TrimSpace(%s) + \"]\")\n", I, a(0)), frameLine(idx, strings.TrimSpace(t.strs[0]))
	case "Join":
		el := make([]string, len(t.list))
		for i, e := range t.list {
			el[i] = q(e)
		}
		return fmt.Sprintf("print(%s, \"[\" + strings.Join([]string{%s}, %s) + \"]\")\n", I, strings.Join(el, ", "), a(0)), frameLine(idx, strings.Join(t.list, t.strs[0]))
	}
	panic("c15 fn " + t.fn)
}

// expr returns tuple t as ONE TypeShell expression, the kind of its value (s, i, b) and Go's value rendered the way
// the pair scripts print it; ok is false for the functions with several results.
func (t c15Tuple) expr() (string, string, string, bool) {
	a := func(i int) string { return q(t.strs[i]) }
	two := func(name string) string { return fmt.Sprintf("strings.%s(%s, %s)", name, a(0), a(1)) }
	switch t.fn {
	case "Index":
		return two(t.fn), "i", strconv.Itoa(strings.Index(t.strs[0], t.strs[1])), true
	case "Count":
		return two(t.fn), "i", strconv.Itoa(strings.Count(t.strs[0], t.strs[1])), true
	case "Contains":
		return two(t.fn), "b", b01(strings.Contains(t.strs[0], t.strs[1])), true
	case "HasPrefix":
		return two(t.fn), "b", b01(strings.HasPrefix(t.strs[0], t.strs[1])), true
	case "HasSuffix":
		return two(t.fn), "b", b01(strings.HasSuffix(t.strs[0], t.strs[1])), true
	case "Repeat":
		return fmt.Sprintf("strings.Repeat(%s, %d)", a(0), t.n), "s", strings.Repeat(t.strs[0], t.n), true
	case "Replace":
		return fmt.Sprintf("strings.Replace(%s, %s, %s, %d)", a(0), a(1), a(2), t.n), "s", strings.Replace(t.strs[0], t.strs[1], t.strs[2], t.n), true
	case "ReplaceAll":
		return fmt.Sprintf("strings.ReplaceAll(%s, %s, %s)", a(0), a(1), a(2)), "s", strings.ReplaceAll(t.strs[0], t.strs[1], t.strs[2]), true
	case "TrimPrefix":
		return two(t.fn), "s", strings.TrimPrefix(t.strs[0], t.strs[1]), true
	case "TrimSuffix":
		return two(t.fn), "s", strings.TrimSuffix(t.strs[0], t.strs[1]), true
	case "TrimLeft":
		return two(t.fn), "s", strings.TrimLeft(t.strs[0], t.strs[1]), true
	case "TrimRight":
		return two(t.fn), "s", strings.TrimRight(t.strs[0], t.strs[1]), true
	case "Trim":
		return two(t.fn), "s", strings.Trim(t.strs[0], t.strs[1]), true
	case "TrimSpace":
		return fmt.Sprintf("strings.TrimSpace(%s)", a(0)), "s", strings.TrimSpace(t.strs[0]), true
	case "Join":
		el := make([]string, len(t.list))
		for i, e := range t.list {
			el[i] = q(e)
		}
		return fmt.Sprintf("strings.Join([]string{%s}, %s)", strings.Join(el, ", "), a(0)), "s", strings.Join(t.list, t.strs[0]), true
	}
	return "", "", "", false
}

func c15Strings() []string {
	out := []string{""}
	alpha := []string{"a", "b", " "}
	cur := []string{""}
	for l := 1; l <= 3; l++ {
		next := []string{}
		for _, p := range cur {
			for _, ch := range alpha {
				next = append(next, p+ch)
			}
		}
		out = append(out, next...)
		cur = next
	}
	return append(out, "aaaa", "abab", "a b a", "abcabc", "aabaa", "  a  ", "ba ba ba", "aaaaa", "ababab", "b a", "abba abba", "a  b")
}

func c15Tuples(c *Check) []c15Tuple {
	S := c15Strings()
	r := rand.New(rand.NewSource(c.Seed*15000017 + 21))
	ts := []c15Tuple{}
	two := []string{"Index", "Contains", "HasPrefix", "HasSuffix", "Count", "Split", "Cut", "CutPrefix", "CutSuffix", "TrimPrefix", "TrimSuffix", "TrimLeft", "TrimRight", "Trim"}
	corner := map[string]bool{"": true, "a": true, " ": true, "ab": true, "aa": true, "aaaa": true, "abab": true, "a b a": true}
	for _, f := range two {
		for _, s := range S {
			for _, u := range S {
				isCorner := corner[s] && corner[u] && (s == "" || u == "" || len(u) <= 1 || s == u)
				if !c.Thorough() && !isCorner && r.Intn(90) != 0 {
					continue
				}
				if c.Thorough() && !isCorner && len(s) == 3 && len(u) == 3 && r.Intn(3) != 0 {
					continue
				}
				ts = append(ts, c15Tuple{fn: f, strs: []string{s, u}})
			}
		}
	}
	// matches that are preceded by a partial match of the same separator (a scan that does not back up after a
	// failed partial match misses them), matches at the very end, several candidates; in both tiers
	partial := [][2]string{{"aaab", "aab"}, {"bbba", "bba"}, {"ababac", "abac"}, {"a   b", "  b"}, {"aabaab", "aab"}, {"abababb", "ababb"}, {"aaaa", "aa"}, {"aaaab", "aab"}, {"abaabaaab", "aaab"}, {"xaxaxb", "axb"},
		{"a\rb\r", "\r"}, {"ab\r", "\r"}, {"\ta\tb", "\t"}, {"l1\nl2\n", "\n"}, {"a\r\nb", "\r\n"}, {"\r", "\r"}, {"x\vy\fz", "\f"},
		{"aab", "ab"}, {"aaab aab", "aab"}, {"ab ab  ab", " ab"}, {"abcabcabd", "abcabd"}, {"a a  a", " a"}, {"bbbb", "bbb"}, {"abab", "bab"}, {"baab", "ab"}, {"b a ", " "}, {"abb", "b"}}
	for _, f := range two {
		for _, pm := range partial {
			ts = append(ts, c15Tuple{fn: f, strs: []string{pm[0], pm[1]}})
			ts = append(ts, c15Tuple{fn: f, strs: []string{pm[0] + pm[0], pm[1]}})
		}
	}
	for _, pm := range partial {
		for _, n := range []int{-1, 0, 1, 2} {
			ts = append(ts, c15Tuple{fn: "Replace", strs: []string{pm[0] + pm[0], pm[1], "X"}, n: n})
		}
		ts = append(ts, c15Tuple{fn: "ReplaceAll", strs: []string{pm[0] + pm[0], pm[1], ""}})
	}
	for _, s := range S {
		for n := 0; n <= 4; n++ {
			if !c.Thorough() && !(corner[s] || r.Intn(6) == 0) {
				continue
			}
			ts = append(ts, c15Tuple{fn: "Repeat", strs: []string{s}, n: n})
		}
	}
	olds := []string{"", "a", "b", " ", "aa", "ab", "ba", "aba", "a b", "abab", "b ", "aaa", "abc"}
	news := []string{"", "x", "ab", " "}
	for _, s := range S {
		for _, o := range olds {
			for _, nw := range news {
				for n := -2; n <= 4; n++ {
					if r.Intn(map[bool]int{true: 12, false: 400}[c.Thorough()]) == 0 || (corner[s] && o == "" && nw == "x" && (n == -1 || n == 0 || n == 2) && !c.Thorough() && len(s) <= 2) {
						ts = append(ts, c15Tuple{fn: "Replace", strs: []string{s, o, nw}, n: n})
					}
				}
				if r.Intn(map[bool]int{true: 4, false: 120}[c.Thorough()]) == 0 {
					ts = append(ts, c15Tuple{fn: "ReplaceAll", strs: []string{s, o, nw}})
				}
			}
		}
	}
	elems := []string{"", "a", "b", " ", "ab", "a b"}
	seps := []string{"", ",", " ", "ab"}
	var rec func(cur []string)
	rec = func(cur []string) {
		for _, sp := range seps {
			if len(cur) <= 1 || r.Intn(map[bool]int{true: 4, false: 60}[c.Thorough()]) == 0 {
				ts = append(ts, c15Tuple{fn: "Join", strs: []string{sp}, list: append([]string{}, cur...)})
			}
		}
		if len(cur) == 4 {
			return
		}
		for _, e := range elems {
			rec(append(cur, e))
		}
	}
	rec(nil)
	// elements that end in a line break (a value read back through a command substitution would lose it)
	for _, l := range [][]string{{"a\n", "b"}, {"\n", "\n"}, {"a\n\n"}, {"x", "y\n"}, {"\n"}, {"a\n", "", "b\n"}, {" \n", "\t"}} {
		for _, sp := range []string{"", "-", "\n"} {
			ts = append(ts, c15Tuple{fn: "Join", strs: []string{sp}, list: l})
		}
	}
	for _, pm := range [][2]string{{"a\nb", ""}, {"a\n,b\n", ","}, {"\n\n", ""}, {"a\n-\n-b", "-"}, {"x\n\ny", "\n"}, {" \n ", ""}} {
		ts = append(ts, c15Tuple{fn: "Split", strs: []string{pm[0], pm[1]}})
	}
	ws := []string{"", " ", "\t", "\n", "\v", "\f", "\r", " a ", "\ta\n", "a", " a b ", "\t\n\v\f\r x \r\f\v\n\t", "x\ty", "  ", "\n\n", "a \t", "\r\na", " \tab\n ", "ab", "\va\f"}
	for _, s := range ws {
		ts = append(ts, c15Tuple{fn: "TrimSpace", strs: []string{s}})
	}
	for i := range ts {
		parts := []string{}
		for _, s := range ts[i].strs {
			parts = append(parts, hexKey(s))
		}
		k := ts[i].fn + "/" + strings.Join(parts, ",")
		if ts[i].fn == "Repeat" || ts[i].fn == "Replace" {
			k += fmt.Sprintf("/n=%d", ts[i].n)
		}
		if ts[i].fn == "Join" {
			k += "/list=" + hexKey(strings.Join(ts[i].list, "|")) + fmt.Sprintf("#%d", len(ts[i].list))
		}
		ts[i].key = k
	}
	return ts
}

func checkC15(c *Check) {
	c.Rule = "differential against Go's strings package: argument tuples over all strings of length 0-3 on {a, b, blank} plus 12 longer strings with overlaps and 20 pairs in which a partial match of the separator precedes the real one, counts -2..4, slices of up to 4 elements with 4 separators, whitespace mixes; each tuple is compiled into a call of the bundled library and executed under bash (40 tuples per script, each result line tagged with its tuple index; an aborting script is re-run tuple by tuple); every tuple runs twice, once in a script of one function and once in a seeded shuffle that mixes functions in one script; a mixed-script mismatch is reported as it stands (the script is the replay); 15 more scripts call each function from inside nested loops of the program over 10 x 7 arguments (and counts -2..3); the quick tier always contains the empty-operand corners. Non-trivial = every tuple; distinct = function + arguments"
	c.Assumptions = []string{"Go's strings package is the oracle", "ASCII arguments", "Repeat with a negative count is excluded (Go panics)"}
	runProbes(c, bashProbeJudge)
	tuples := c15Tuples(c)
	c.Exhaustive = false
	perFn := map[string]int{}
	for _, t := range tuples {
		perFn[t.fn]++
	}
	c.Extra["tuples_per_function"] = perFn
	const batch = 40
	type job struct{ lo, hi int }
	jobs := []job{}
	// group by function so that a batch exercises one function
	sort.SliceStable(tuples, func(i, j int) bool { return tuples[i].fn < tuples[j].fn })
	grouped := len(tuples)
	// second pass: the same tuples in a seeded shuffle, functions mixed within one script, so that
	// state left behind by one call (helper registers, result variables) meets the corner
	// arguments of another function
	{
		mr := rand.New(rand.NewSource(c.Seed*15000017 + 22))
		mixed := append([]c15Tuple{}, tuples...)
		mr.Shuffle(len(mixed), func(i, j int) { mixed[i], mixed[j] = mixed[j], mixed[i] })
		for i := range mixed {
			mixed[i].key = "mixed/" + mixed[i].key
		}
		tuples = append(tuples, mixed...)
	}
	for lo := 0; lo < len(tuples); {
		hi := lo
		for hi < len(tuples) && hi-lo < batch && (lo >= grouped || (hi < grouped && tuples[hi].fn == tuples[lo].fn)) {
			hi++
		}
		jobs = append(jobs, job{lo, hi})
		lo = hi
	}
	runBatch := func(lo, hi int) (map[int]string, map[int]string, string, string, int, bool) {
		var src strings.Builder
		src.WriteString("import \"strings\"\n\n")
		expect := map[int]string{}
		for i := lo; i < hi; i++ {
			s, e := tuples[i].source(i)
			src.WriteString(s)
			expect[i] = e
		}
		dir := newSandbox()
		defer os.RemoveAll(dir)
		mainPath := filepath.Join(dir, "main.tsh")
		os.WriteFile(mainPath, []byte(src.String()), 0o644)
		tr := TranspileFile(mainPath, Bash, 60*time.Second)
		if !tr.OK() {
			msg := "transpile failed"
			if tr.Err != nil {
				msg = tr.Err.Error()
			}
			return nil, expect, src.String(), msg, -1, false
		}
		run := newSandbox()
		defer os.RemoveAll(run)
		rr := RunBash(run, tr.Script, RunOpts{Timeout: 120 * time.Second})
		if rr.TimedOut {
			// 40 short calls never need two minutes; still, the verdict is taken on logical steps
			if verdict, r2 := DecideTimeout(tr.Script, 3000000, RunOpts{}, newSandbox); verdict == "finished" {
				rr = r2
			} else if verdict == "inconclusive" {
				c.Inconclusive("bash watchdog fired twice without a step-limit verdict")
				return nil, expect, src.String(), "INCONCLUSIVE-WATCHDOG", -1, false
			}
		}
		got := map[int]string{}
		// attribute output lines to tuples by their leading index; lines without an index belong to the previous tuple (embedded newlines)
		last := -1
		for _, line := range strings.SplitAfter(rr.Stdout, "\n") {
			if line == "" {
				continue
			}
			f := strings.SplitN(line, " ", 2)
			if n, err := strconv.Atoi(strings.TrimSpace(f[0])); err == nil && n >= lo && n < hi && (n == last || n == last+1 || last == -1 || n > last) {
				// a line of an embedded-newline value could also start with a number; accept only non-decreasing indices
				last = n
				got[n] += line
			} else if last >= 0 {
				got[last] += line
			}
		}
		return got, expect, src.String(), rr.Stderr, rr.Exit, rr.TimedOut
	}
	parallelDo(len(jobs), 16, func(ji int) {
		j := jobs[ji]
		got, expect, src, stderr, exit, timedOut := runBatch(j.lo, j.hi)
		if stderr == "INCONCLUSIVE-WATCHDOG" {
			return
		}
		clean := got != nil && stderr == "" && exit == 0 && !timedOut
		if !clean && j.hi-j.lo > 1 {
			// isolate: one tuple per script
			for i := j.lo; i < j.hi; i++ {
				g1, e1, s1, err1, ex1, to1 := runBatch(i, i+1)
				if err1 == "INCONCLUSIVE-WATCHDOG" {
					continue
				}
				c.Eval(tuples[i].key, true)
				if g1 == nil || err1 != "" || ex1 != 0 || to1 || g1[i] != e1[i] {
					c.Violation(tuples[i].key, fmt.Sprintf("got %q, Go's strings.%s gives %q (exit %d, stderr %q)", g1[i], tuples[i].fn, e1[i], ex1, clip(err1, 200)), map[string]string{"main.tsh": s1})
				}
			}
			return
		}
		for i := j.lo; i < j.hi; i++ {
			c.Eval(tuples[i].key, true)
			if !clean || got[i] != expect[i] {
				c.Violation(tuples[i].key, fmt.Sprintf("got %q, Go's strings.%s gives %q (exit %d, stderr %q)", got[i], tuples[i].fn, expect[i], exit, clip(stderr, 200)), map[string]string{"main.tsh": src})
			} else if i%997 == 3 {
				c.Sample(map[string]interface{}{"function": tuples[i].fn, "args": tuples[i].strs, "n": tuples[i].n, "list": tuples[i].list, "expected": expect[i]})
			}
		}
	})
	c.Extra["scripts"] = len(jobs)
	// two results of the SAME library function alive in one statement (both arguments of one call, both sides of a
	// comparison, both operands of || and &&): a call site that keeps its result in a place named after the callee
	// instead of a fresh one is right for every single call above and wrong here
	{
		type pair struct{ x, y c15Tuple }
		byFn := map[string][]c15Tuple{}
		for _, t := range tuples[:grouped] {
			if _, _, _, ok := t.expr(); ok {
				byFn[t.fn] = append(byFn[t.fn], t)
			}
		}
		pairs := []pair{}
		for _, fnm := range sortedKeys(func() map[string]string {
			m := map[string]string{}
			for k := range byFn {
				m[k] = ""
			}
			return m
		}()) {
			l := byFn[fnm]
			n := 0
			for i := 0; i+1 < len(l) && n < c.Pick(30, 400); i++ {
				_, _, v1, _ := l[i].expr()
				// partner: the next tuple with another result (so that a mix-up shows)
				for j := i + 1; j < len(l) && j < i+12; j++ {
					if _, _, v2, _ := l[j].expr(); v2 != v1 {
						pairs = append(pairs, pair{l[i], l[j]})
						n++
						break
					}
				}
			}
		}
		const per = 30
		npairScripts := (len(pairs) + per - 1) / per
		parallelDo(npairScripts, 16, func(si int) {
			lo, hi := si*per, si*per+per
			if hi > len(pairs) {
				hi = len(pairs)
			}
			var src, exp strings.Builder
			src.WriteString("import \"strings\"\n\nfunc shows(i int, x string, y string) {\n\tprint(i, \"[\" + x + \"]\", \"[\" + y + \"]\")\n}\nfunc showi(i int, x int, y int) {\n\tprint(i, x, y)\n}\nfunc showb(i int, x bool, y bool) {\n\tprint(i, x, y)\n}\n")
			for i := lo; i < hi; i++ {
				e1, k, v1, _ := pairs[i].x.expr()
				e2, _, v2, _ := pairs[i].y.expr()
				switch k {
				case "s":
					fmt.Fprintf(&src, "shows(%d, %s, %s)\nprint(%d, %s == %s, %s != %s)\n", i, e1, e2, i, e1, e2, e2, e1)
					fmt.Fprintf(&exp, "%d [%s] [%s]\n%d %s %s\n", i, v1, v2, i, b01(v1 == v2), b01(v2 != v1))
				case "i":
					n1, _ := strconv.Atoi(v1)
					n2, _ := strconv.Atoi(v2)
					fmt.Fprintf(&src, "showi(%d, %s, %s)\nprint(%d, %s == %s, %s - %s)\n", i, e1, e2, i, e1, e2, e2, e1)
					fmt.Fprintf(&exp, "%d %s %s\n%d %s %d\n", i, v1, v2, i, b01(v1 == v2), n2-n1)
				case "b":
					fmt.Fprintf(&src, "showb(%d, %s, %s)\nprint(%d, %s || %s, %s && %s, %s == %s)\n", i, e1, e2, i, e1, e2, e1, e2, e2, e1)
					fmt.Fprintf(&exp, "%d %s %s\n%d %s %s %s\n", i, v1, v2, i, b01(v1 == "1" || v2 == "1"), b01(v1 == "1" && v2 == "1"), b01(v1 == v2))
				}
			}
			key := fmt.Sprintf("same-function-twice/%s-%s/%d", pairs[lo].x.fn, pairs[hi-1].x.fn, si)
			dir := newSandbox()
			defer os.RemoveAll(dir)
			mainPath := filepath.Join(dir, "main.tsh")
			os.WriteFile(mainPath, []byte(src.String()), 0o644)
			tr := TranspileFile(mainPath, Bash, 60*time.Second)
			for i := lo; i < hi; i++ {
				c.Eval(fmt.Sprintf("same-function-twice/%s/%d", pairs[i].x.fn, i), true)
			}
			if !tr.OK() {
				c.Violation(key, "transpile failed: "+fmt.Sprint(tr.Err), map[string]string{"main.tsh": src.String()})
				return
			}
			run := newSandbox()
			defer os.RemoveAll(run)
			rr := RunBash(run, tr.Script, RunOpts{Timeout: 120 * time.Second})
			if rr.TimedOut {
				if verdict, r2 := DecideTimeout(tr.Script, 3000000, RunOpts{}, newSandbox); verdict == "finished" {
					rr = r2
				} else if verdict == "inconclusive" {
					c.Inconclusive("bash watchdog fired twice without a step-limit verdict")
					return
				}
			}
			if rr.Stdout != exp.String() || rr.Stderr != "" || rr.Exit != 0 {
				c.Violation(key, fmt.Sprintf("two calls of one function in one statement: %s (exit %d, stderr %q)", firstDiff(exp.String(), rr.Stdout), rr.Exit, clip(rr.Stderr, 200)), map[string]string{"main.tsh": src.String(), "expected.txt": exp.String(), "stdout.txt": rr.Stdout})
			}
		})
		c.Extra["same_function_pairs"] = len(pairs)
	}
	// the library called from inside the program's own loops (its loops and the caller's run interleaved): one
	// script per function, two nested range loops over argument slices, a counting loop for the int argument
	{
		A := []string{"", "a", "ab", "aab", "abab", "a b a", " ", "aaab", "ba ba", "b"}
		B := []string{"", "a", "b", "ab", "aab", " ", "ba"}
		lit := func(l []string) string {
			q2 := make([]string, len(l))
			for i, x := range l {
				q2[i] = q(x)
			}
			return "[]string{" + strings.Join(q2, ", ") + "}"
		}
		type lf struct {
			name string
			call string                              // TypeShell expression over s, u (and n)
			exp  func(s, u string, n int) string     // what Go gives, rendered like the script prints it
			ints bool
		}
		fs := []lf{
			{"Index", "strings.Index(s, u)", func(s, u string, n int) string { return fmt.Sprint(strings.Index(s, u)) }, false},
			{"Contains", "strings.Contains(s, u)", func(s, u string, n int) string { return b01(strings.Contains(s, u)) }, false},
			{"Count", "strings.Count(s, u)", func(s, u string, n int) string { return fmt.Sprint(strings.Count(s, u)) }, false},
			{"HasPrefix", "strings.HasPrefix(s, u)", func(s, u string, n int) string { return b01(strings.HasPrefix(s, u)) }, false},
			{"HasSuffix", "strings.HasSuffix(s, u)", func(s, u string, n int) string { return b01(strings.HasSuffix(s, u)) }, false},
			{"TrimLeft", "\"[\" + strings.TrimLeft(s, u) + \"]\"", func(s, u string, n int) string { return "[" + strings.TrimLeft(s, u) + "]" }, false},
			{"TrimRight", "\"[\" + strings.TrimRight(s, u) + \"]\"", func(s, u string, n int) string { return "[" + strings.TrimRight(s, u) + "]" }, false},
			{"Trim", "\"[\" + strings.Trim(s, u) + \"]\"", func(s, u string, n int) string { return "[" + strings.Trim(s, u) + "]" }, false},
			{"TrimPrefix", "\"[\" + strings.TrimPrefix(s, u) + \"]\"", func(s, u string, n int) string { return "[" + strings.TrimPrefix(s, u) + "]" }, false},
			{"TrimSuffix", "\"[\" + strings.TrimSuffix(s, u) + \"]\"", func(s, u string, n int) string { return "[" + strings.TrimSuffix(s, u) + "]" }, false},
			{"TrimSpace", "\"[\" + strings.TrimSpace(s + u) + \"]\"", func(s, u string, n int) string { return "[" + strings.TrimSpace(s+u) + "]" }, false},
			{"ReplaceAll", "\"[\" + strings.ReplaceAll(s, u, \"X\") + \"]\"", func(s, u string, n int) string { return "[" + strings.ReplaceAll(s, u, "X") + "]" }, false},
			{"SplitJoin", "\"[\" + strings.Join(strings.Split(s, u), \"|\") + \"]\"", func(s, u string, n int) string { return "[" + strings.Join(strings.Split(s, u), "|") + "]" }, false},
			{"Replace", "\"[\" + strings.Replace(s, u, \"X\", n) + \"]\"", func(s, u string, n int) string { return "[" + strings.Replace(s, u, "X", n) + "]" }, true},
			{"Repeat", "\"[\" + strings.Repeat(u, n + 2) + \"]\"", func(s, u string, n int) string { return "[" + strings.Repeat(u, n+2) + "]" }, true},
		}
		parallelDo(len(fs), 16, func(fi int) {
			f := fs[fi]
			var src, exp strings.Builder
			src.WriteString("import \"strings\"\n\n")
			fmt.Fprintf(&src, "aa := %s\nbb := %s\n", lit(A), lit(B))
			if f.ints {
				src.WriteString("for i, s := range aa {\n\tfor j, u := range bb {\n\t\tfor n := -2; n <= 3; n++ {\n\t\t\tprint(i, j, n, " + f.call + ")\n\t\t}\n\t}\n}\nprint(\"end\")\n")
			} else {
				src.WriteString("for i, s := range aa {\n\tfor j := 0; j < len(bb); j++ {\n\t\tu := bb[j]\n\t\tprint(i, j, " + f.call + ")\n\t}\n}\nprint(\"end\")\n")
			}
			for i, s1 := range A {
				for j, u1 := range B {
					if f.ints {
						for n := -2; n <= 3; n++ {
							fmt.Fprintf(&exp, "%d %d %d %s\n", i, j, n, f.exp(s1, u1, n))
						}
					} else {
						fmt.Fprintf(&exp, "%d %d %s\n", i, j, f.exp(s1, u1, 0))
					}
				}
			}
			exp.WriteString("end\n")
			key := "in-loops/" + f.name
			c.Eval(key, true)
			dir := newSandbox()
			defer os.RemoveAll(dir)
			mainPath := filepath.Join(dir, "main.tsh")
			os.WriteFile(mainPath, []byte(src.String()), 0o644)
			tr := TranspileFile(mainPath, Bash, 60*time.Second)
			files := map[string]string{"main.tsh": src.String(), "expected.stdout": exp.String()}
			if !tr.OK() {
				c.Violation(key, "library program with loops rejected: "+fmt.Sprint(tr.Err), files)
				return
			}
			run := newSandbox()
			defer os.RemoveAll(run)
			rr := RunBash(run, tr.Script, RunOpts{Timeout: 60 * time.Second})
			if rr.TimedOut {
				// a correct run of these scripts needs about 65 000 traced steps
				verdict, r2 := DecideTimeout(tr.Script, 300000, RunOpts{Timeout: 240 * time.Second}, newSandbox)
				if verdict == "finished" {
					rr = r2
				} else if verdict == "inconclusive" {
					c.Inconclusive("bash watchdog fired twice without a step-limit verdict")
					return
				} else {
					c.Violation(key, "library calls inside the program's loops: the script does not terminate (step limit exceeded)", files)
					return
				}
			}
			if rr.Stdout != exp.String() || rr.Exit != 0 || rr.Stderr != "" {
				files["observed.stdout"] = clip(rr.Stdout, 6000)
				c.Violation(key, "library calls inside the program's loops differ from Go: "+firstDiff(exp.String(), rr.Stdout)+fmt.Sprintf(" (exit %d, stderr %q)", rr.Exit, clip(rr.Stderr, 200)), files)
			}
		})
		c.Extra["loop_scripts"] = len(fs)
	}
}
