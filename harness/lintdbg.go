package main

import (
	"fmt"
	"os"
)

func init() {
	extraCommands["lintbat"] = func(args []string) {
		b, _ := os.ReadFile(args[0])
		r := lintBatch(string(b))
		fmt.Printf("%+v\n", r)
	}
}
