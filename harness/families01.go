package main

import (
	"fmt"
	"math"
)

// ---- small AST constructors ----

func vr(n string) Expr { return VarRef{n} }
func il(v int64) Expr  { return IntLit{v} }
func bl(v bool) Expr   { return BoolLit{v} }
func sl(v string) Expr { return StrLit{V: v} }
func def(name string, e Expr) Stmt {
	return VarDecl{Names: []string{name}, Short: true, Values: []Expr{e}}
}
func set(name string, e Expr) Stmt    { return Assign{[]string{name}, []Expr{e}} }
func pr(args ...Expr) Stmt            { return Print{args} }
func ifs(c Expr, body ...Stmt) Stmt   { return If{Branches: []IfBranch{{c, body}}} }
func cmp(op string, l, r Expr) Expr   { return Cmp{op, l, r} }
func bin(op string, l, r Expr) Expr   { return Bin{op, l, r} }
func logic(op string, l, r Expr) Expr { return Logic{op, l, r} }

var allBinOps = []string{"*", "/", "%", "+", "-", "==", "!=", "<", "<=", ">", ">=", "&&", "||"}

func evalPrint(stmts []Stmt) (string, bool) {
	r := Interpret(SingleFile(stmts), 64, 5000)
	return r.Stdout, r.Undefined == ""
}

func litOf(t Type, v interface{}) Expr {
	if t == TInt {
		return il(v.(int64))
	}
	return bl(v.(bool))
}

// f1OperatorChains: a op1 b op2 c (and longer chains) without parentheses.
func f1OperatorChains(nops int, thorough bool) []BashCase {
	cases := []BashCase{}
	intVals := []int64{7, 3, 2, -5, 1, 12, 0, -1}
	boolVals := []bool{true, false}
	names := []string{"a", "b", "c", "d"}
	var opsets [][]string
	var rec func(cur []string)
	rec = func(cur []string) {
		if len(cur) == nops {
			opsets = append(opsets, append([]string{}, cur...))
			return
		}
		for _, op := range allBinOps {
			rec(append(cur, op))
		}
	}
	rec(nil)
	for _, ops := range opsets {
		// search operand typings under which the flat parse type-checks
		nopd := nops + 1
		for mask := 0; mask < 1<<nopd; mask++ {
			types := make([]Type, nopd)
			env := &TypeEnv{Vars: map[string]Type{}}
			operands := make([]Expr, nopd)
			for i := 0; i < nopd; i++ {
				types[i] = TInt
				if mask>>i&1 == 1 {
					types[i] = TBool
				}
				env.Vars[names[i]] = types[i]
				operands[i] = vr(names[i])
			}
			ast := parseFlat(operands, ops)
			rt, err := env.typeOf(ast)
			if err != nil {
				continue
			}
			_ = rt
			// alternative groupings (for 2 ops: the other association)
			var alts []Expr
			if nops == 2 {
				l := Group{parseFlat(operands[:2], ops[:1])}
				r := Group{parseFlat(operands[1:], ops[1:])}
				for _, alt := range []Expr{parseFlat([]Expr{l, operands[2]}, ops[1:]), parseFlat([]Expr{operands[0], r}, ops[:1])} {
					if _, err := env.typeOf(alt); err == nil {
						alts = append(alts, alt)
					}
				}
			}
			// choose value tuples, preferring those that separate the groupings
			type tuple struct {
				vals  []interface{}
				score int
			}
			var tuples []tuple
			var gen func(i int, cur []interface{})
			gen = func(i int, cur []interface{}) {
				if i == nopd {
					stm := []Stmt{}
					for k := range cur {
						stm = append(stm, def(names[k], litOf(types[k], cur[k])))
					}
					want, ok := evalPrint(append(append([]Stmt{}, stm...), pr(ast)))
					if !ok {
						return
					}
					score := 0
					for _, alt := range alts {
						got, ok2 := evalPrint(append(append([]Stmt{}, stm...), pr(alt)))
						if ok2 && got != want {
							score++
						}
					}
					tuples = append(tuples, tuple{append([]interface{}{}, cur...), score})
					return
				}
				if types[i] == TInt {
					for _, v := range intVals {
						gen(i+1, append(cur, v))
					}
				} else {
					for _, v := range boolVals {
						gen(i+1, append(cur, v))
					}
				}
			}
			gen(0, nil)
			if len(tuples) == 0 {
				continue
			}
			// take the best 3 tuples (stable order)
			best := []tuple{}
			for want := len(alts); want >= 0 && len(best) < 3; want-- {
				for _, t := range tuples {
					if t.score == want && len(best) < 3 {
						best = append(best, t)
					}
				}
			}
			stmts := []Stmt{}
			for k := 0; k < nopd; k++ {
				stmts = append(stmts, VarDecl{Names: []string{names[k]}, Type: types[k]})
			}
			for _, t := range best {
				lits := make([]Expr, nopd)
				for k := range t.vals {
					lits[k] = litOf(types[k], t.vals[k])
					stmts = append(stmts, set(names[k], lits[k]))
				}
				stmts = append(stmts, pr(ast))
				stmts = append(stmts, pr(parseFlat(lits, ops))) // literal spelling of the same expression
			}
			key := fmt.Sprintf("F1/ops=%v/types=%v", ops, types)
			cases = append(cases, BashCase{Key: key, Prog: SingleFile(stmts)})
		}
	}
	return cases
}

func f1Unary() []BashCase {
	cases := []BashCase{}
	a, b := vr("a"), vr("b")
	exprs := []Expr{
		Logic{"&&", Not{a}, b}, Logic{"||", Not{a}, b}, Cmp{"==", Not{a}, b}, Cmp{"!=", Not{a}, Not{b}},
		Not{Group{Logic{"&&", a, b}}}, Not{Group{Logic{"||", a, b}}}, Not{Group{Cmp{"==", a, b}}}, Not{Not{a}}, Not{Not{Not{b}}},
		Logic{"||", a, Logic{"&&", Not{a}, Not{b}}}, Not{Group{Cmp{"<", il(1), il(2)}}}, Logic{"&&", Not{BoolLit{false}}, a},
		Cmp{"==", Cmp{"<", il(1), il(2)}, a}, Cmp{"!=", Cmp{">=", il(1), il(2)}, Not{a}},
	}
	for i, e := range exprs {
		stmts := []Stmt{VarDecl{Names: []string{"a", "b"}, Type: TBool}}
		for _, av := range []bool{false, true} {
			for _, bv := range []bool{false, true} {
				stmts = append(stmts, set("a", bl(av)), set("b", bl(bv)), pr(e))
			}
		}
		cases = append(cases, BashCase{Key: fmt.Sprintf("F1/unary/%d/%s", i, renderExpr(e)), Prog: SingleFile(stmts)})
	}
	return cases
}

// f2ArithmeticEdges: every operator on edge values, variable and literal spelling.
func f2ArithmeticEdges() []BashCase {
	vals := []int64{0, 1, -1, 2, -2, 7, -7, 10, math.MaxInt64, math.MinInt64, math.MaxInt64 - 1, math.MinInt64 + 1, 1 << 31, -(1 << 31), 1 << 32, 3037000500, -3037000500, 4611686018427387904}
	cases := []BashCase{}
	for _, op := range []string{"+", "-", "*", "/", "%"} {
		for ai, a := range vals {
			stmts := []Stmt{VarDecl{Names: []string{"x", "y"}, Type: TInt}}
			n := 0
			for _, b := range vals {
				probe := []Stmt{pr(bin(op, il(a), il(b)))}
				if _, ok := evalPrint(probe); !ok {
					continue
				}
				stmts = append(stmts, set("x", il(a)), set("y", il(b)), pr(bin(op, vr("x"), vr("y")), bin(op, il(a), il(b)), bin(op, vr("x"), il(b))))
				n++
			}
			if n > 0 {
				cases = append(cases, BashCase{Key: fmt.Sprintf("F2/%s/a#%d=%d", op, ai, a), Prog: SingleFile(stmts)})
			}
		}
	}
	// comparisons at the edges and between values far apart (a difference that does not fit the word); the second list
	// stays inside 32 bits so that the Batch run keeps these programs
	for wi, cv := range [][]int64{vals, {0, 1, -1, 2000000000, -2000000000, 1500000000, -1500000000, 2147483647, -2147483647, 7}} {
		for _, op := range []string{"==", "!=", "<", "<=", ">", ">="} {
			for ai, a := range cv {
				stmts := []Stmt{VarDecl{Names: []string{"x", "y"}, Type: TInt}}
				for _, b := range cv {
					stmts = append(stmts, set("x", il(a)), set("y", il(b)), pr(cmp(op, vr("x"), vr("y")), cmp(op, il(a), il(b)), cmp(op, vr("x"), il(b))))
				}
				// a minimum search, the way such comparisons are used
				stmts = append(stmts, def("best", il(a)))
				for _, b := range cv {
					stmts = append(stmts, set("y", il(b)), ifs(cmp(op, vr("y"), vr("best")), set("best", vr("y"))))
				}
				stmts = append(stmts, pr(vr("best")))
				cases = append(cases, BashCase{Key: fmt.Sprintf("F2/compare%d/%s/a#%d=%d", wi, op, ai, a), Prog: SingleFile(stmts)})
			}
		}
	}
	// compound forms and ++/-- at the edges
	for i, a := range vals {
		stmts := []Stmt{def("x", il(a)), IncDec{"x", true}, pr(vr("x")), set("x", il(a)), IncDec{"x", false}, pr(vr("x"))}
		for _, op := range []string{"+", "-", "*", "/", "%"} {
			for _, b := range []int64{3, -3, math.MaxInt64} {
				if _, ok := evalPrint([]Stmt{pr(bin(op, il(a), il(b)))}); !ok {
					continue
				}
				stmts = append(stmts, set("x", il(a)), OpAssign{"x", op, il(b)}, pr(vr("x")))
			}
		}
		cases = append(cases, BashCase{Key: fmt.Sprintf("F2/compound/a#%d=%d", i, a), Prog: SingleFile(stmts)})
	}
	return cases
}

// f3LastStatement: every statement kind as last statement pins the exit status.
func f3LastStatement() []BashCase {
	pre := func() []Stmt {
		return []Stmt{def("x", il(3)), def("b", bl(false)), def("s", sl("abc")), pr(vr("x"), vr("b"), vr("s"))}
	}
	loop0 := For{Kind: ForThree, Init: def("i", il(0)), Cond: cmp("<", vr("i"), il(0)), Post: IncDec{"i", true}, Body: []Stmt{pr(vr("i"))}}
	loopBrk := For{Kind: ForEver, Body: []Stmt{Break{}}}
	loopCond := For{Kind: ForCond, Cond: cmp(">", vr("x"), il(0)), Body: []Stmt{IncDec{"x", false}}}
	lasts := map[string][]Stmt{
		"assign-zero":           {set("x", il(0))},
		"assign-false":          {set("b", bl(false))},
		"assign-empty":          {set("s", sl(""))},
		"dec":                   {IncDec{"x", false}},
		"inc":                   {IncDec{"x", true}},
		"opassign-to-zero":      {OpAssign{"x", "-", il(3)}},
		"mod-zero-result":       {OpAssign{"x", "%", il(3)}},
		"decl-default":          {VarDecl{Names: []string{"z"}, Type: TInt}},
		"decl-false-cmp":        {def("z", cmp("<", vr("x"), il(1)))},
		"decl-false-logic":      {def("z", logic("&&", vr("b"), bl(true)))},
		"decl-not":              {def("z", Not{bl(true)})},
		"decl-concat":           {def("z", bin("+", vr("s"), sl("")))},
		"if-not-taken":          {ifs(vr("b"), pr(il(1)))},
		"if-taken":              {ifs(Not{vr("b")}, pr(il(1)))},
		"if-taken-false-inside": {ifs(Not{vr("b")}, set("b", bl(false)))},
		"if-else":               {If{Branches: []IfBranch{{vr("b"), []Stmt{pr(il(1))}}}, HasElse: true, Else: []Stmt{set("x", il(0))}}},
		"if-elseif-none":        {If{Branches: []IfBranch{{vr("b"), []Stmt{pr(il(1))}}, {cmp(">", vr("x"), il(5)), []Stmt{pr(il(2))}}}}},
		"empty-if":              {If{Branches: []IfBranch{{Not{vr("b")}, nil}}}},
		"loop-zero-iter":        {loop0},
		"loop-break":            {loopBrk},
		"loop-cond-ends":        {loopCond},
		"switch-no-match":       {Switch{Tag: vr("x"), Cases: []SwitchCase{{E: il(1), Body: []Stmt{pr(il(1))}}}}},
		"switch-match":          {Switch{Tag: vr("x"), Cases: []SwitchCase{{E: il(3), Body: []Stmt{set("x", il(0))}}}}},
		"switch-empty":          {Switch{Tag: vr("x")}},
		"switch-default":        {Switch{Cases: []SwitchCase{{Default: true, Body: []Stmt{set("b", bl(false))}}}}},
		"print":                 {pr(vr("x"))},
		"print-empty":           {pr()},
		"print-false":           {pr(bl(false))},
		"print-emptystr":        {pr(sl(""))},
		"itoa":                  {def("z", Itoa{vr("x")})},
		"panic-top":             {Panic{sl("boom")}, pr(sl("not reached"))},
		"panic-in-if":           {ifs(Not{vr("b")}, Panic{sl("in if")}), pr(sl("not reached"))},
		"panic-in-else":         {If{Branches: []IfBranch{{vr("b"), []Stmt{pr(il(1))}}}, HasElse: true, Else: []Stmt{Panic{sl("in else")}}}, pr(sl("not reached"))},
		"panic-in-loop":         {For{Kind: ForThree, Init: def("i", il(0)), Cond: cmp("<", vr("i"), il(3)), Post: IncDec{"i", true}, Body: []Stmt{pr(vr("i")), ifs(cmp("==", vr("i"), il(1)), Panic{bin("+", sl("at "), Itoa{vr("i")})})}}, pr(sl("not reached"))},
		"panic-in-switch":       {Switch{Tag: vr("x"), Cases: []SwitchCase{{E: il(3), Body: []Stmt{Panic{vr("s")}}}}}, pr(sl("not reached"))},
		"panic-nested":          {For{Kind: ForCond, Cond: bl(true), Body: []Stmt{ifs(bl(true), Switch{Cases: []SwitchCase{{Default: true, Body: []Stmt{Panic{sl("deep")}}}}})}}},
		"panic-not-taken":       {ifs(vr("b"), Panic{sl("never")})},
		"panic-int-msg":         {Panic{Itoa{vr("x")}}},
	}
	cases := []BashCase{}
	for _, name := range sortedStmtKeys(lasts) {
		cases = append(cases, BashCase{Key: "F3/last/" + name, Prog: SingleFile(append(pre(), lasts[name]...))})
	}
	return cases
}

func sortedStmtKeys(m map[string][]Stmt) []string {
	tmp := map[string]string{}
	for k := range m {
		tmp[k] = ""
	}
	return sortedKeys(tmp)
}

// ---- F4 loop skeletons ----

const nLoopForms = 6

// loopForm renders loop form f with counter name ctr, bound k and body.
// In every form the counter is advanced before the body can `continue`.
func loopForm(f int, ctr string, k int64, body []Stmt) []Stmt {
	K := il(k)
	switch f {
	case 0:
		return []Stmt{For{Kind: ForThree, Init: def(ctr, il(0)), Cond: cmp("<", vr(ctr), K), Post: IncDec{ctr, true}, Body: body}}
	case 1:
		return []Stmt{def(ctr, il(0)), For{Kind: ForCond, Cond: cmp("<", vr(ctr), K), Body: append([]Stmt{IncDec{ctr, true}}, body...)}}
	case 2:
		return []Stmt{def(ctr, il(0)), For{Kind: ForEver, Body: append([]Stmt{IncDec{ctr, true}, ifs(cmp(">", vr(ctr), K), Break{})}, body...)}}
	case 3:
		return []Stmt{For{Kind: ForThree, Init: def(ctr, K), Cond: cmp(">", vr(ctr), il(0)), Post: IncDec{ctr, false}, Body: body}}
	case 4:
		return []Stmt{def(ctr, il(0)), For{Kind: ForThree, Cond: cmp("<", vr(ctr), K), Body: append([]Stmt{OpAssign{ctr, "+", il(1)}}, body...)}}
	case 5:
		return []Stmt{VarDecl{Names: []string{ctr}, Type: TInt}, For{Kind: ForThree, Init: set(ctr, il(0)), Post: set(ctr, bin("+", vr(ctr), il(1))), Body: append([]Stmt{ifs(cmp(">=", vr(ctr), K), Break{})}, body...)}}
	}
	panic("loopForm")
}

var jumpKinds = []string{"none", "break-before", "continue-before", "break-after", "continue-after", "continue-in-elseif", "break-in-else", "continue-in-switch", "both"}

// jumpBody builds an outer-loop body around `inner` with the given jump kind.
func jumpBody(kind string, ctr string, inner []Stmt) []Stmt {
	c1 := cmp("==", bin("%", vr(ctr), il(2)), il(0))
	c2 := cmp("==", vr(ctr), il(2))
	head := pr(sl("o"), vr(ctr))
	tail := pr(sl("t"), vr(ctr))
	switch kind {
	case "none":
		return append(append([]Stmt{head}, inner...), tail)
	case "break-before":
		return append(append([]Stmt{head, ifs(c2, Break{})}, inner...), tail)
	case "continue-before":
		return append(append([]Stmt{head, ifs(c1, Continue{})}, inner...), tail)
	case "break-after":
		return append(append([]Stmt{head}, inner...), ifs(c2, Break{}), tail)
	case "continue-after":
		return append(append([]Stmt{head}, inner...), ifs(c1, Continue{}), tail)
	case "continue-in-elseif":
		chain := If{Branches: []IfBranch{{cmp("==", vr(ctr), il(99)), []Stmt{pr(sl("never"))}}, {c1, []Stmt{pr(sl("c"), vr(ctr)), Continue{}}}}, HasElse: true, Else: []Stmt{pr(sl("e"), vr(ctr))}}
		return append(append([]Stmt{head}, inner...), chain, tail)
	case "break-in-else":
		chain := If{Branches: []IfBranch{{cmp("<", vr(ctr), il(2)), []Stmt{pr(sl("lt"), vr(ctr))}}, {cmp("==", vr(ctr), il(99)), []Stmt{pr(sl("never"))}}}, HasElse: true, Else: []Stmt{pr(sl("brk"), vr(ctr)), Break{}}}
		return append(append([]Stmt{head}, inner...), chain, tail)
	case "continue-in-switch":
		sw := Switch{Tag: bin("%", vr(ctr), il(3)), Cases: []SwitchCase{{E: il(0), Body: []Stmt{pr(sl("s0"), vr(ctr))}}, {E: il(1), Body: []Stmt{pr(sl("s1"), vr(ctr)), Continue{}}}, {Default: true, Body: []Stmt{pr(sl("sd"), vr(ctr))}}}}
		return append(append([]Stmt{head}, inner...), sw, tail)
	case "both":
		return append(append([]Stmt{head, ifs(c1, Continue{})}, inner...), ifs(c2, Break{}), tail)
	}
	panic("jumpBody")
}

func f4LoopSkeletons(thorough bool) []BashCase {
	cases := []BashCase{}
	// depth 1: every form x every jump kind
	for f := 0; f < nLoopForms; f++ {
		for _, jk := range jumpKinds {
			body := jumpBody(jk, "i", nil)
			stmts := append(loopForm(f, "i", 4, body), pr(sl("end")))
			cases = append(cases, BashCase{Key: fmt.Sprintf("F4/d1/form=%d/%s", f, jk), Prog: SingleFile(stmts)})
		}
	}
	// depth 2 nested and sequential
	for o := 0; o < nLoopForms; o++ {
		for n := 0; n < nLoopForms; n++ {
			for ji, jk := range jumpKinds {
				innerBody := jumpBody(jumpKinds[(ji+o+n)%len(jumpKinds)], "j", nil)
				inner := loopForm(n, "j", 3, innerBody)
				body := jumpBody(jk, "i", inner)
				stmts := append(loopForm(o, "i", 4, body), pr(sl("end")))
				cases = append(cases, BashCase{Key: fmt.Sprintf("F4/d2/outer=%d/inner=%d/%s", o, n, jk), Prog: SingleFile(stmts)})
			}
			// sequential: the second loop must not be disturbed by the first
			s1 := loopForm(o, "i", 3, jumpBody("continue-before", "i", nil))
			s2 := loopForm(n, "j", 3, jumpBody("break-after", "j", nil))
			stmts := append(append(s1, s2...), pr(sl("end")))
			cases = append(cases, BashCase{Key: fmt.Sprintf("F4/seq/first=%d/second=%d", o, n), Prog: SingleFile(stmts)})
			// loop inside an if inside a loop, with a sibling loop afterwards
			mid := []Stmt{If{Branches: []IfBranch{{cmp("!=", vr("i"), il(1)), loopForm(n, "j", 2, []Stmt{pr(sl("n"), vr("i"), vr("j"))})}}, HasElse: true, Else: []Stmt{pr(sl("skip"), vr("i"))}}}
			mid = append(mid, loopForm((n+1)%nLoopForms, "k", 2, []Stmt{pr(sl("k"), vr("i"), vr("k"))})...)
			stmts = append(loopForm(o, "i", 3, jumpBody("continue-after", "i", mid)), pr(sl("end")))
			cases = append(cases, BashCase{Key: fmt.Sprintf("F4/mixed/outer=%d/inner=%d", o, n), Prog: SingleFile(stmts)})
		}
	}
	if thorough {
		for o := 0; o < nLoopForms; o++ {
			for m := 0; m < nLoopForms; m++ {
				for n := 0; n < nLoopForms; n++ {
					jk := jumpKinds[(o*7+m*3+n)%len(jumpKinds)]
					jk2 := jumpKinds[(o+m*5+n*2)%len(jumpKinds)]
					in3 := loopForm(n, "k", 2, []Stmt{pr(sl("k"), vr("i"), vr("j"), vr("k"))})
					in2 := loopForm(m, "j", 3, jumpBody(jk2, "j", in3))
					stmts := append(loopForm(o, "i", 3, jumpBody(jk, "i", in2)), pr(sl("end")))
					cases = append(cases, BashCase{Key: fmt.Sprintf("F4/d3/%d/%d/%d/%s/%s", o, m, n, jk, jk2), Prog: SingleFile(stmts)})
				}
			}
		}
	}
	return cases
}

// ---- F5 switch forms ----

func f5Switch() []BashCase {
	cases := []BashCase{}
	type tagKind struct {
		name  string
		t     Type
		tag   func() Expr
		setup func(target int) []Stmt // make the tag match case index target (-1 = none)
		caseE func(i int) Expr
	}
	kinds := []tagKind{
		{"int-var", TInt, func() Expr { return vr("x") }, func(t int) []Stmt { return []Stmt{def("x", il(int64(10+t)))} }, func(i int) Expr { return il(int64(10 + i)) }},
		{"int-computed", TInt, func() Expr { return bin("+", vr("x"), il(1)) }, func(t int) []Stmt { return []Stmt{def("x", il(int64(9+t))), def("y", il(5))} }, func(i int) Expr { return bin("+", vr("y"), il(int64(5+i))) }},
		{"string-var", TString, func() Expr { return vr("s") }, func(t int) []Stmt {
			if t < 0 {
				return []Stmt{def("s", sl("none"))}
			}
			return []Stmt{def("s", sl(fmt.Sprintf("k%d", t)))}
		}, func(i int) Expr { return sl(fmt.Sprintf("k%d", i)) }},
		{"bool-true", TBool, func() Expr { return bl(true) }, func(t int) []Stmt { return []Stmt{def("x", il(int64(t)))} }, func(i int) Expr { return cmp("==", vr("x"), il(int64(i))) }},
		{"tagless", TBool, func() Expr { return nil }, func(t int) []Stmt { return []Stmt{def("x", il(int64(t)))} }, func(i int) Expr { return cmp("==", vr("x"), il(int64(i))) }},
		{"bool-var", TBool, func() Expr { return vr("b") }, func(t int) []Stmt { return []Stmt{def("b", bl(false)), def("x", il(int64(t)))} }, func(i int) Expr { return cmp("!=", vr("x"), il(int64(i))) }},
	}
	for _, k := range kinds {
		for ncases := 0; ncases <= 3; ncases++ {
			for defPos := -1; defPos <= ncases; defPos++ {
				for target := -1; target < ncases; target++ {
					if k.name == "bool-var" && target >= 0 && ncases > 1 {
						continue // with != more than one case may match; first match wins, covered by target=-1
					}
					stmts := k.setup(target)
					sw := Switch{Tag: k.tag()}
					for i := 0; i <= ncases; i++ {
						if i == defPos {
							sw.Cases = append(sw.Cases, SwitchCase{Default: true, Body: []Stmt{pr(sl("default"))}})
						}
						if i < ncases {
							sw.Cases = append(sw.Cases, SwitchCase{E: k.caseE(i), Body: []Stmt{pr(sl("case"), il(int64(i)))}})
						}
					}
					stmts = append(stmts, sw, pr(sl("after")))
					cases = append(cases, BashCase{Key: fmt.Sprintf("F5/%s/cases=%d/default@%d/match=%d", k.name, ncases, defPos, target), Prog: SingleFile(stmts)})
				}
			}
		}
	}
	return cases
}

// ---- F6 definition forms ----

func f6Definitions() []BashCase {
	progs := map[string][]Stmt{
		// the same name defined again where the earlier definition is no longer visible: sequential loops, a
		// definition after the loop, sibling blocks, loops in different functions
		"loop-var-reuse-sequential":  {forUp("i", 2, pr(sl("a"), vr("i"))), forUp("i", 3, pr(sl("b"), vr("i"))), For{Kind: ForThree, Init: def("i", il(5)), Cond: cmp(">", vr("i"), il(3)), Post: IncDec{"i", false}, Body: []Stmt{pr(sl("c"), vr("i"))}}},
		"loop-var-then-definition":   {forUp("i", 2, pr(vr("i"))), def("i", il(40)), pr(vr("i")), set("i", bin("+", vr("i"), il(1))), pr(vr("i"))},
		"range-var-reuse-sequential": {def("w", sl("ab")), For{Kind: ForRange, RangeIdx: "i", RangeVal: "ch", Over: vr("w"), Body: []Stmt{pr(vr("i"), vr("ch"))}}, For{Kind: ForRange, RangeIdx: "i", RangeVal: "ch", Over: sl("xyz"), Body: []Stmt{pr(vr("ch"), vr("i"))}}, forUp("i", 1, pr(vr("i")))},
		"sibling-block-locals":       {def("x", il(1)), If{Branches: []IfBranch{{cmp("==", vr("x"), il(1)), []Stmt{def("t", il(10)), pr(vr("t"))}}}, HasElse: true, Else: []Stmt{def("t", il(20)), pr(vr("t"))}}, ifs(cmp("==", vr("x"), il(1)), def("t", sl("again")), pr(vr("t"))), forUp("k", 2, def("t", bin("*", vr("k"), il(3))), pr(vr("t")))},
		"nested-loop-var-after-inner": {forUp("i", 2, forUp("j", 2, pr(vr("i"), vr("j"))), forUp("j", 1, pr(sl("again"), vr("j"))))},
		"loop-var-in-two-functions":  {fn("fa", nil, []Type{TInt}, def("t", il(0)), forUp("i", 3, OpAssign{"t", "+", vr("i")}), ret(vr("t"))), fn("fb", nil, []Type{TInt}, def("t", il(0)), forUp("i", 4, OpAssign{"t", "+", vr("i")}), forUp("i", 2, OpAssign{"t", "+", il(100)}), ret(vr("t"))), pr(call("fa"), call("fb"))},
		// integer literals written with leading zeros are decimal numbers
		"zero-padded-literals": {def("a", PaddedInt{10, "010"}), def("b", PaddedInt{7, "007"}), def("c", PaddedInt{-20, "-020"}), def("d", PaddedInt{0, "00"}), def("e", PaddedInt{100, "0100"}), pr(vr("a"), vr("b"), vr("c"), vr("d"), vr("e"), bin("+", vr("a"), PaddedInt{89, "089"}), bin("*", PaddedInt{8, "08"}, PaddedInt{9, "09"})), ifs(cmp("==", vr("a"), il(10)), pr(sl("ten"))), Switch{Tag: vr("a"), Cases: []SwitchCase{{E: PaddedInt{8, "08"}, Body: []Stmt{pr(sl("eight"))}}, {E: PaddedInt{10, "0010"}, Body: []Stmt{pr(sl("ten again"))}}}}, forUp("i", 2, pr(bin("+", vr("i"), PaddedInt{1, "01"})))},
		// tuple assignments of plain variables (old values on the right)
		"swap-and-rotate": {def("a", il(1)), def("b", il(2)), def("c", il(3)), Assign{[]string{"a", "b"}, []Expr{vr("b"), vr("a")}}, pr(vr("a"), vr("b")), Assign{[]string{"a", "b", "c"}, []Expr{vr("b"), vr("c"), vr("a")}}, pr(vr("a"), vr("b"), vr("c")), def("s", sl("x")), def("t", sl("y")), Assign{[]string{"s", "t"}, []Expr{vr("t"), vr("s")}}, pr(vr("s"), vr("t")), def("p", bl(true)), def("q", bl(false)), Assign{[]string{"p", "q"}, []Expr{vr("q"), vr("p")}}, pr(vr("p"), vr("q")), forUp("i", 3, Assign{[]string{"a", "b"}, []Expr{vr("b"), bin("+", vr("a"), vr("b"))}}), pr(vr("a"), vr("b"))},
		// empty branches and cases end the chain like any other branch
		"empty-else-if-taken":  {def("x", il(2)), If{Branches: []IfBranch{{cmp("==", vr("x"), il(1)), []Stmt{pr(sl("one"))}}, {cmp("==", vr("x"), il(2)), []Stmt{}}, {cmp("==", vr("x"), il(2)), []Stmt{pr(sl("second two"))}}}, HasElse: true, Else: []Stmt{pr(sl("other"))}}, pr(sl("end"))},
		"empty-if-taken":       {def("x", il(1)), If{Branches: []IfBranch{{cmp("==", vr("x"), il(1)), []Stmt{}}, {cmp(">", vr("x"), il(0)), []Stmt{pr(sl("positive"))}}}, HasElse: true, Else: []Stmt{pr(sl("other"))}}, pr(sl("end"))},
		"empty-case-taken":     {def("x", il(2)), Switch{Tag: vr("x"), Cases: []SwitchCase{{E: il(1), Body: []Stmt{pr(sl("one"))}}, {E: il(2), Body: []Stmt{}}, {E: il(3), Body: []Stmt{pr(sl("three"))}}, {Default: true, Body: []Stmt{pr(sl("default"))}}}}, Switch{Cases: []SwitchCase{{E: cmp("==", vr("x"), il(2)), Body: []Stmt{}}, {Default: true, Body: []Stmt{pr(sl("default 2"))}}}}, forUp("i", 4, Switch{Tag: vr("i"), Cases: []SwitchCase{{E: il(0), Body: []Stmt{pr(sl("zero"))}}, {E: il(1), Body: []Stmt{}}, {E: il(2), Body: []Stmt{}}, {Default: true, Body: []Stmt{pr(sl("many"), vr("i"))}}}}), pr(sl("end"))},
		"empty-else":           {def("x", il(5)), If{Branches: []IfBranch{{cmp("==", vr("x"), il(1)), []Stmt{pr(sl("one"))}}}, HasElse: true, Else: []Stmt{}}, pr(sl("end"))},
		// print: one blank between operands, whatever they are
		"print-empty-operands": {def("e", sl("")), pr(sl("a"), sl(""), sl("b")), pr(sl(""), sl("lead")), pr(sl("trail"), sl("")), pr(sl(""), sl("")), pr(sl("")), pr(vr("e"), sl("x"), vr("e")), pr(sl(" "), sl(" ")), pr(il(1), sl(""), bl(true), sl(""), il(-2)), pr()},
		"defaults": {VarDecl{Names: []string{"a"}, Type: TInt}, VarDecl{Names: []string{"b"}, Type: TBool}, VarDecl{Names: []string{"s"}, Type: TString}, VarDecl{Names: []string{"e"}, Type: TString, ErrTy: true},
			pr(vr("a"), vr("b"), sl("["+""), vr("s"), sl("]"), cmp("==", vr("e"), NilLit{}), cmp("==", vr("s"), sl("")))},
		"multi-default":              {VarDecl{Names: []string{"a", "b", "c"}, Type: TInt}, VarDecl{Names: []string{"p", "q"}, Type: TBool}, pr(vr("a"), vr("b"), vr("c"), vr("p"), vr("q"))},
		"multi-typed":                {VarDecl{Names: []string{"a", "b"}, Type: TInt, Values: []Expr{il(1), il(2)}}, VarDecl{Names: []string{"s", "t"}, Type: TString, Values: []Expr{sl("x"), sl("y z")}}, pr(vr("a"), vr("b"), vr("s"), vr("t"))},
		"var-untyped":                {VarDecl{Names: []string{"a"}, Values: []Expr{il(5)}}, VarDecl{Names: []string{"b"}, Values: []Expr{cmp("<", vr("a"), il(9))}}, VarDecl{Names: []string{"s"}, Values: []Expr{bin("+", sl("n="), Itoa{vr("a")})}}, pr(vr("a"), vr("b"), vr("s"))},
		"var-untyped-multi":          {VarDecl{Names: []string{"x", "y"}, Values: []Expr{il(1), bl(true)}}, pr(vr("x"), vr("y"))},
		"short-multi":                {VarDecl{Names: []string{"a", "s", "b"}, Short: true, Values: []Expr{il(1), sl("two"), bl(true)}}, pr(vr("a"), vr("s"), vr("b"))},
		"short-partial":              {VarDecl{Names: []string{"a", "b"}, Short: true, Values: []Expr{il(1), il(2)}}, VarDecl{Names: []string{"a", "c"}, Short: true, Values: []Expr{il(3), il(4)}}, VarDecl{Names: []string{"d", "b"}, Short: true, Values: []Expr{il(5), il(6)}}, pr(vr("a"), vr("b"), vr("c"), vr("d"))},
		"short-partial-in-block":     {ifs(bl(true), VarDecl{Names: []string{"a", "b"}, Short: true, Values: []Expr{il(1), il(2)}}, VarDecl{Names: []string{"a", "c"}, Short: true, Values: []Expr{bin("+", vr("b"), il(10)), bin("*", vr("b"), il(7))}}, pr(vr("a"), vr("b"), vr("c")))},
		"redefine-in-sibling-blocks": {ifs(bl(true), def("t", il(1)), pr(vr("t"))), ifs(bl(true), def("t", sl("str")), pr(vr("t"))), def("t", bl(true)), pr(vr("t"))},
		"loop-body-redefinition":     {For{Kind: ForThree, Init: def("i", il(0)), Cond: cmp("<", vr("i"), il(3)), Post: IncDec{"i", true}, Body: []Stmt{VarDecl{Names: []string{"z"}, Type: TInt}, pr(vr("z")), set("z", bin("+", vr("i"), il(5))), pr(vr("z"))}}},
		"error-nil":                  {VarDecl{Names: []string{"e"}, Type: TString, ErrTy: true}, pr(cmp("==", vr("e"), NilLit{})), set("e", sl("failed")), pr(cmp("!=", vr("e"), NilLit{}), vr("e")), set("e", NilLit{}), pr(cmp("==", vr("e"), NilLit{}))},
		"string-compound":            {def("s", sl("a")), OpAssign{"s", "+", sl("b")}, OpAssign{"s", "+", vr("s")}, pr(vr("s"), cmp("==", vr("s"), sl("abab")), cmp("!=", vr("s"), sl("abab")))},
		"bool-ops":                   {def("t", bl(true)), def("f", bl(false)), pr(cmp("==", vr("t"), vr("f")), cmp("!=", vr("t"), vr("f")), cmp("==", vr("f"), vr("f")), Not{vr("t")}, Not{vr("f")})},
	}
	cases := []BashCase{}
	for _, k := range sortedStmtKeys(progs) {
		cases = append(cases, BashCase{Key: "F6/" + k, Prog: SingleFile(progs[k])})
	}
	return cases
}

// F7: compound assignment x right-hand side shape. "x op= e" is "x = x op (e)": the right-hand side is one
// operand whatever operators it contains itself.
func f7CompoundAssign() []BashCase {
	cases := []BashCase{}
	a, b := vr("a"), vr("b")
	rhs := []struct {
		name string
		e    Expr
	}{
		{"sum", bin("+", a, b)}, {"difference", bin("-", a, b)}, {"product", bin("*", a, b)}, {"quotient", bin("/", a, b)}, {"remainder", bin("%", a, b)},
		{"negative-literal", il(-3)}, {"minus-negative", bin("-", a, il(-2))}, {"group", Group{bin("-", a, b)}}, {"three-terms", bin("-", bin("-", a, b), il(1))}, {"mixed", bin("+", bin("*", a, il(2)), b)},
		{"call", call("idf", bin("-", a, b))}, {"len", Len{sl("abc")}}, {"variable", b}, {"literal", il(4)},
	}
	for _, op := range []string{"+", "-", "*", "/", "%"} {
		for _, r := range rhs {
			stmts := []Stmt{fn("idf", []Param{{"p", TInt}}, []Type{TInt}, ret(vr("p"))), def("a", il(7)), def("b", il(3)), def("x", il(100)), OpAssign{"x", op, r.e}, pr(vr("x")),
				// the same in a loop post statement, in a function on a global, and twice in a row
				def("y", il(50)), For{Kind: ForThree, Init: def("i", il(0)), Cond: cmp("<", vr("i"), il(2)), Post: IncDec{"i", true}, Body: []Stmt{OpAssign{"y", op, r.e}}}, pr(vr("y")),
				fn("upd", nil, nil, OpAssign{"x", op, r.e}), callS("upd"), pr(vr("x")),
			}
			cases = append(cases, BashCase{Key: "F7/" + op + "=/" + r.name, Prog: SingleFile(stmts)})
		}
	}
	// strings: += with concatenations on the right
	cases = append(cases, BashCase{Key: "F7/string-concat", Prog: SingleFile([]Stmt{def("s", sl("a")), def("t", sl("b")), OpAssign{"s", "+", bin("+", vr("t"), sl("c"))}, OpAssign{"s", "+", bin("+", bin("+", vr("s"), sl("-")), vr("t"))}, pr(vr("s"))})})
	// loop post statement of every form
	for _, op := range []string{"+", "-", "*"} {
		init, cond, step := int64(1), cmp("<", vr("i"), il(40)), bin("+", il(1), il(1))
		if op == "-" {
			init, cond = 40, cmp(">", vr("i"), il(0))
		}
		cases = append(cases, BashCase{Key: "F7/for-post/" + op, Prog: SingleFile([]Stmt{For{Kind: ForThree, Init: def("i", il(init)), Cond: cond, Post: OpAssign{"i", op, step}, Body: []Stmt{pr(vr("i"))}}, pr(sl("end"))})})
	}
	return cases
}

// F8: one textual operation stands before a construct and again inside it, where it runs several times
// (loop heads without init / post statement, loop bodies, functions called twice): every execution computes
// it from the values of that moment.
func f8RepeatedOperations() []BashCase {
	cases := []BashCase{}
	n := vr("n")
	ops := []struct {
		name string
		e    Expr // bool operation over n that is true for n < 3
		v    Expr // an int operation over n
	}{
		{"compare", cmp("<", n, il(3)), bin("+", n, il(1))},
		{"compare-sum", cmp("<", bin("+", n, il(1)), il(4)), bin("*", n, il(2))},
		{"logic", logic("&&", cmp("<", n, il(3)), cmp(">=", n, il(0))), bin("-", il(10), n)},
		{"not", Not{cmp(">=", n, il(3))}, bin("%", bin("+", n, il(7)), il(5))},
	}
	for _, o := range ops {
		for _, first := range []string{"print", "panic-guard", "define", "if"} {
			var pre []Stmt
			switch first {
			case "print":
				pre = []Stmt{pr(o.e, o.v)}
			case "panic-guard":
				pre = []Stmt{ifs(Not{Group{o.e}}, Panic{sl("never")}), pr(o.v)}
			case "define":
				pre = []Stmt{def("was", o.e), def("num", o.v), pr(vr("was"), vr("num"))}
			default:
				pre = []Stmt{ifs(o.e, pr(sl("yes"), o.v))}
			}
			mk := func(kind string) []Stmt {
				st := append([]Stmt{def("n", il(0))}, pre...)
				switch kind {
				case "for-cond":
					st = append(st, For{Kind: ForCond, Cond: o.e, Body: []Stmt{pr(sl("body"), n, o.v), IncDec{"n", true}}})
				case "for-ever":
					st = append(st, For{Kind: ForEver, Body: []Stmt{ifs(Not{Group{o.e}}, Break{}), pr(sl("body"), n, o.v), IncDec{"n", true}}})
				case "for-three-empty-clauses":
					st = append(st, For{Kind: ForThree, Cond: o.e, Body: []Stmt{pr(sl("body"), n, o.v), IncDec{"n", true}}})
				case "for-three":
					st = append(st, For{Kind: ForThree, Init: def("k", il(0)), Cond: cmp("<", vr("k"), il(4)), Post: IncDec{"k", true}, Body: []Stmt{pr(sl("body"), o.e, o.v), IncDec{"n", true}}})
				case "range":
					st = append(st, For{Kind: ForRange, RangeIdx: "k", RangeVal: "", Over: sl("abcd"), Body: []Stmt{pr(sl("body"), o.e, o.v), IncDec{"n", true}}})
				}
				return append(st, pr(sl("after"), n, o.e, o.v))
			}
			for _, kind := range []string{"for-cond", "for-ever", "for-three-empty-clauses", "for-three", "range"} {
				body := mk(kind)
				cases = append(cases, BashCase{Key: fmt.Sprintf("F8/%s/%s/%s/top", o.name, first, kind), Prog: SingleFile(body)})
				cases = append(cases, BashCase{Key: fmt.Sprintf("F8/%s/%s/%s/func", o.name, first, kind), Prog: SingleFile([]Stmt{fn("run", nil, nil, body...), callS("run"), callS("run")})})
			}
		}
	}
	return cases
}

func c01Families(c *Check) []BashCase {
	cases := []BashCase{}
	cases = append(cases, f8RepeatedOperations()...)
	cases = append(cases, f1OperatorChains(2, c.Thorough())...)
	cases = append(cases, f1Unary()...)
	cases = append(cases, f2ArithmeticEdges()...)
	cases = append(cases, f3LastStatement()...)
	cases = append(cases, f4LoopSkeletons(c.Thorough())...)
	cases = append(cases, f5Switch()...)
	cases = append(cases, f6Definitions()...)
	cases = append(cases, f7CompoundAssign()...)
	if c.Thorough() {
		cases = append(cases, f1OperatorChains(3, true)...)
	}
	return cases
}

// ife: if c { then } else { els }
func ife(c Expr, then []Stmt, els []Stmt) Stmt {
	return If{Branches: []IfBranch{{c, then}}, Else: els, HasElse: true}
}
