package main

func c01Families(c *Check) []BashCase { return nil }
