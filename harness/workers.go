package main

import (
	"strconv"
	"bufio"
	"crypto/sha256"
	"encoding/hex"
	"encoding/json"
	"fmt"
	"io"
	"os"
	"os/exec"
	"runtime/debug"
	"strings"
	"sync"
	"time"

	"github.com/monstermichl/typeshell/transpiler"
)

// Child worker processes for hostile inputs: a panic is recovered in the
// worker, a fatal error (stack overflow, out of memory) or a hang kills only the
// worker and identifies the job that was being processed.

type wJob struct {
	ID   int    `json:"id"`
	Main string `json:"main"`
}

type wTarget struct {
	Script string `json:"script,omitempty"`
	Sha    string `json:"sha,omitempty"`
	Len    int    `json:"len"`
	Err    string `json:"err,omitempty"`
	HasErr bool   `json:"has_err"`
	Panic  string `json:"panic,omitempty"`
	Ms     int64  `json:"ms"`
}

type wResult struct {
	ID          int     `json:"id"`
	Bash        wTarget `json:"bash"`
	Batch       wTarget `json:"batch"`
	Died        string  `json:"died,omitempty"` // set by the coordinator: worker died / hung on this job
	Hang        bool    `json:"hang,omitempty"`
	Unconfirmed bool    `json:"unconfirmed,omitempty"`
}

func init() {
	extraCommands["worker"] = func(args []string) {
		debug.SetMaxStack(256 << 20)
		if mb, err := strconv.Atoi(os.Getenv("VERIF_MAXSTACK_MB")); err == nil && mb > 0 {
			debug.SetMaxStack(mb << 20)
		}
		keepScript := len(args) > 0 && args[0] == "scripts"
		in := bufio.NewReaderSize(os.Stdin, 1<<20)
		out := bufio.NewWriter(os.Stdout)
		for {
			line, err := in.ReadString('\n')
			if len(line) > 0 {
				var j wJob
				if json.Unmarshal([]byte(line), &j) == nil {
					r := wResult{ID: j.ID}
					r.Bash = workerTranspile(j.Main, Bash, keepScript)
					r.Batch = workerTranspile(j.Main, Batch, keepScript)
					b, _ := json.Marshal(r)
					out.Write(b)
					out.WriteByte('\n')
					out.Flush()
				}
			}
			if err != nil {
				return
			}
		}
	}
}

func workerTranspile(path string, t Target, keep bool) (res wTarget) {
	start := time.Now()
	defer func() {
		if r := recover(); r != nil {
			res.Panic = fmt.Sprintf("%v\n%s", r, debug.Stack())
		}
		res.Ms = time.Since(start).Milliseconds()
	}()
	tr := transpiler.New()
	s, err := tr.Transpile(path, newConverter(t))
	res.Len = len(s)
	h := sha256.Sum256([]byte(s))
	res.Sha = hex.EncodeToString(h[:])
	if keep {
		res.Script = s
	}
	if err != nil {
		res.HasErr = true
		res.Err = err.Error()
	}
	return
}

type workerProc struct {
	cmd  *exec.Cmd
	in   io.WriteCloser
	out  *bufio.Reader
	errb *strings.Builder
}

func startWorker(mode string, env ...string) *workerProc {
	exe, _ := os.Executable()
	cmd := exec.Command(exe, "worker", mode)
	cmd.Env = append(append(os.Environ(), "GOGC=400"), env...)
	in, _ := cmd.StdinPipe()
	op, _ := cmd.StdoutPipe()
	eb := &strings.Builder{}
	cmd.Stderr = &limitedWriter{b: eb, max: 8000}
	if err := cmd.Start(); err != nil {
		fatalf("cannot start worker: %v", err)
	}
	return &workerProc{cmd: cmd, in: in, out: bufio.NewReaderSize(op, 4<<20), errb: eb}
}

type limitedWriter struct {
	b   *strings.Builder
	max int
	mu  sync.Mutex
}

func (w *limitedWriter) Write(p []byte) (int, error) {
	w.mu.Lock()
	defer w.mu.Unlock()
	if w.b.Len() < w.max {
		n := w.max - w.b.Len()
		if n > len(p) {
			n = len(p)
		}
		w.b.Write(p[:n])
	}
	return len(p), nil
}

func (w *workerProc) kill() {
	w.in.Close()
	if w.cmd.Process != nil {
		w.cmd.Process.Kill()
	}
	w.cmd.Wait()
}

// runInWorkers processes jobs in nworkers child processes. A job whose worker
// dies or does not answer within `limit` is retried alone with `confirm`; if it
// fails again it is reported with Died/Hang set.
func runInWorkers(jobs []wJob, nworkers int, mode string, limit, confirm time.Duration, handle func(j wJob, r wResult)) {
	var mu sync.Mutex
	confirmations := 0
	next := 0
	take := func() (wJob, bool) {
		mu.Lock()
		defer mu.Unlock()
		if next >= len(jobs) {
			return wJob{}, false
		}
		j := jobs[next]
		next++
		return j, true
	}
	one := func(w *workerProc, j wJob, lim time.Duration) (wResult, bool, string) {
		b, _ := json.Marshal(j)
		if _, err := w.in.Write(append(b, '\n')); err != nil {
			return wResult{}, false, "write to worker failed: " + err.Error()
		}
		type rd struct {
			line string
			err  error
		}
		ch := make(chan rd, 1)
		go func() {
			l, err := w.out.ReadString('\n')
			ch <- rd{l, err}
		}()
		select {
		case x := <-ch:
			if x.err != nil {
				w.cmd.Wait()
				return wResult{}, false, "worker died: " + firstLine(w.errb.String())
			}
			var r wResult
			if err := json.Unmarshal([]byte(x.line), &r); err != nil {
				return wResult{}, false, "bad worker reply"
			}
			return r, true, ""
		case <-time.After(lim):
			return wResult{}, false, "timeout"
		}
	}
	var wg sync.WaitGroup
	for n := 0; n < nworkers; n++ {
		wg.Add(1)
		go func() {
			defer wg.Done()
			w := startWorker(mode)
			defer func() { w.kill() }()
			for {
				j, ok := take()
				if !ok {
					return
				}
				mu.Lock()
				cut := confirmations > 54
				mu.Unlock()
				if cut {
					// a tree on which dozens of inputs kill or stall the worker is decided already (the
					// confirmed cases are reported); the rest of the run is not worth 20 s per input
					handle(j, wResult{ID: j.ID, Died: "not run: the run was cut short after more than 54 worker deaths/timeouts", Unconfirmed: true})
					continue
				}
				r, ok2, why := one(w, j, limit)
				if ok2 {
					handle(j, r)
					continue
				}
				// isolate: fresh worker, generous limit (at most 6 confirmations per run keep a broken tree's check bounded)
				w.kill()
				mu.Lock()
				confirmations++
				skip := confirmations > 6
				mu.Unlock()
				if skip {
					handle(j, wResult{ID: j.ID, Died: why, Unconfirmed: true})
					w = startWorker(mode)
					continue
				}
				w2 := startWorker(mode)
				r2, ok3, why2 := one(w2, j, confirm)
				if ok3 {
					w2.kill()
					if why == "timeout" {
						// slow under load but terminates: not a verdict
						handle(j, r2)
					} else {
						handle(j, r2)
					}
				} else {
					detail := w2.errb.String()
					w2.kill()
					handle(j, wResult{ID: j.ID, Died: why + " / isolated re-run: " + why2 + "\n" + clip(detail, 3000), Hang: why2 == "timeout"})
				}
				w = startWorker(mode)
			}
		}()
	}
	wg.Wait()
}
