package main

import (
	"encoding/json"
	"fmt"
	"math/rand"
	"os"
	"path/filepath"
	"strings"
	"sync"
	"time"
)

func init() { register("C13", checkC13) }

type c13Input struct {
	key   string
	files map[string]string // relative name -> content; "" main means special
	main  string            // relative main path (may not exist)
	mkdir []string          // directories to create
}

func c13BaseCorpus(c *Check) []CorpusProg {
	progs := []CorpusProg{}
	for _, p := range c12Corpus(c) {
		if strings.HasPrefix(p.Name, "hand/") || strings.HasPrefix(p.Name, "gen/") {
			if strings.Count(p.Src, "\n") <= 30 {
				progs = append(progs, p)
			}
		}
	}
	n := 0
	for _, p := range SuiteCorpus() {
		if strings.Count(p.Src, "\n") <= 14 && n < 25 {
			progs = append(progs, p)
			n++
		}
	}
	extra := []string{
		"a, b, c := @ls(\"-1\") | @grep(\"x\")\nwrite(\"f.txt\", a, true)\nprint(read(\"f.txt\"), exists(\"f.txt\"), input(\"p\"), input())\n",
		"func f(a int, s []string) (int, []string) {\n\ts[len(s)] = itoa(a)\n\treturn len(s), s\n}\nn, t := f(1, []string{})\nprint(n, t[0], copy(t, []string{\"x\"}))\n",
		"var e error = nil\nif e != nil {\n\tpanic(e)\n}\nswitch {\ncase true:\n\tprint(1)\ndefault:\n}\nfor {\n\tbreak\n}\n",
		"x := 5\nx += 1\nx -= 1\nx *= 2\nx /= 2\nx %= 3\nx++\nx--\nb := !(x == 1) && x < 2 || x >= 3\nprint(b, x)\n",
	}
	for i, s := range extra {
		progs = append(progs, CorpusProg{Name: fmt.Sprintf("c13/extra%d", i), Src: s})
	}
	return progs
}

var c13Replacements = []string{"import", "var", "func", "return", "if", "else", "switch", "case", "default", "for", "range", "break", "continue", "nil", "len", "print", "input", "copy", "itoa", "exists", "read", "write", "panic", "bool", "int", "string", "error", "true", "false",
	"(", ")", "[", "]", "{", "}", "==", "<", "&&", "||", "+=", "=", ":=", "++", "--", "!", "+", "-", "*", "/", "%", ",", ":", ";", ".", "@", "|", "\n", "x", "undefined_name", "0", "-1", "99999999999999999999", "1.5", "\"str\"", "`raw`", "\"\""}

func c13Edits(c *Check, corpus []CorpusProg, limit int, r *rand.Rand) []c13Input {
	out := []c13Input{}
	for _, p := range corpus {
		rt, err := RefLex(p.Src)
		if err != nil {
			continue
		}
		sig := []int{}
		for i, t := range rt {
			if t.Kind != RSpace && t.Kind != RComment && t.Kind != REOF {
				sig = append(sig, i)
			}
		}
		build := func(edit func(i int, t RTok) string) string {
			return joinToks(rt, func(i int, t RTok) string { return edit(i, t) })
		}
		for si, idx := range sig {
			idx := idx
			out = append(out, c13Input{key: fmt.Sprintf("edit/delete/%s@%d", p.Name, si), files: map[string]string{"main.tsh": build(func(i int, t RTok) string {
				if i == idx {
					return ""
				}
				return t.Text
			})}})
			out = append(out, c13Input{key: fmt.Sprintf("edit/duplicate/%s@%d", p.Name, si), files: map[string]string{"main.tsh": build(func(i int, t RTok) string {
				if i == idx {
					return t.Text + " " + t.Text
				}
				return t.Text
			})}})
			if si+1 < len(sig) {
				nxt := sig[si+1]
				out = append(out, c13Input{key: fmt.Sprintf("edit/swap/%s@%d", p.Name, si), files: map[string]string{"main.tsh": build(func(i int, t RTok) string {
					if i == idx {
						return rt[nxt].Text
					}
					if i == nxt {
						return rt[idx].Text
					}
					return t.Text
				})}})
			}
			out = append(out, c13Input{key: fmt.Sprintf("edit/truncate/%s@%d", p.Name, si), files: map[string]string{"main.tsh": p.Src[:rt[idx].Start]}})
			// the file ends exactly with this token (no blank, no line break behind it)
			out = append(out, c13Input{key: fmt.Sprintf("edit/truncate-after/%s@%d", p.Name, si), files: map[string]string{"main.tsh": p.Src[:rt[idx].End]}})
			for ri, rep := range c13Replacements {
				rep := rep
				out = append(out, c13Input{key: fmt.Sprintf("edit/replace#%d/%s@%d", ri, p.Name, si), files: map[string]string{"main.tsh": build(func(i int, t RTok) string {
					if i == idx {
						return rep
					}
					return t.Text
				})}})
			}
		}
	}
	if limit > 0 && len(out) > limit {
		r.Shuffle(len(out), func(i, j int) { out[i], out[j] = out[j], out[i] })
		out = out[:limit]
	}
	return out
}

func c13DoubleEdits(corpus []CorpusProg, n int, r *rand.Rand) []c13Input {
	out := []c13Input{}
	for k := 0; k < n; k++ {
		p := corpus[r.Intn(len(corpus))]
		rt, err := RefLex(p.Src)
		if err != nil || len(rt) < 4 {
			continue
		}
		e1, e2 := r.Intn(len(rt)-1), r.Intn(len(rt)-1)
		op1, op2 := r.Intn(3), r.Intn(3)
		rep1, rep2 := c13Replacements[r.Intn(len(c13Replacements))], c13Replacements[r.Intn(len(c13Replacements))]
		text := joinToks(rt, func(i int, t RTok) string {
			do := func(op int, rep string) string {
				switch op {
				case 0:
					return ""
				case 1:
					return rep
				}
				return t.Text + " " + rep
			}
			if i == e1 {
				return do(op1, rep1)
			}
			if i == e2 {
				return do(op2, rep2)
			}
			return t.Text
		})
		out = append(out, c13Input{key: fmt.Sprintf("edit2/%s/%d", p.Name, k), files: map[string]string{"main.tsh": text}})
	}
	return out
}

func c13Random(n int, r *rand.Rand) []c13Input {
	out := []c13Input{}
	alpha := "abcxyz01259 \t\n\n(){}[]=:+-*/%<>!&|,.;@\"`\\'#$_"
	words := []string{"func", "if", "else", "for", "range", "switch", "case", "default", "return", "var", "import", "print", "len", "copy", "true", "false", "nil", "int", "string", "bool", ":=", "==", "&&", "||", "++", "{\n", "}\n", "(", ")", "[]", "\n", " ", "x", "y", "f", "1", "\"s\"", ","}
	for k := 0; k < n; k++ {
		var b strings.Builder
		ln := r.Intn(300)
		switch k % 3 {
		case 0: // arbitrary bytes
			buf := make([]byte, ln)
			r.Read(buf)
			b.Write(buf)
		case 1: // token-alphabet biased
			for i := 0; i < ln; i++ {
				b.WriteByte(alpha[r.Intn(len(alpha))])
			}
		default: // token soup
			for i := 0; i < ln/3; i++ {
				b.WriteString(words[r.Intn(len(words))])
				if r.Intn(2) == 0 {
					b.WriteByte(' ')
				}
			}
		}
		out = append(out, c13Input{key: fmt.Sprintf("random/%d/%d", k%3, k), files: map[string]string{"main.tsh": b.String()}})
	}
	return out
}

func c13NearMisses() []c13Input {
	out := []c13Input{}
	pre := "func fv() {\n}\nfunc f2() (int, int) {\n\treturn 1, 2\n}\nfunc f1() int {\n\treturn 1\n}\nvi := 1\nvs := \"s\"\nsi := []int{1}\n"
	for _, call := range []string{"fv()", "f2()"} {
		for i, t := range []string{
			"t := $X + 1", "t := 1 + $X", "t := $X == 1", "t := !$X", "t := $X && true", "if $X {\n}", "for $X {\n}", "t := si[$X]", "si[$X] = 1", "si[0] = $X", "t := vs[$X]", "t := vs[$X:]", "t := vs[:$X]",
			"t := []int{$X}", "print($X)", "t := len($X)", "t := itoa($X)", "t := exists($X)", "t := read($X)", "write($X, vs)", "write(vs, $X)", "write(vs, vs, $X)", "t := input($X)", "panic($X)",
			"switch $X {\ncase 1:\n}", "switch vi {\ncase $X:\n}", "for i, v := range $X {\n}", "t := copy(si, $X)", "t := f1() + $X", "vi += $X", "vi = $X", "var t int = $X", "t, u := $X, 1", "@ls($X)", "t, u, w := @ls($X)",
			"func r() int {\n\treturn $X\n}", "func r() (int, int) {\n\treturn $X, 1\n}", "$X[0] = 1", "t := $X[0]", "$X++", "$X = 1", "$X := 1", "t := $X.x()",
		} {
			out = append(out, c13Input{key: fmt.Sprintf("nearmiss/%s/%d", call, i), files: map[string]string{"main.tsh": pre + strings.ReplaceAll(t, "$X", call) + "\n"}})
		}
	}
	// arithmetic, comparison and logic on constants only (what a folding pass would compute at transpile time):
	// every operator x extreme and zero operands, plain, grouped and as operands of a further operation
	{
		ints := []string{"0", "1", "-1", "2", "10", "9223372036854775807", "-9223372036854775808", "-9223372036854775807", "4294967296", "2147483648", "-2147483648"}
		n := 0
		for _, op := range []string{"+", "-", "*", "/", "%", "==", "<", ">="} {
			for _, a := range ints {
				for _, b := range ints {
					n++
					forms := []string{"x := " + a + " " + op + " " + b + "\nprint(x)\n"}
					if b == "0" || a == "-9223372036854775808" || n%7 == 0 {
						forms = append(forms, "x := ("+a+") "+op+" ("+b+")\nprint(x)\n", "x := 7 "+op+" (3 - 3) + ("+a+" "+op+" "+b+")\n", "if "+a+" "+op+" "+b+" == "+a+" "+op+" "+b+" {\n}\n",
							"s := []int{1, 2}\nprint(s["+a+" "+op+" "+b+"])\n", "func f() {\n\tfor i := "+a+" "+op+" "+b+"; i < 1; i++ {\n\t}\n}\n")
					}
					for fi, f := range forms {
						out = append(out, c13Input{key: fmt.Sprintf("nearmiss/constant-operands/%s/%s/%s/%d", op, a, b, fi), files: map[string]string{"main.tsh": f}})
					}
				}
			}
		}
		for i, f := range []string{"x := !true && !false || true == false\n", "x := \"\" + \"\" == \"\"\n", "x := \"a\" + \"b\" + \"\"\n", "x := len(\"\") / len(\"\")\n", "x := 1 / len(\"\")\n", "x := itoa(1 / 0)\n", "x := \"abc\"[3 - 3]\n", "x := \"abc\"[1 - 2]\n", "x := \"abc\"[5:2]\n", "x := []int{}[0]\n", "x := 5 % (2 - 2)\n", "x := -9223372036854775808 / -1\n", "x := -9223372036854775808 % -1\n"} {
			out = append(out, c13Input{key: fmt.Sprintf("nearmiss/constant-expressions/%d", i), files: map[string]string{"main.tsh": f}})
		}
	}
	// files that end right after a given token (no blank, no line break), alone on the last line and after an operand
	for ti, tk := range c13Replacements {
		if tk == "\n" {
			continue
		}
		out = append(out, c13Input{key: fmt.Sprintf("nearmiss/ends-with/%d/alone", ti), files: map[string]string{"main.tsh": "x := 1\ns := []int{1}\n" + tk}})
		out = append(out, c13Input{key: fmt.Sprintf("nearmiss/ends-with/%d/after-operand", ti), files: map[string]string{"main.tsh": "x := 1\ns := []int{1}\nx " + tk}})
		out = append(out, c13Input{key: fmt.Sprintf("nearmiss/ends-with/%d/in-block", ti), files: map[string]string{"main.tsh": "x := 1\nfunc f() {\n\tif x == 1 {\n\t\t" + tk}})
		out = append(out, c13Input{key: fmt.Sprintf("nearmiss/ends-with/%d/in-import", ti), files: map[string]string{"main.tsh": "import m \"lib.tsh\"\n", "lib.tsh": "y := 2\n" + tk}})
	}
	for i, s := range []string{
		"func f() () {\n}\n", "func f() (,) {\n}\n", "func f(a) {\n}\n", "func f(a int,) {\n}\n", "func () {\n}\n", "func f {\n}\n", "func f() int\n", "func f() {", "func f() {\n", "func\n",
		"x := 99999999999999999999\n", "x := 1.5\n", "x := -\n", "x := 1 +\n", "x := (1\n", "x := )\n", "x :=\n", ":= 1\n", "x, := 1\n", "var\n", "var x\n", "var x []\n", "var x [] int = 1\n", "var x, y\n",
		"if {\n}\n", "if true\n", "if true {\n} else\n", "if true {\n} else if {\n}\n", "else {\n}\n", "for ; ; {\n", "for i := 0; i < 1 {\n}\n", "for ; {\n}\n", "for i, := range x {\n}\n", "for range {\n}\n",
		"switch {\ncase\n}\n", "switch {\ncase 1\n}\n", "switch x {\n", "case 1:\n", "default:\n", "return\n", "return 1\n", "break\n", "continue\n", "print(\n", "print(1,)\n", "print)\n", "len()\n", "x := len\n",
		"import\n", "import x\n", "import \"\"\n", "import (\n", "import (\n)\n", "import ()\n", "import x \"a.tsh\" y\n", "@\n", "@ls\n", "@ls(\n", "@ls() |\n", "@ls() | x\n", "x := @\n", "@\"\"()\n", "a.b()\n", "a.()\n", "a.b.c()\n", ".\n",
		"x := []int{\n", "x := []int{1,\n", "x := []{}\n", "x := [1]int{}\n", "x := []int{1}[0]\n", "x := \"abc\"[0]\n", "s := \"a\"\nx := s[\n", "s := \"a\"\nx := s[:]\n", "s := \"a\"\nx := s[::]\n", "s := \"a\"\nx := s[1:2:3]\n",
		"x := 1\nswitch x {\ncase 1:\n\tbreak\n}\n", "switch {\ndefault:\n\tif true {\n\t\tbreak\n\t}\n}\n", "func f() {\n\tswitch {\n\tdefault:\n\t\tbreak\n\t}\n}\nfor {\n\tf()\n}\n", "func f() {\n\tcontinue\n}\n", "x := 1\nx[0] = 1\n", "x := 1\nx()\n", "print(print(1))\n", "x := print(1)\n", "func f() {\n\tfunc g() {\n\t}\n}\n", "func f() {\n}\nf = 1\n", "f()\nfunc f() {\n}\n", "\x00", "\xff\xfe", "\"", "`", "/*", "//", "'", "\\",
	} {
		out = append(out, c13Input{key: fmt.Sprintf("nearmiss/syntax/%d", i), files: map[string]string{"main.tsh": s}})
	}
	return out
}

// c13ArgMatrix: every operand position of every builtin and indexing form x every kind of
// expression (variables, literals, calls of all result shapes, groups, nested builtins, nil).
func c13ArgMatrix() []c13Input {
	pre := "func fv() {\n}\nfunc f2() (int, int) {\n\treturn 1, 2\n}\nfunc mk() []int {\n\treturn []int{1}\n}\nfunc mks() []string {\n\treturn []string{\"a\"}\n}\nfunc one() int {\n\treturn 1\n}\nfunc str() string {\n\treturn \"s\"\n}\nvi := 1\nvs := \"abc\"\nvb := true\nsi := []int{1, 2}\nss := []string{\"a\", \"b\"}\n"
	positions := []string{
		"t := len($X)", "t := copy($X, si)", "t := copy(si, $X)", "t := copy($X, $X)", "copy($X, ss)", "t := itoa($X)", "t := exists($X)", "t := read($X)", "write($X, vs)", "write(vs, $X)", "write(vs, vs, $X)",
		"t := input($X)", "print($X)", "print($X, $X)", "panic($X)", "t := si[$X]", "t := $X[0]", "$X[0] = 1", "si[$X] = 1", "si[0] = $X", "ss[0] = $X", "t := vs[$X]", "t := vs[$X:]", "t := vs[:$X]", "t := vs[$X:$X]", "t := $X[1:2]",
		"for i, v := range $X {\n}", "for i := range $X {\n}", "for $X {\n\tbreak\n}", "if $X {\n}", "switch $X {\ncase 1:\n}", "switch vi {\ncase $X:\n}", "t := []int{$X}", "t := []string{$X, $X}", "t := $X + $X", "t := $X == $X", "t := !$X", "t := -$X",
		"t := one($X)", "@ls($X)", "t, u, w := @ls($X) | @cat($X)", "$X", "($X)", "t := ($X)", "var t []int = $X", "var t int = $X", "t, u := $X", "t, u := $X, $X", "vi = $X", "si = $X", "vi += $X", "$X++",
	}
	offers := []string{"vi", "vs", "vb", "si", "ss", "(si)", "(vs)", "1", "-1", "\"lit\"", "`raw`", "true", "nil", "[]int{1}", "[]int{}", "[]string{\"a\"}", "mk()", "mks()", "one()", "str()", "fv()", "f2()", "len(si)", "itoa(1)", "vs[0]", "vs[0:1]", "si[0]", "ss[1]", "copy(si, si)", "input()", "read(vs)", "exists(vs)", "@ls()", "!vb", "vi + 1", "vs + vs", "vi == 1", "mk()[0]", "undefined", "undefinedf()"}
	out := []c13Input{}
	for pi, p := range positions {
		for oi, o := range offers {
			body := strings.ReplaceAll(p, "$X", o)
			out = append(out, c13Input{key: fmt.Sprintf("argmatrix/%d/%d/top", pi, oi), files: map[string]string{"main.tsh": pre + body + "\n"}})
			if (pi+oi)%3 == 0 {
				out = append(out, c13Input{key: fmt.Sprintf("argmatrix/%d/%d/func", pi, oi), files: map[string]string{"main.tsh": pre + "func ctx() {\n\tif vb {\n\t\t" + strings.ReplaceAll(body, "\n", "\n\t\t") + "\n\t}\n}\nctx()\n"}})
			}
		}
	}
	return out
}

func c13Configs() []c13Input {
	out := []c13Input{}
	ok := "func F() int {\n\treturn 1\n}\nprint(\"lib\")\n"
	out = append(out,
		c13Input{key: "config/missing-main", main: "nope.tsh", files: map[string]string{}},
		c13Input{key: "config/main-is-directory", main: "adir", mkdir: []string{"adir"}, files: map[string]string{}},
		c13Input{key: "config/empty-file", files: map[string]string{"main.tsh": ""}},
		c13Input{key: "config/only-newlines", files: map[string]string{"main.tsh": "\n\n\n"}},
		c13Input{key: "config/only-blanks", files: map[string]string{"main.tsh": "  \t "}},
		c13Input{key: "config/only-comment", files: map[string]string{"main.tsh": "// nothing\n/* at all */"}},
		c13Input{key: "config/crlf-only", files: map[string]string{"main.tsh": "\r\n\r\n"}},
		c13Input{key: "config/import-missing", files: map[string]string{"main.tsh": "import x \"nope.tsh\"\n"}},
		c13Input{key: "config/import-missing-std", files: map[string]string{"main.tsh": "import \"nostd\"\n"}},
		c13Input{key: "config/import-directory", mkdir: []string{"adir"}, files: map[string]string{"main.tsh": "import x \"adir\"\n"}},
		c13Input{key: "config/import-empty-path", files: map[string]string{"main.tsh": "import x \"\"\n"}},
		c13Input{key: "config/import-no-alias-local", files: map[string]string{"main.tsh": "import \"lib.tsh\"\n", "lib.tsh": ok}},
		c13Input{key: "config/import-ok", files: map[string]string{"main.tsh": "import x \"lib.tsh\"\nprint(x.F())\n", "lib.tsh": ok}},
		c13Input{key: "config/import-subdir", files: map[string]string{"main.tsh": "import x \"sub/lib.tsh\"\nprint(x.F())\n", "sub/lib.tsh": ok}},
		c13Input{key: "config/import-lexical-error", files: map[string]string{"main.tsh": "import x \"lib.tsh\"\n", "lib.tsh": "x := \"unterminated\n"}},
		c13Input{key: "config/import-syntax-error", files: map[string]string{"main.tsh": "import x \"lib.tsh\"\n", "lib.tsh": "func {\n"}},
		c13Input{key: "config/import-type-error", files: map[string]string{"main.tsh": "import x \"lib.tsh\"\n", "lib.tsh": "x := 1 + \"a\"\n"}},
		c13Input{key: "config/import-twice-same-alias", files: map[string]string{"main.tsh": "import (\n\tx \"lib.tsh\"\n\tx \"lib.tsh\"\n)\n", "lib.tsh": ok}},
		c13Input{key: "config/import-twice-two-aliases", files: map[string]string{"main.tsh": "import (\n\tx \"lib.tsh\"\n\ty \"lib.tsh\"\n)\nprint(x.F(), y.F())\n", "lib.tsh": ok}},
		c13Input{key: "config/import-self-dot-slash", files: map[string]string{"main.tsh": "import x \"./main.tsh\"\nprint(1)\n"}},
		c13Input{key: "config/import-self-via-subdir", mkdir: []string{"sub"}, files: map[string]string{"main.tsh": "import x \"sub/../main.tsh\"\nprint(1)\n"}},
		c13Input{key: "config/import-after-code", files: map[string]string{"main.tsh": "print(1)\nimport x \"lib.tsh\"\n", "lib.tsh": ok}},
		c13Input{key: "config/import-std-strings", files: map[string]string{"main.tsh": "import \"strings\"\nprint(strings.Contains(\"a\", \"a\"))\n"}},
		c13Input{key: "config/import-std-with-alias", files: map[string]string{"main.tsh": "import s \"strings\"\nprint(s.Contains(\"a\", \"a\"))\n"}},
	)
	// all import graphs over three files: file i imports the subset given by 3 bits (including itself)
	names := []string{"a.tsh", "b.tsh", "c.tsh"}
	for mask := 0; mask < 512; mask++ {
		files := map[string]string{}
		for i, n := range names {
			var b strings.Builder
			sub := (mask >> (3 * i)) & 7
			cnt := 0
			for j := range names {
				if sub>>j&1 == 1 {
					cnt++
				}
			}
			if cnt > 0 {
				b.WriteString("import (\n")
				for j, m := range names {
					if sub>>j&1 == 1 {
						fmt.Fprintf(&b, "\tm%d \"%s\"\n", j, m)
					}
				}
				b.WriteString(")\n\n")
			}
			fmt.Fprintf(&b, "Count%d := %d\nhidden := %d\nShared := \"s\"\nfunc F%d() int {\n\treturn %d + Count%d + hidden\n}\nprint(\"file %d\", F%d(), Shared)\n", i, i, i, i, i, i, i, i)
			files[n] = b.String()
		}
		out = append(out, c13Input{key: fmt.Sprintf("config/import-graph/%03o", mask), main: "a.tsh", files: files})
	}
	return out
}

// c13Placements: control-flow and definition statements placed in every combination of two
// enclosing contexts (loops still open, loops already closed, switch cases, functions, branches).
func c13Placements() []c13Input {
	ctxs := []struct{ name, text string }{
		{"plain", "$S\n"},
		{"after-for", "for i := 0; i < 1; i++ {\n}\n$S\n"},
		{"after-range", "for _, v := range []int{1} {\n\tprint(v)\n}\n$S\n"},
		{"after-func-with-loop", "func lp() {\n\tfor {\n\t\tbreak\n\t}\n}\n$S\n"},
		{"in-if", "if true {\n$S\n}\n"},
		{"in-else", "if false {\n} else {\n$S\n}\n"},
		{"in-switch", "switch {\ndefault:\n$S\n}\n"},
		{"in-switch-value", "switch 1 {\ncase 1:\n$S\n}\n"},
		{"in-for", "for {\n$S\n}\n"},
		{"in-for3", "for j := 0; j < 2; j++ {\n$S\n}\n"},
		{"in-range", "for _, w := range []int{1, 2} {\n$S\n}\n"},
		{"in-func", "func fn() {\n$S\n}\nfn()\n"},
		{"in-func-int", "func fi() int {\n$S\nreturn 0\n}\nprint(fi())\n"},
		{"before-for", "$S\nfor {\n\tbreak\n}\n"},
	}
	stmts := []string{"break", "continue", "return", "return 1", "return 1, 2", "x := 1", "var x int", "func g() {\n}", "import \"strings\"", "case 1:", "default:", "} else {", "panic(\"p\")", "print(1)", "x++", "fn()", "fi()", "}", "{"}
	out := []c13Input{}
	for _, a := range ctxs {
		for _, b := range ctxs {
			for si, st := range stmts {
				text := strings.ReplaceAll(a.text, "$S", strings.TrimRight(strings.ReplaceAll(b.text, "$S", st), "\n"))
				out = append(out, c13Input{key: fmt.Sprintf("placement/%s/%s/%d", a.name, b.name, si), files: map[string]string{"main.tsh": text}})
			}
		}
	}
	return out
}

// c13StdGraphs: import graphs that run through the std directory next to the executable (modules
// found there are imported by bare name). Every graph shape gets its own pair of module files
// (vg<shape>a / vg<shape>b) because the directory is shared by all jobs; they are written once
// before the run and removed afterwards.
func c13StdGraphs() ([]c13Input, map[string]string) {
	std := map[string]string{}
	out := []c13Input{}
	lib := "import (\n\tm \"main.tsh\"\n)\n\nfunc L() int {\n\treturn 2\n}\n"
	for shape := 0; shape < 16; shape++ {
		for style := 0; style < 2; style++ {
			names := []string{fmt.Sprintf("vg%02d%da", shape, style), fmt.Sprintf("vg%02d%db", shape, style)}
			for i, n := range names {
				sub := (shape >> (2 * i)) & 3
				var b strings.Builder
				if sub != 0 {
					b.WriteString("import (\n")
					for j, m := range names {
						if sub>>j&1 == 1 {
							if style == 0 {
								fmt.Fprintf(&b, "\t\"%s\"\n", m) // bare name, resolved via the std directory
							} else {
								fmt.Fprintf(&b, "\tq%d \"%s.tsh\"\n", j, m) // relative path next to the importing file
							}
						}
					}
					b.WriteString(")\n\n")
				}
				fmt.Fprintf(&b, "func F() int {\n\treturn %d\n}\n", i)
				std[n+".tsh"] = b.String()
			}
			for k, mainSrc := range []string{
				fmt.Sprintf("import \"%s\"\n\nprint(%s.F())\n", names[0], names[0]),
				fmt.Sprintf("import \"%s\"\n\nprint(%s.F())\n", names[1], names[1]),
				fmt.Sprintf("import (\n\t\"%s\"\n\t\"%s\"\n)\n\nprint(%s.F(), %s.F())\n", names[0], names[1], names[0], names[1]),
				fmt.Sprintf("import (\n\tl \"lib.tsh\"\n\tz \"%s\"\n)\n\nprint(l.L(), z.F())\n", names[0]),
			} {
				files := map[string]string{"main.tsh": mainSrc}
				if k == 3 {
					files["lib.tsh"] = strings.Replace(lib, "m \"main.tsh\"", "z \""+names[1]+"\"", 1)
				}
				out = append(out, c13Input{key: fmt.Sprintf("config/std-graph/%02d/style%d/main%d", shape, style, k), files: files})
			}
		}
	}
	// deep call graphs with shared callees (the reachability walk of the unused-function removal must not
	// revisit them): Fibonacci-style, layered, long chains; in the main file and in an imported file
	{
		fib := func(n int) string {
			var b strings.Builder
			b.WriteString("never := false\nfunc F0() int {\n\treturn 0\n}\nfunc F1() int {\n\tif never {\n\t\treturn F0()\n\t}\n\treturn 1\n}\n")
			for i := 2; i < n; i++ {
				fmt.Fprintf(&b, "func F%d() int {\n\tif never {\n\t\treturn F%d() + F%d()\n\t}\n\treturn %d\n}\n", i, i-1, i-2, i)
			}
			return b.String()
		}
		layers := func(depth, width int) string {
			var b strings.Builder
			b.WriteString("never := false\n")
			for l := 0; l < depth; l++ {
				for w := 0; w < width; w++ {
					fmt.Fprintf(&b, "func L%dw%d() int {\n", l, w)
					if l > 0 {
						b.WriteString("\tif never {\n\t\treturn 0")
						for k := 0; k < width; k++ {
							fmt.Fprintf(&b, " + L%dw%d()", l-1, k)
						}
						b.WriteString("\n\t}\n")
					}
					fmt.Fprintf(&b, "\treturn %d\n}\n", l)
				}
			}
			return b.String()
		}
		chain := func(n int) string {
			var b strings.Builder
			b.WriteString("func C0() int {\n\treturn 0\n}\n")
			for i := 1; i < n; i++ {
				fmt.Fprintf(&b, "func C%d() int {\n\treturn C%d() + 1\n}\n", i, i-1)
			}
			return b.String()
		}
		graphs := map[string][2]string{
			"fib-60":       {fib(60), "F59"},
			"fib-200":      {fib(200), "F199"},
			"layers-3x30":  {layers(30, 3), "L29w0"},
			"layers-5x12":  {layers(12, 5), "L11w4"},
			"chain-300":    {chain(300), "C299"},
		}
		for _, gk := range sortedKeys(map[string]string{"fib-60": "", "fib-200": "", "layers-3x30": "", "layers-5x12": "", "chain-300": ""}) {
			g := graphs[gk]
			out = append(out, c13Input{key: "config/callgraph/" + gk + "/main", files: map[string]string{"main.tsh": g[0] + "print(" + g[1] + "())\n"}})
			out = append(out, c13Input{key: "config/callgraph/" + gk + "/imported", files: map[string]string{"main.tsh": "import g \"graph.tsh\"\n\nprint(g." + g[1] + "())\n", "graph.tsh": g[0]}})
			out = append(out, c13Input{key: "config/callgraph/" + gk + "/unused", files: map[string]string{"main.tsh": g[0] + "print(1)\n"}})
		}
	}
	// size: single constructs that are long, wide or deep (the work per construct must stay bounded)
	{
		rep := func(n int, f func(i int) string, sep string) string {
			parts := make([]string, n)
			for i := range parts {
				parts[i] = f(i)
			}
			return strings.Join(parts, sep)
		}
		big := map[string]string{
			"sum-80-terms":            "x := 1\ny := " + rep(80, func(i int) string { return "x" }, " + ") + "\nprint(y)\n",
			"mixed-ops-60":            "x := 3\ny := " + rep(60, func(i int) string { return []string{"x", "2", "(x)"}[i%3] }, " * ") + "\nprint(y)\n",
			"concat-60":               "s := \"a\"\nt := " + rep(60, func(i int) string { return []string{"s", "\"b\""}[i%2] }, " + ") + "\nprint(t)\n",
			"and-chain-60":            "b := true\nc := " + rep(60, func(i int) string { return "b" }, " && ") + "\nprint(c)\n",
			"or-and-mix-60":           "b := true\nc := " + rep(30, func(i int) string { return "b && !b" }, " || ") + "\nprint(c)\n",
			"comparison-of-sums":      "x := 1\nc := " + rep(40, func(i int) string { return "x" }, " + ") + " == " + rep(40, func(i int) string { return "x" }, " + ") + "\nprint(c)\n",
			"parentheses-depth-60":    "x := 1\ny := " + strings.Repeat("(", 60) + "x" + strings.Repeat(")", 60) + "\nprint(y)\n",
			"nested-groups-with-ops":  "x := 1\ny := " + strings.Repeat("(1 + ", 50) + "x" + strings.Repeat(")", 50) + "\nprint(y)\n",
			"nested-calls-depth-40":   "func id(a int) int {\n\treturn a\n}\nprint(" + strings.Repeat("id(", 40) + "1" + strings.Repeat(")", 40) + ")\n",
			"nested-not-60":           "b := true\nc := " + strings.Repeat("!", 60) + "b\nprint(c)\n",
			"nested-ifs-depth-40":     "x := 1\n" + rep(40, func(i int) string { return strings.Repeat("\t", i) + "if x == 1 {" }, "\n") + "\n" + strings.Repeat("\t", 40) + "print(x)\n" + rep(40, func(i int) string { return strings.Repeat("\t", 39-i) + "}" }, "\n") + "\n",
			"nested-loops-depth-20":   rep(20, func(i int) string { return strings.Repeat("\t", i) + fmt.Sprintf("for i%d := 0; i%d < 1; i%d++ {", i, i, i) }, "\n") + "\n" + strings.Repeat("\t", 20) + "print(1)\n" + rep(20, func(i int) string { return strings.Repeat("\t", 19-i) + "}" }, "\n") + "\n",
			"else-if-chain-80":        "x := 1\nif x == 0 {\n" + rep(80, func(i int) string { return fmt.Sprintf("} else if x == %d {\n\tprint(%d)", i+1, i) }, "\n") + "\n}\n",
			"switch-100-cases":        "x := 1\nswitch x {\n" + rep(100, func(i int) string { return fmt.Sprintf("case %d:\n\tprint(%d)", i, i) }, "\n") + "\n}\n",
			"statements-600":          "x := 0\n" + rep(600, func(i int) string { return "x += 1" }, "\n") + "\nprint(x)\n",
			"parameters-60":           "func wide(" + rep(60, func(i int) string { return fmt.Sprintf("p%d int", i) }, ", ") + ") int {\n\treturn p0 + p59\n}\nprint(wide(" + rep(60, func(i int) string { return fmt.Sprint(i) }, ", ") + "))\n",
			"results-12":              "func many() (" + rep(12, func(i int) string { return "int" }, ", ") + ") {\n\treturn " + rep(12, func(i int) string { return fmt.Sprint(i) }, ", ") + "\n}\n" + rep(12, func(i int) string { return fmt.Sprintf("r%d", i) }, ", ") + " := many()\nprint(r0, r11)\n",
			"slice-literal-400":       "s := []int{" + rep(400, func(i int) string { return fmt.Sprint(i) }, ", ") + "}\nprint(len(s))\n",
			"print-120-operands":      "x := 1\nprint(" + rep(120, func(i int) string { return "x" }, ", ") + ")\n",
			"string-literal-20k":      "s := \"" + strings.Repeat("abcdefghij", 2000) + "\"\nprint(len(s))\n",
			"identifier-2k":           strings.Repeat("name", 500) + " := 1\nprint(" + strings.Repeat("name", 500) + ")\n",
			"pipeline-30-stages":      "o, e, c := " + rep(30, func(i int) string { return "@cat()" }, " | ") + "\nprint(o, c)\n",
			"subscript-chain":         "s := \"abcdefghijklmnopqrstuvwxyz\"\nt := s[1:20]\nu := t[1:15]\nprint(u[" + rep(30, func(i int) string { return "1" }, " + ") + " - 29])\n",
			"comment-200k":            "/* " + strings.Repeat("x ", 100000) + "*/\nprint(1)\n",
			"blank-lines-20k":         strings.Repeat("\n", 20000) + "print(1)\n",
		}
		for _, k := range sortedKeys(func() map[string]string {
			m := map[string]string{}
			for k := range big {
				m[k] = ""
			}
			return m
		}()) {
			out = append(out, c13Input{key: "config/size/" + k, files: map[string]string{"main.tsh": big[k]}})
			out = append(out, c13Input{key: "config/size/" + k + "/imported", files: map[string]string{"main.tsh": "import g \"big.tsh\"\n\nprint(1)\n", "big.tsh": big[k]}})
		}
	}
	// layered diamonds of imports: both files of a layer import both files of the next one (2 x 20 tiny files; the
	// number of import PATHS doubles per layer, the number of files does not)
	for _, layers := range []int{6, 20} {
		files := map[string]string{}
		for i := 0; i <= layers; i++ {
			for _, sfx := range []string{"a", "b"} {
				body := fmt.Sprintf("var V%d%s = %d\n", i, sfx, i)
				if i < layers {
					body = fmt.Sprintf("import (\n\tx \"l%d_a.tsh\"\n\ty \"l%d_b.tsh\"\n)\n", i+1, i+1) + body
				}
				files[fmt.Sprintf("l%d_%s.tsh", i, sfx)] = body
			}
		}
		files["main.tsh"] = "import (\n\tx \"l0_a.tsh\"\n\ty \"l0_b.tsh\"\n)\nprint(1)\n"
		out = append(out, c13Input{key: fmt.Sprintf("config/import-layers/%d", layers), files: files})
	}
	// a chain of 40 local files and a chain that closes on its first member
	for _, closed := range []bool{false, true} {
		files := map[string]string{}
		for i := 0; i < 40; i++ {
			src := fmt.Sprintf("func F%d() int {\n\treturn %d\n}\n", i, i)
			next := i + 1
			if i == 39 {
				next = -1
				if closed {
					next = 0
				}
			}
			if next >= 0 {
				src = fmt.Sprintf("import n \"c%02d.tsh\"\n\n", next) + src
			}
			files[fmt.Sprintf("c%02d.tsh", i)] = src
		}
		out = append(out, c13Input{key: fmt.Sprintf("config/chain40/closed=%v", closed), main: "c00.tsh", files: files})
	}
	return out, std
}

func checkC13(c *Check) {
	c.Rule = "hostile inputs fed to the real Transpile in child worker processes (recover + death/hang detection + isolated confirmation): all single-token edits (delete, duplicate, swap, truncate before and right after the token, replace by 66 representative lexemes) of a corpus of valid programs (sampled in the quick tier), random double edits, random bytes / token-alphabet bytes / token soups, semantic near-misses (void and multi-value calls at every operand position, malformed headers and literals), an argument matrix (52 operand positions of builtins, indexing forms and statements x 40 kinds of expression), the enumerated program families of C01-C04, the cells of C06's typing table and C07's scope table (every typed position x every kind of offered expression; every statement at every site), control-flow/definition statements placed in all pairs of 14 enclosing contexts (open and already closed loops, switch cases, functions, branches), configurations (missing/empty/directory main file, broken imports, all 512 import graphs over three files incl. self- and mutual imports, all 16 graphs over two modules of the std directory in both import styles reached from the main file and from a local library, chains of 40 files, call graphs with shared callees: Fibonacci-style up to 200 functions, layered 3x30 and 5x12, chains of 300; 25 single constructs of large size: 80-term sums, 60-operand chains of every operator family, parentheses / calls / blocks nested 40-60 deep, 100 switch cases, 600 statements, 60 parameters, 400-element literals, 20 000-character literals and comments; operations on constant operands only (8 operators x 11 x 11 zero / unit / limit values, grouped and nested); layered diamonds of imports (6 and 20 layers of two files); constructs nested 12 000 - 60 000 deep in a worker whose stack is limited to 128 MB, a death there being decided by a run 20 times deeper under Go's own 1 GB limit); oracle = result-shape predicate (exactly one of script / error, non-empty error text, no panic, no worker death, return within the bound) for both targets. Non-trivial = every input; distinct = SHA-256 of the input files"
	c.Assumptions = []string{"termination bound: 20 s in a loaded worker, then 90 s alone in a fresh worker; a hit is reported only after the isolated confirmation (normal cost is milliseconds)", "worker stack limit 256 MiB so that unbounded recursion dies quickly"}
	runProbes(c, bashProbeJudge)
	r := rand.New(rand.NewSource(c.Seed*13000027 + 3))
	corpus := c13BaseCorpus(c)
	c.Extra["edit_base_programs"] = len(corpus)
	inputs := []c13Input{}
	inputs = append(inputs, c13Configs()...)
	inputs = append(inputs, c13NearMisses()...)
	inputs = append(inputs, c13Placements()...)
	inputs = append(inputs, c13ArgMatrix()...)
	// the typing table of C06 and the scope table of C07 as hostile inputs: every typed position filled with
	// every kind of expression, every statement at every site (here only the result shape is judged)
	for i, cell := range c06Cells(c.Thorough()) {
		if c.Thorough() || i%3 == int(c.Seed%3) {
			inputs = append(inputs, c13Input{key: "typing-table/" + cell.key, files: map[string]string{"main.tsh": cell.src}})
		}
	}
	for i, cell := range c07Cells(false) {
		if cell.extra == nil && (c.Thorough() || i%4 == int(c.Seed%4)) {
			inputs = append(inputs, c13Input{key: "scope-table/" + cell.key, files: map[string]string{"main.tsh": cell.src}})
		}
	}
	// the enumerated families of C01-C04 (well-typed programs with calls in every operand and condition position,
	// repeated case expressions, empty branches ...): here only the result shape is judged
	{
		fams := [][]BashCase{c01Families(c), c02Families(c), c03Families(c), c04Families(c)}
		n := 0
		for fi, fam := range fams {
			for i, bc := range fam {
				if bc.Prog == nil || len(bc.Prog.Files) != 1 || !(c.Thorough() || i%2 == int(c.Seed%2)) {
					continue
				}
				inputs = append(inputs, c13Input{key: fmt.Sprintf("family/C0%d/%s", fi+1, bc.Key), files: map[string]string{"main.tsh": RenderFile(bc.Prog.Files[0])}})
				n++
			}
		}
		c.Extra["family_programs_as_inputs"] = n
	}
	stdIn, stdFiles := c13StdGraphs()
	inputs = append(inputs, stdIn...)
	if exe, err := os.Executable(); err == nil {
		stdDir := filepath.Join(filepath.Dir(exe), "std")
		for n, src := range stdFiles {
			os.WriteFile(filepath.Join(stdDir, n), []byte(src), 0o644)
		}
		defer func() {
			for n := range stdFiles {
				os.Remove(filepath.Join(stdDir, n))
			}
		}()
	}
	inputs = append(inputs, c13Edits(c, corpus, c.Pick(12000, 0), r)...)
	inputs = append(inputs, c13DoubleEdits(corpus, c.Pick(3000, 150000), r)...)
	inputs = append(inputs, c13Random(c.Pick(6000, 100000), r)...)
	root := filepath.Join(scratch(), "c13")
	os.MkdirAll(root, 0o755)
	jobs := make([]wJob, len(inputs))
	// single-file inputs share directories of 500 files; multi-file inputs get their own
	for i, in := range inputs {
		var dir string
		single := len(in.files) == 1 && in.main == "" && len(in.mkdir) == 0
		if single {
			dir = filepath.Join(root, fmt.Sprintf("s%04d", i/500))
		} else {
			dir = filepath.Join(root, fmt.Sprintf("m%06d", i))
		}
		os.MkdirAll(dir, 0o755)
		for _, d := range in.mkdir {
			os.MkdirAll(filepath.Join(dir, d), 0o755)
		}
		mainRel := in.main
		for n, s := range in.files {
			name := n
			if single {
				name = fmt.Sprintf("j%06d.tsh", i)
				mainRel = name
			}
			full := filepath.Join(dir, name)
			os.MkdirAll(filepath.Dir(full), 0o755)
			os.WriteFile(full, []byte(s), 0o644)
		}
		if mainRel == "" {
			mainRel = "main.tsh"
		}
		jobs[i] = wJob{ID: i, Main: filepath.Join(dir, mainRel)}
	}
	classes := map[string]int{}
	var mu sync.Mutex
	sampleN := 0
	runInWorkers(jobs, 16, "plain", 20*time.Second, 90*time.Second, func(j wJob, res wResult) {
		in := inputs[j.ID]
		id := in.key
		for _, n := range sortedKeys(in.files) {
			id += "\x00" + n + "\x00" + in.files[n]
		}
		c.Eval(id, true)
		files := map[string]string{}
		for n, s := range in.files {
			files[n] = s
		}
		if res.Unconfirmed {
			c.Inconclusive("worker death or timeout not confirmed in isolation (confirmation budget used up): " + res.Died)
			return
		}
		if res.Died != "" {
			what := "worker process died while transpiling this input (fatal error, e.g. stack overflow)"
			if res.Hang {
				what = "Transpile did not return within 20 s under load nor within 90 s alone"
			}
			files["worker-stderr.txt"] = res.Died
			c.Violation(in.key, what+": "+firstLine(res.Died), files)
			return
		}
		for _, t := range []struct {
			name string
			r    wTarget
		}{{"bash", res.Bash}, {"batch", res.Batch}} {
			var bad string
			switch {
			case t.r.Panic != "":
				bad = "Go panic escaped Transpile: " + firstLine(t.r.Panic)
				files["panic-"+t.name+".txt"] = t.r.Panic
			case t.r.HasErr && t.r.Len > 0:
				bad = "script and error returned together"
			case !t.r.HasErr && t.r.Len == 0:
				bad = "neither script nor error returned"
			case t.r.HasErr && strings.TrimSpace(t.r.Err) == "":
				bad = "empty error text"
			}
			if bad != "" {
				c.Violation(t.name+"/"+in.key, bad, files)
				return
			}
		}
		cls := "error"
		if !res.Bash.HasErr {
			cls = "script"
		}
		mu.Lock()
		fam := strings.SplitN(in.key, "/", 3)
		if fam[0] == "config" && len(fam) == 3 {
			classes[fam[0]+"/"+fam[1]+":"+cls]++
		} else {
			classes[fam[0]+":"+cls]++
		}
		if sampleN < 4 && (j.ID%3001 == 5 || strings.HasPrefix(in.key, "config/import-graph/777")) {
			sampleN++
			c.samples = append(c.samples, map[string]interface{}{"key": in.key, "files": files, "bash_error": clip(res.Bash.Err, 200), "script_bytes": res.Bash.Len})
		}
		mu.Unlock()
	})
	c.Extra["outcomes_by_family"] = classes
	c13Depth(c, root)
}

// c13Depth: constructs nested tens of thousands deep. "Never recurses without bound" cannot be observed on small
// inputs, and the real limit (Go's 1 GB goroutine stack) needs megabytes of source which the regexp-per-token lexer
// reads for half a minute. So each input first runs in a worker whose stack is limited to 128 MB: a transpiler with
// bounded recursion answers (script or error); one that overflows there is run again on the same construct 20 times
// deeper under Go's default limit, and only a death there is a violation (the witness is that second input). A
// transpiler that survives the second run recurses deeply but boundedly: counted inconclusive, not a violation.
func c13Depth(c *Check, root string) {
	type gen struct {
		key string
		f   func(n int) string
	}
	gens := []gen{
		{"parentheses", func(n int) string { return "x := " + strings.Repeat("(", n) + "1" + strings.Repeat(")", n) + "\nprint(x)\n" }},
		{"negations", func(n int) string { return "b := " + strings.Repeat("!", n) + "true\nprint(b)\n" }},
		{"calls", func(n int) string {
			return "func id(a int) int {\n\treturn a\n}\nprint(" + strings.Repeat("id(", n) + "1" + strings.Repeat(")", n) + ")\n"
		}},
		{"groups-with-operands", func(n int) string { return "x := " + strings.Repeat("(1 + ", n) + "1" + strings.Repeat(")", n) + "\nprint(x)\n" }},
		{"subscripts", func(n int) string { return "a := []int{0}\nx := " + strings.Repeat("a[", n) + "0" + strings.Repeat("]", n) + "\nprint(x)\n" }},
		{"open-parentheses-only", func(n int) string { return "x := " + strings.Repeat("(", n) + "\n" }},
		{"open-blocks-only", func(n int) string { return strings.Repeat("if true {\n", n) }},
		{"blocks", func(n int) string { return strings.Repeat("if true {\n", n) + strings.Repeat("}\n", n) }},
	}
	depth := func(g gen) int {
		if strings.Contains(g.key, "blocks") {
			return 12000 // each block copies the scope tables: deeper nests are slow long before they are deep
		}
		return 60000
	}
	run := func(path string, stackMB int, limit time.Duration) (wResult, string) {
		w := startWorker("plain", fmt.Sprintf("VERIF_MAXSTACK_MB=%d", stackMB))
		defer w.kill()
		b, _ := json.Marshal(wJob{ID: 1, Main: path})
		w.in.Write(append(b, '\n'))
		type rd struct {
			line string
			err  error
		}
		ch := make(chan rd, 1)
		go func() {
			l, err := w.out.ReadString('\n')
			ch <- rd{l, err}
		}()
		select {
		case x := <-ch:
			if x.err != nil {
				w.cmd.Wait()
				return wResult{}, "died: " + clip(w.errb.String(), 600)
			}
			var r wResult
			if json.Unmarshal([]byte(x.line), &r) != nil {
				return wResult{}, "bad worker reply"
			}
			return r, ""
		case <-time.After(limit):
			return wResult{}, "timeout"
		}
	}
	outcomes := map[string]string{}
	var mu sync.Mutex
	parallelDo(len(gens), 8, func(i int) {
		g := gens[i]
		n := depth(g)
		dir := filepath.Join(root, "depth-"+g.key)
		os.MkdirAll(dir, 0o755)
		path := filepath.Join(dir, "main.tsh")
		os.WriteFile(path, []byte(g.f(n)), 0o644)
		key := fmt.Sprintf("config/depth/%s/%d", g.key, n)
		c.Eval(key, true)
		note := func(s string) {
			mu.Lock()
			outcomes[key] = s
			mu.Unlock()
		}
		res, why := run(path, 128, 150*time.Second)
		if why == "timeout" {
			c.Inconclusive("depth input not answered within 150 s: " + key)
			note("timeout")
			return
		}
		if why == "" {
			for _, t := range []wTarget{res.Bash, res.Batch} {
				if t.Panic != "" {
					c.Violation(key, "Go panic escaped Transpile: "+firstLine(t.Panic), map[string]string{"generator": fmt.Sprintf("%s nested %d deep", g.key, n), "panic.txt": clip(t.Panic, 3000)})
					return
				}
				if (t.HasErr && t.Len > 0) || (!t.HasErr && t.Len == 0) || (t.HasErr && strings.TrimSpace(t.Err) == "") {
					c.Violation(key, "not exactly one of script / non-empty error", map[string]string{"generator": fmt.Sprintf("%s nested %d deep", g.key, n)})
					return
				}
			}
			if res.Bash.HasErr {
				note("error: " + clip(stripDir(res.Bash.Err, dir), 80))
			} else {
				note("script")
			}
			return
		}
		if !strings.Contains(why, "stack") {
			c.Violation(key, "worker process died while transpiling this input: "+firstLine(why), map[string]string{"generator": fmt.Sprintf("%s nested %d deep", g.key, n), "worker-stderr.txt": why})
			return
		}
		// stack overflow under the 128 MB limit: decide under Go's own limit, 20 times deeper
		big := filepath.Join(dir, "main20.tsh")
		os.WriteFile(big, []byte(g.f(20*n)), 0o644)
		_, why2 := run(big, 1024, 900*time.Second)
		switch {
		case strings.HasPrefix(why2, "died") && strings.Contains(why2, "stack"):
			c.Violation(key, fmt.Sprintf("unbounded recursion: %s nested %d deep overflow a 128 MB stack, nested %d deep they overflow Go's 1 GB goroutine stack and the process dies (fatal error, not recoverable)", g.key, n, 20*n),
				map[string]string{"generator": fmt.Sprintf("%s nested %d deep; the source is %d bytes and is not copied here", g.key, 20*n, len(g.f(20*n))), "worker-stderr.txt": why2})
		case why2 == "":
			c.Inconclusive("deep but bounded recursion (128 MB stack too small, 1 GB enough): " + key)
			note("deep-but-bounded")
		default:
			c.Inconclusive("confirmation run of a depth input gave no verdict (" + firstLine(why2) + "): " + key)
			note("unconfirmed")
		}
		os.Remove(big)
	})
	c.Extra["depth_family_outcomes"] = outcomes
}
