package main

import (
	"crypto/sha256"
	"fmt"
	"math/rand"
	"os"
	"regexp"
	"strings"
	"time"
)

func init() { register("C09", checkC09) }

var nativeStrings = map[string]NativeFunc{
	"Contains":  func(a []Value) []Value { return []Value{{T: TBool, B: strings.Contains(a[0].S, a[1].S)}} },
	"HasPrefix": func(a []Value) []Value { return []Value{{T: TBool, B: strings.HasPrefix(a[0].S, a[1].S)}} },
	"Repeat":    func(a []Value) []Value { return []Value{{T: TString, S: strings.Repeat(a[0].S, int(a[1].I))}} },
	"Index":     func(a []Value) []Value { return []Value{{T: TInt, I: int64(strings.Index(a[0].S, a[1].S))}} },
}

// moduleFile builds the content of library file k. deps are (alias, file index)
// pairs it imports; pure=true leaves out top-level effects (files reached along
// several paths).
func moduleFile(k int, name string, deps [][2]interface{}, depNames []string, pure bool, std bool, salt int) *File {
	f := &File{Name: name}
	for i, d := range deps {
		f.Imports = append(f.Imports, Import{Alias: d[0].(string), Path: depNames[i]})
	}
	if std {
		f.Imports = append(f.Imports, Import{Path: "strings"})
	}
	K := int64(k)
	st := []Stmt{
		def("Count", il(K*100)),
		def("secret", il(K)),
		def("Name", sl(fmt.Sprintf("mod%d", k))),
		fn("helper", nil, []Type{TInt}, ret(bin("+", vr("secret"), il(1)))),
		fn("Get", nil, []Type{TInt}, ret(bin("+", vr("Count"), call("helper")))),
		def("Hits", il(0)),
		def("trail", SliceLit{TString, []Expr{sl("t0")}}),
		// every statement form that writes a global of the file, from inside a function of the file
		fn("Touch", nil, []Type{TInt}, IncDec{"Hits", true}, IncDec{"Hits", true}, IncDec{"Hits", false}, OpAssign{"Hits", "*", il(3)}, Assign{[]string{"Hits", "secret"}, []Expr{bin("+", vr("Hits"), il(1)), bin("+", vr("secret"), il(0))}}, SliceSet{"trail", Len{vr("trail")}, vr("Name")}, ret(bin("+", bin("*", vr("Hits"), il(10)), Len{vr("trail")}))),
		fn("Bump", []Param{{"n", TInt}}, []Type{TInt}, set("Count", bin("+", vr("Count"), vr("n"))), OpAssign{"secret", "+", il(1)}, ret(vr("Count"))),
		fn("Label", []Param{{"s", TString}}, []Type{TString}, ret(bin("+", bin("+", vr("Name"), sl(":")), vr("s")))),
		fn("unused", nil, nil, pr(sl("never"))),
		fn("tail", nil, nil, set("Name", bin("+", vr("Name"), sl("")))), // only ever called from this file's top-level code
	}
	// one name for a global and a function of the same file (two name spaces), in both textual orders
	st = append(st, def("twin", il(K+40)), fn("twin", nil, []Type{TInt}, ret(bin("*", vr("twin"), il(2)))), fn("Tag", nil, []Type{TString}, ret(sl("fn"))), def("Tag", sl(fmt.Sprintf("var%d", k))),
		fn("Both", nil, []Type{TString}, ret(bin("+", bin("+", Itoa{bin("+", call("twin"), vr("twin"))}, call("Tag")), vr("Tag")))))
	// a local that every file's function of this name has: the caller reads its own after the callee returned
	{
		body := []Stmt{def("total", bin("+", vr("Count"), il(0))), def("steps", il(1))}
		for _, d := range deps {
			body = append(body, def("part"+d[0].(string), Call{Alias: d[0].(string), Fn: "Sum"}), set("total", bin("+", vr("total"), vr("part"+d[0].(string)))), IncDec{"steps", true})
		}
		body = append(body, ret(bin("+", bin("*", vr("total"), il(10)), vr("steps"))))
		st = append(st, fn("Sum", nil, []Type{TInt}, body...))
	}
	// top-level definitions whose initialisers call k+2 distinct private functions without effects (also in files
	// reached along several paths: running them once per path changes nothing)
	{
		total := Expr(il(0))
		for j := 1; j <= k+2; j++ {
			st = append(st, fn(fmt.Sprintf("pure%d", j), nil, []Type{TInt}, ret(il(int64(j*(k+1))))), def(fmt.Sprintf("pre%d", j), call(fmt.Sprintf("pure%d", j))))
			total = bin("+", total, vr(fmt.Sprintf("pre%d", j)))
		}
		st = append(st, fn("Pre", nil, []Type{TInt}, ret(total)))
	}
	// cross-file calls
	sum := Expr(il(0))
	for _, d := range deps {
		sum = bin("+", sum, Call{Alias: d[0].(string), Fn: "Get"})
	}
	st = append(st, fn("Deep", nil, []Type{TInt}, ret(bin("+", call("Get"), sum))))
	if std {
		st = append(st, fn("Starts", []Param{{"s", TString}}, []Type{TBool}, ret(Call{Alias: "strings", Fn: "HasPrefix", Args: []Expr{vr("s"), vr("Name")}})))
	}
	// a definition whose initialiser is a call: top-level calls also exist in files reached along several paths
	st = append(st, def("Cached", bin("+", call("helper"), il(0))))
	if !pure {
		// the file's first statement is top-level code and its last statement a definition (what follows the
		// definitions of a file that was already seen must not be mistaken for part of them)
		st = append([]Stmt{pr(sl("load"), il(K))}, st...)
		st = append(st, pr(sl("init"), il(K), call("Get"), call("Deep")), set("Count", bin("+", vr("Count"), il(1))), ExprStmt{call("Bump", il(2))})
		// change the state of every imported file (its public and private globals) before any other importer is processed
		for _, d := range deps {
			st = append(st, pr(sl("dep"), Call{Alias: d[0].(string), Fn: "Bump", Args: []Expr{il(K)}}))
			st = append(st, pr(sl("dep-touch"), Call{Alias: d[0].(string), Fn: "Touch"}))
		}
		st = append(st, pr(sl("touch"), call("Touch")), pr(sl("hits"), vr("Hits"), Len{vr("trail")}))
		st = append(st, ExprStmt{call("tail")}, pr(sl("init-done"), il(K), vr("Count")))
		// a global whose initialiser depends on the top-level statements before it (the order of a file's statements
		// is the order of its text, definitions included)
		st = append(st, def("Last", bin("+", vr("Count"), il(0))), fn("Closing", nil, []Type{TInt}, ret(vr("Last"))), pr(sl("last"), il(K), vr("Last"), call("Closing")))
	}
	if salt >= 0 {
		st = append(st, RawStmt{fmt.Sprintf("// variant %d", salt)})
	}
	f.Stmts = st
	return f
}

type c09Shape struct {
	name  string
	edges map[int][]int // file index -> imported file indices (0 is main)
	n     int
	std   map[int]bool
	alias2 bool // main imports file 1 under two aliases
	sameBase bool // every imported file is called mod.tsh and lies in a directory of its own
	names    []string // when set: the file names (index 0 is the main file)
}

func c09Shapes() []c09Shape {
	return []c09Shape{
		{name: "single", n: 2, edges: map[int][]int{0: {1}}},
		{name: "chain3", n: 3, edges: map[int][]int{0: {1}, 1: {2}}},
		{name: "chain4", n: 4, edges: map[int][]int{0: {1}, 1: {2}, 2: {3}}},
		{name: "chain5", n: 5, edges: map[int][]int{0: {1}, 1: {2}, 2: {3}, 3: {4}}},
		{name: "fan2", n: 3, edges: map[int][]int{0: {1, 2}}},
		{name: "fan3", n: 4, edges: map[int][]int{0: {1, 2, 3}}},
		{name: "fan2-deep", n: 5, edges: map[int][]int{0: {1, 2}, 1: {3}, 2: {4}}},
		{name: "diamond", n: 4, edges: map[int][]int{0: {1, 2}, 1: {3}, 2: {3}}},
		{name: "diamond-plus-direct", n: 4, edges: map[int][]int{0: {1, 2, 3}, 1: {3}, 2: {3}}},
		{name: "two-aliases", n: 2, edges: map[int][]int{0: {1}}, alias2: true},
		{name: "std-and-local", n: 2, edges: map[int][]int{0: {1}}, std: map[int]bool{0: true}},
		{name: "local-imports-std", n: 2, edges: map[int][]int{0: {1}}, std: map[int]bool{1: true}},
		// equal file names in different directories
		{name: "fan2-same-basename", n: 3, edges: map[int][]int{0: {1, 2}}, sameBase: true},
		{name: "chain3-same-basename", n: 3, edges: map[int][]int{0: {1}, 1: {2}}, sameBase: true},
		{name: "diamond-same-basename", n: 4, edges: map[int][]int{0: {1, 2}, 1: {3}, 2: {3}}, sameBase: true},
		// two importers in different directories write the same import path and mean different files
		{name: "same-written-path", n: 5, edges: map[int][]int{0: {1, 2}, 1: {3}, 2: {4}}, names: []string{"main.tsh", "d1/a.tsh", "d2/b.tsh", "d1/util.tsh", "d2/util.tsh"}},
		{name: "same-written-path-deep", n: 5, edges: map[int][]int{0: {1, 2}, 1: {3}, 2: {4}}, names: []string{"main.tsh", "p/q/a.tsh", "r/b.tsh", "p/q/lib/util.tsh", "r/lib/util.tsh"}},
		// local files named like modules of the standard library, imported by path under an alias
		{name: "local-named-like-std", n: 3, edges: map[int][]int{0: {1, 2}}, names: []string{"main.tsh", "strings.tsh", "sub/os.tsh"}},
		{name: "local-named-like-std-next-to-importer", n: 3, edges: map[int][]int{0: {1}, 1: {2}}, names: []string{"main.tsh", "lib/a.tsh", "lib/strings.tsh"}},
		{name: "both-import-std", n: 3, edges: map[int][]int{0: {1, 2}}, std: map[int]bool{0: true, 1: true, 2: true}},
	}
}

// build renders shape s; salts[k] >= 0 appends a variant comment to file k.
func (s c09Shape) build(salts map[int]int) *Program {
	names := make([]string, s.n)
	names[0] = "main.tsh"
	for k := 1; k < s.n; k++ {
		names[k] = fmt.Sprintf("lib%d.tsh", k)
		if k%2 == 0 {
			names[k] = fmt.Sprintf("sub/lib%d.tsh", k)
		}
		if s.sameBase {
			names[k] = fmt.Sprintf("d%d/mod.tsh", k)
		}
		if s.names != nil {
			names[k] = s.names[k]
		}
	}
	// count in-degree to find files reached along several paths
	indeg := map[int]int{}
	for _, outs := range s.edges {
		for _, t := range outs {
			indeg[t]++
		}
	}
	if s.alias2 {
		indeg[1]++
	}
	// a file counts as reached along several paths when the number of import paths from main to it exceeds one
	// (an importer that is itself reached twice passes that on)
	{
		paths := map[int]int{0: 1}
		for i := 0; i < s.n; i++ { // edges only lead to higher indices
			for _, t := range s.edges[i] {
				paths[t] += paths[i]
			}
			if s.alias2 && i == 0 {
				paths[1] += paths[0]
			}
		}
		for k, v := range paths {
			if v > 1 && indeg[k] < 2 {
				indeg[k] = 2
			}
		}
	}
	p := &Program{}
	relTo := func(from, to int) string {
		// import paths are relative to the importing file's directory
		fromDir := ""
		if strings.Contains(names[from], "/") {
			fromDir = names[from][:strings.LastIndex(names[from], "/")]
		}
		if fromDir == "" {
			return names[to]
		}
		if strings.HasPrefix(names[to], fromDir+"/") {
			return strings.TrimPrefix(names[to], fromDir+"/")
		}
		return "../" + names[to]
	}
	files := make([]*File, s.n)
	for k := s.n - 1; k >= 1; k-- {
		deps := [][2]interface{}{}
		depNames := []string{}
		for _, t := range s.edges[k] {
			deps = append(deps, [2]interface{}{fmt.Sprintf("m%d", t), t})
			depNames = append(depNames, relTo(k, t))
		}
		salt := -1
		if v, ok := salts[k]; ok {
			salt = v
		}
		files[k] = moduleFile(k, names[k], deps, depNames, indeg[k] > 1, s.std[k], salt)
	}
	// main file
	mainF := &File{Name: "main.tsh"}
	st := []Stmt{def("Count", il(7)), def("secret", sl("main-secret")), fn("helper", nil, []Type{TString}, ret(sl("main-helper"))), fn("Get", nil, []Type{TInt}, ret(bin("*", vr("Count"), il(2))))}
	aliases := []string{}
	for _, t := range s.edges[0] {
		a := fmt.Sprintf("m%d", t)
		mainF.Imports = append(mainF.Imports, Import{Alias: a, Path: names[t]})
		aliases = append(aliases, a)
	}
	if s.alias2 {
		mainF.Imports = append(mainF.Imports, Import{Alias: "again", Path: names[1]})
		aliases = append(aliases, "again")
	}
	if s.std[0] {
		mainF.Imports = append(mainF.Imports, Import{Path: "strings"})
	}
	st = append(st, pr(sl("main"), vr("Count"), vr("secret"), call("helper"), call("Get")))
	for _, a := range aliases {
		st = append(st,
			pr(sl(a), Call{Alias: a, Fn: "Get"}, Call{Alias: a, Fn: "Deep"}),
			pr(sl(a), Call{Alias: a, Fn: "Bump", Args: []Expr{il(5)}}, Call{Alias: a, Fn: "Label", Args: []Expr{sl("x y")}}),
			pr(sl(a), Call{Alias: a, Fn: "Get"}),
			pr(sl(a), Call{Alias: a, Fn: "Both"}, Call{Alias: a, Fn: "Sum"}, Call{Alias: a, Fn: "Pre"}),
		)
	}
	if s.std[0] {
		st = append(st, pr(Call{Alias: "strings", Fn: "Contains", Args: []Expr{sl("hello"), sl("ell")}}, Call{Alias: "strings", Fn: "Repeat", Args: []Expr{sl("ab"), il(2)}}))
	}
	if s.std[1] {
		st = append(st, pr(Call{Alias: "m1", Fn: "Starts", Args: []Expr{sl("mod1-x")}}, Call{Alias: "m1", Fn: "Starts", Args: []Expr{sl("zzz")}}))
	}
	st = append(st, set("Count", bin("+", vr("Count"), il(1))), pr(sl("end"), vr("Count"), call("Get")))
	mainF.Stmts = st
	files[0] = mainF
	p.Files = files
	return p
}

var bashFuncDef = regexp.MustCompile(`^([A-Za-z_][A-Za-z0-9_]*)\(\) \{$`)
var bashInvocation = regexp.MustCompile(`^\s*([A-Za-z_][A-Za-z0-9_]*)( |$)`)

// linkMonitor checks the emitted Bash text: every invoked user function is
// defined earlier; nothing is defined twice.
func linkMonitor(script string) []string {
	problems := []string{}
	defined := map[string]int{}
	lines := strings.Split(script, "\n")
	for _, l := range lines {
		if m := bashFuncDef.FindStringSubmatch(l); m != nil {
			defined[m[1]]++
			if defined[m[1]] == 2 {
				problems = append(problems, "function "+m[1]+" is defined twice in the script")
			}
		}
	}
	seen := map[string]bool{}
	for _, l := range lines {
		if m := bashFuncDef.FindStringSubmatch(l); m != nil {
			seen[m[1]] = true
			continue
		}
		if m := bashInvocation.FindStringSubmatch(l); m != nil {
			name := m[1]
			if _, isFn := defined[name]; isFn && !seen[name] {
				problems = append(problems, "function "+name+" is invoked before its definition")
			}
			// hash-prefixed names that are not defined anywhere
			if regexp.MustCompile(`^[a-z]?[0-9a-f]{7}_[A-Za-z]`).MatchString(name) && defined[name] == 0 && !strings.Contains(l, "=") {
				problems = append(problems, "imported function "+name+" is invoked but not defined in the script")
			}
		}
	}
	return problems
}

// c09CallGraphProgram: 2-5 files; every file defines 4-8 functions (public and private, some of them never
// called); a function calls functions defined before it in its file and public functions of the files its file
// imports; top-level code of main and of singly imported files calls some of them. Every function prints its
// name, so the output is the trace of the calls; the number of calls per program is bounded while generating.
func c09CallGraphProgram(r *rand.Rand) *Program {
	n := 2 + r.Intn(4)
	imports := map[int][]int{}
	indeg := map[int]int{} // number of import paths from main (top-level code only where it is 1)
	for j := 1; j < n; j++ {
		first := r.Intn(j)
		for i := 0; i < j; i++ {
			if i == first || r.Intn(3) == 0 {
				imports[i] = append(imports[i], j)
			}
		}
	}
	indeg[0] = 1
	for i := 0; i < n; i++ {
		for _, t := range imports[i] {
			indeg[t] += indeg[i]
		}
	}
	type fdef struct {
		name string
		pub  bool
		cost int
	}
	funcs := make([][]fdef, n)
	files := make([]*File, n)
	for k := n - 1; k >= 0; k-- {
		f := &File{Name: fmt.Sprintf("mod%d.tsh", k)}
		if k == 0 {
			f.Name = "main.tsh"
		}
		for _, t := range imports[k] {
			f.Imports = append(f.Imports, Import{Alias: fmt.Sprintf("m%d", t), Path: fmt.Sprintf("mod%d.tsh", t)})
		}
		st := []Stmt{def("hits", il(0))}
		nf := 4 + r.Intn(5)
		for i := 0; i < nf; i++ {
			fd := fdef{pub: r.Intn(3) != 0, cost: 1}
			if fd.pub {
				fd.name = fmt.Sprintf("F%d", i)
			} else {
				fd.name = fmt.Sprintf("g%d", i)
			}
			body := []Stmt{pr(sl(fmt.Sprintf("%d.%s", k, fd.name))), IncDec{"hits", true}}
			sum := Expr(il(int64(k*10 + i)))
			// own functions defined earlier
			for tries := r.Intn(3); tries > 0 && len(funcs[k]) > 0; tries-- {
				cal := funcs[k][r.Intn(len(funcs[k]))]
				if fd.cost+cal.cost > 40 {
					continue
				}
				fd.cost += cal.cost
				if r.Intn(2) == 0 {
					sum = bin("+", sum, call(cal.name))
				} else {
					body = append(body, ExprStmt{call(cal.name)})
				}
			}
			// public functions of imported files
			for tries := r.Intn(3); tries > 0 && len(imports[k]) > 0; tries-- {
				t := imports[k][r.Intn(len(imports[k]))]
				pubs := []fdef{}
				for _, g := range funcs[t] {
					if g.pub {
						pubs = append(pubs, g)
					}
				}
				if len(pubs) == 0 {
					continue
				}
				cal := pubs[r.Intn(len(pubs))]
				if fd.cost+cal.cost > 40 {
					continue
				}
				fd.cost += cal.cost
				e := Call{Alias: fmt.Sprintf("m%d", t), Fn: cal.name}
				switch r.Intn(3) {
				case 0:
					sum = bin("+", sum, e)
				case 1:
					body = append(body, ExprStmt{e})
				default:
					body = append(body, ifs(cmp(">", e, il(-1)), pr(sl("ok"))))
				}
			}
			body = append(body, ret(sum))
			st = append(st, fn(fd.name, nil, []Type{TInt}, body...))
			funcs[k] = append(funcs[k], fd)
			// top-level code between the definitions (main and singly imported files only)
			if (k == 0 || indeg[k] == 1) && r.Intn(4) == 0 {
				st = append(st, def(fmt.Sprintf("got%d", i), call(fd.name)), pr(sl(fmt.Sprintf("top %d", k)), vr(fmt.Sprintf("got%d", i)), vr("hits")))
			}
		}
		if k == 0 {
			budget := 0
			for _, t := range imports[0] {
				for _, g := range funcs[t] {
					if g.pub && r.Intn(2) == 0 && budget+g.cost < 150 {
						budget += g.cost
						st = append(st, pr(sl("main"), Call{Alias: fmt.Sprintf("m%d", t), Fn: g.name}))
					}
				}
			}
			for _, g := range funcs[0] {
				if r.Intn(2) == 0 && budget+g.cost < 200 {
					budget += g.cost
					st = append(st, pr(sl("own"), call(g.name)))
				}
			}
			st = append(st, pr(sl("end"), vr("hits")))
		}
		f.Stmts = st
		files[k] = f
	}
	return &Program{Files: files}
}

func checkC09(c *Check) {
	c.Rule = "multi-file programs over 20 import-graph shapes (among them: importers in different directories writing the same import path, local files named like std modules, definitions with effectful initialisers in files reached twice; single, chains of 3-5, fan-out 2-3 with top-level calls in every import, diamonds, one file under two aliases, std + local, local importing std) whose files share names (Count, secret, helper, Get) and exercise public/private functions, globals read and written by their own file's functions, cross-file calls and top-level code; each imported file is additionally rendered in variants (a trailing comment) until every first hex digit 0-f of its content-hash prefix has been executed, plus mined contents whose digest starts with 00, has only decimal digits, only letters, or a zero in second place; every statement form that writes a global (=, op=, ++/--, multi-assignment, element write) runs inside the imported files; random acyclic import graphs over 3-6 files; random call graphs across 2-5 files (4-8 functions per file, calls to earlier own functions and to imported public functions from function bodies and from top-level code, bounded call counts, every function printing its name); negative cases (private call, missing/unknown/duplicate alias, unknown function, missing file); oracle = reference interpreter with module semantics + a text monitor on the emitted Bash (every invoked function defined earlier, nothing defined twice) + real bash run. Non-trivial = at least one cross-file call executed; distinct = SHA-256 of all files"
	c.Assumptions = []string{"files reached along several import paths contain only definitions with pure initialisers (whether their top-level effects run once is not stated)", "std strings functions modelled by Go's strings in the reference"}
	runProbes(c, bashProbeJudge)
	nontrivial := func(r Result) bool { return len(r.Stdout) > 0 }
	type mcase struct {
		key  string
		prog *Program
	}
	cases := []mcase{}
	r := rand.New(rand.NewSource(c.Seed*9000011 + 3))
	digitsSeen := map[byte]bool{}
	hashClassesSeen := map[string]bool{}
	for _, sh := range c09Shapes() {
		cases = append(cases, mcase{"shape/" + sh.name + "/base", sh.build(nil)})
		// hash sweep: for each imported file, variants until all 16 first digits occurred
		for k := 1; k < sh.n; k++ {
			if !c.Thorough() && k > 1 && sh.n > 3 && r.Intn(2) == 0 {
				continue
			}
			need := map[byte]bool{}
			for salt := 0; len(need) < 16 && salt < 400; salt++ {
				p := sh.build(map[int]int{k: salt})
				src := RenderFile(p.Files[k])
				h := sha256.Sum256([]byte(src))
				d := fmt.Sprintf("%x", h[:1])[0]
				if need[d] {
					continue
				}
				need[d] = true
				digitsSeen[d] = true
				cases = append(cases, mcase{fmt.Sprintf("shape/%s/hash-sweep/file%d/first-digit=%c", sh.name, k, d), p})
			}
		}
		// rarer shapes of the hex digest (the import prefix is cut from it): two leading zeros, only
		// decimal digits, only letters, a zero right after the first digit
		if sh.n > 1 {
			classes := map[string]func(hx string) bool{
				"two-leading-zeros": func(hx string) bool { return strings.HasPrefix(hx, "00") },
				"all-decimal-7":     func(hx string) bool { return strings.Trim(hx[:7], "0123456789") == "" },
				"all-letters-4":     func(hx string) bool { return strings.Trim(hx[:4], "abcdef") == "" },
				"zero-second":       func(hx string) bool { return hx[1] == '0' && hx[0] != '0' },
			}
			found := map[string]bool{}
			for salt := 1000; len(found) < len(classes) && salt < 1000+c.Pick(2500, 6000); salt++ {
				p := sh.build(map[int]int{1: salt})
				h := sha256.Sum256([]byte(RenderFile(p.Files[1])))
				hx := fmt.Sprintf("%x", h[:8])
				for _, cn := range sortedKeys(map[string]string{"two-leading-zeros": "", "all-decimal-7": "", "all-letters-4": "", "zero-second": ""}) {
					if !found[cn] && classes[cn](hx) {
						found[cn] = true
						hashClassesSeen[cn] = true
						cases = append(cases, mcase{fmt.Sprintf("shape/%s/hash-sweep/file1/%s", sh.name, cn), p})
					}
				}
			}
		}
	}
	// two files that differ in comments, blank lines and indentation only (their tokens are equal): still two files
	{
		body := func(comment string, indent string) *File {
			return &File{Stmts: []Stmt{RawStmt{"// " + comment}, def("stock", il(0)), RawStmt{"// " + comment + " again"},
				fn("Add", []Param{{"n", TInt}}, []Type{TInt}, RawStmt{indent + "// inside " + comment}, OpAssign{"stock", "+", vr("n")}, ret(vr("stock"))),
				fn("Stock", nil, []Type{TInt}, ret(vr("stock")))}}
		}
		apples, pears := body("apples", ""), body("pears are kept in another file", "\t\t")
		apples.Name, pears.Name = "apples.tsh", "pears.tsh"
		mainF := &File{Name: "main.tsh", Imports: []Import{{Alias: "a", Path: "apples.tsh"}, {Alias: "p", Path: "pears.tsh"}}, Stmts: []Stmt{
			pr(Call{Alias: "a", Fn: "Add", Args: []Expr{il(7)}}, Call{Alias: "p", Fn: "Add", Args: []Expr{il(1)}}), pr(Call{Alias: "a", Fn: "Stock"}, Call{Alias: "p", Fn: "Stock"}),
			pr(Call{Alias: "p", Fn: "Add", Args: []Expr{il(10)}}), pr(Call{Alias: "a", Fn: "Stock"}, Call{Alias: "p", Fn: "Stock"})}}
		cases = append(cases, mcase{"twin-tokens/comments-and-layout", &Program{Files: []*File{mainF, apples, pears}}})
		// the same tokens with other blanks: "1"+"2" here, 1+2 there would be other tokens; here only the spelling of blanks differs
		q1 := &File{Name: "q1.tsh", Stmts: []Stmt{def("level", il(1)), fn("Up", nil, []Type{TInt}, IncDec{"level", true}, ret(vr("level")))}}
		q2 := &File{Name: "sub/q2.tsh", Stmts: []Stmt{RawStmt{"//"}, def("level", il(1)), RawStmt{"//"}, RawStmt{"// q2"}, fn("Up", nil, []Type{TInt}, IncDec{"level", true}, ret(vr("level")))}}
		main2 := &File{Name: "main.tsh", Imports: []Import{{Alias: "x", Path: "q1.tsh"}, {Alias: "y", Path: "sub/q2.tsh"}}, Stmts: []Stmt{pr(Call{Alias: "x", Fn: "Up"}, Call{Alias: "x", Fn: "Up"}, Call{Alias: "y", Fn: "Up"})}}
		cases = append(cases, mcase{"twin-tokens/blank-lines", &Program{Files: []*File{main2, q1, q2}}})
	}
	// diamonds whose shared file calls n = 1..9 distinct private functions at top level while each importer's own
	// top-level code is one single call of a private function nobody else calls
	for n := 1; n <= 9; n++ {
		shared := &File{Name: "settings.tsh"}
		total := Expr(il(0))
		for j := 1; j <= n; j++ {
			shared.Stmts = append(shared.Stmts, fn(fmt.Sprintf("part%d", j), nil, []Type{TInt}, ret(il(int64(j)))), def(fmt.Sprintf("v%d", j), call(fmt.Sprintf("part%d", j))))
			total = bin("+", total, vr(fmt.Sprintf("v%d", j)))
		}
		shared.Stmts = append(shared.Stmts, fn("Get", []Param{{"k", TInt}}, []Type{TInt}, ret(bin("*", vr("k"), total))))
		mk := func(name, priv, pub string, k int64) *File {
			return &File{Name: name, Imports: []Import{{Alias: "settings", Path: "settings.tsh"}}, Stmts: []Stmt{
				def("value", il(0)), fn(priv, nil, nil, set("value", Call{Alias: "settings", Fn: "Get", Args: []Expr{il(k)}})), fn(pub, nil, []Type{TInt}, ret(vr("value"))), callS(priv)}}
		}
		mainF := &File{Name: "main.tsh", Imports: []Import{{Alias: "net", Path: "net.tsh"}, {Alias: "disk", Path: "disk.tsh"}}, Stmts: []Stmt{pr(sl("address"), Call{Alias: "net", Fn: "Address"}), pr(sl("root"), Call{Alias: "disk", Fn: "Root"})}}
		cases = append(cases, mcase{fmt.Sprintf("diamond-single-top-level-call/shared-calls=%d", n), &Program{Files: []*File{mainF, mk("net.tsh", "setup", "Address", 2), mk("disk.tsh", "mount", "Root", 3), shared}}})
	}
	// definitions of a file reached along two paths whose initialiser is a call with an effect: the file is defined
	// once, so the effect shows once - for a single value, for a value list from one call, for both in one file
	for _, kind := range []string{"single", "pair", "both", "pair-typed"} {
		shared := &File{Name: "settings.tsh"}
		shared.Stmts = append(shared.Stmts, fn("one", nil, []Type{TInt}, pr(sl("one called")), ret(il(5))), fn("pair", nil, []Type{TInt, TString}, pr(sl("pair called")), ret(il(7), sl("seven"))))
		get := Expr(il(0))
		if kind == "single" || kind == "both" {
			shared.Stmts = append(shared.Stmts, def("s1", call("one")))
			get = bin("+", get, vr("s1"))
		}
		if kind == "pair" || kind == "both" {
			shared.Stmts = append(shared.Stmts, VarDecl{Names: []string{"q", "r"}, Values: []Expr{call("pair")}})
			get = bin("+", get, bin("+", vr("q"), Len{vr("r")}))
		}
		if kind == "pair-typed" {
			shared.Stmts = append(shared.Stmts, VarDecl{Names: []string{"q", "r"}, Short: true, Values: []Expr{call("pair")}})
			get = bin("+", get, bin("+", vr("q"), Len{vr("r")}))
		}
		shared.Stmts = append(shared.Stmts, fn("Get", nil, []Type{TInt}, ret(get)))
		mk := func(name, pub string) *File {
			return &File{Name: name, Imports: []Import{{Alias: "settings", Path: "settings.tsh"}}, Stmts: []Stmt{fn(pub, nil, []Type{TInt}, ret(Call{Alias: "settings", Fn: "Get"}))}}
		}
		mainF := &File{Name: "main.tsh", Imports: []Import{{Alias: "b", Path: "b.tsh"}, {Alias: "c", Path: "c.tsh"}}, Stmts: []Stmt{pr(Call{Alias: "b", Fn: "B"}, Call{Alias: "c", Fn: "C"})}}
		cases = append(cases, mcase{"diamond-effectful-definition/" + kind, &Program{Files: []*File{mainF, mk("b.tsh", "B"), mk("c.tsh", "C"), shared}}})
		twice := &File{Name: "main.tsh", Imports: []Import{{Alias: "s1", Path: "settings.tsh"}, {Alias: "s2", Path: "settings.tsh"}}, Stmts: []Stmt{pr(Call{Alias: "s1", Fn: "Get"}, Call{Alias: "s2", Fn: "Get"})}}
		cases = append(cases, mcase{"two-aliases-effectful-definition/" + kind, &Program{Files: []*File{twice, shared}}})
	}
	// random acyclic import graphs over 3-6 files with the module content above (every file beyond main is reached;
	// files reached along several paths are the definition-only kind)
	nShapes := c.Pick(20, 400)
	for k := 0; k < nShapes; k++ {
		rr := rand.New(rand.NewSource(c.Seed*9000017 + int64(k)))
		n := 3 + rr.Intn(4)
		sh := c09Shape{name: fmt.Sprintf("random-%d", k), n: n, edges: map[int][]int{}, std: map[int]bool{}}
		for j := 1; j < n; j++ {
			// one importer among the files before j, further importers with probability 1/3 each
			first := rr.Intn(j)
			for i := 0; i < j; i++ {
				if i == first || rr.Intn(3) == 0 {
					sh.edges[i] = append(sh.edges[i], j)
				}
			}
		}
		for i := 0; i < n; i++ {
			if rr.Intn(5) == 0 {
				sh.std[i] = true
			}
		}
		if sh.std[1] && len(sh.edges[0]) > 0 && sh.edges[0][0] != 1 {
			sh.std[1] = false // main prints m1.Starts only when it imports file 1 itself
		}
		hasM1 := false
		for _, t := range sh.edges[0] {
			if t == 1 {
				hasM1 = true
			}
		}
		if !hasM1 {
			sh.std[1] = false
		}
		sh.alias2 = hasM1 && rr.Intn(4) == 0
		cases = append(cases, mcase{"shape/" + sh.name, sh.build(map[int]int{1 + rr.Intn(n-1): rr.Intn(50)})})
	}
	// random call graphs across files: which functions survive the removal of unused ones is decided by a walk
	// over calls inside functions, calls at top level and calls across import boundaries
	nGraphs := c.Pick(60, 3000)
	for k := 0; k < nGraphs; k++ {
		cases = append(cases, mcase{fmt.Sprintf("call-graph/%d", k), c09CallGraphProgram(rand.New(rand.NewSource(c.Seed*9000029 + int64(k))))})
	}
	c.Extra["random_import_graphs"] = nShapes
	c.Extra["random_call_graphs"] = nGraphs
	c.Extra["hash_first_digits_covered"] = len(digitsSeen)
	c.Extra["hash_classes_covered"] = sortedKeys(map[string]string(func() map[string]string { m := map[string]string{}; for k := range hashClassesSeen { m[k] = "" }; return m }()))
	viol := 0
	parallelDo(len(cases), 16, func(i int) {
		mc := cases[i]
		it := &Interp{Width: 64, MaxSteps: interpBudget, prog: mc.prog, Natives: map[string]map[string]NativeFunc{"strings": nativeStrings}}
		ref := it.Run()
		if ref.Undefined != "" {
			fatalf("oracle fault on %s: %s", mc.key, ref.Undefined)
		}
		dir := newSandbox()
		defer os.RemoveAll(dir)
		mainPath, srcs := WriteProgram(dir, mc.prog)
		id := ""
		for _, n := range sortedKeys(srcs) {
			id += n + "\x00" + srcs[n] + "\x00"
		}
		c.Eval(id, nontrivial(ref))
		files := map[string]string{"expected.stdout": ref.Stdout}
		for n, s := range srcs {
			files[n] = s
		}
		tr := TranspileFile(mainPath, Bash, 30*time.Second)
		if !tr.OK() {
			msg := "hang"
			if tr.Err != nil {
				msg = stripDir(tr.Err.Error(), dir)
			} else if tr.Panic != "" {
				msg = "panic: " + firstLine(tr.Panic)
			}
			c.Violation(mc.key, "legal import graph rejected: "+msg, files)
			return
		}
		files["script.sh"] = tr.Script
		problems := linkMonitor(tr.Script)
		run := newSandbox()
		defer os.RemoveAll(run)
		rr := RunBash(run, tr.Script, RunOpts{Timeout: 20 * time.Second})
		if rr.TimedOut {
			verdict, r2 := DecideTimeout(tr.Script, 200*ref.Steps+20000, RunOpts{}, newSandbox)
			if verdict == "finished" {
				rr = r2
			} else if verdict == "inconclusive" {
				c.Inconclusive("bash watchdog fired twice without a step-limit verdict")
				return
			} else {
				problems = append(problems, "script does not terminate (step limit exceeded)")
			}
		}
		files["observed.stdout"] = rr.Stdout
		files["observed.stderr"] = rr.Stderr
		if rr.Stdout != ref.Stdout {
			problems = append(problems, "stdout differs: "+firstDiff(ref.Stdout, rr.Stdout))
		}
		if rr.Stderr != "" {
			problems = append(problems, "stderr: "+oneLine(clip(rr.Stderr, 200)))
		}
		if rr.Exit != ref.Exit {
			problems = append(problems, fmt.Sprintf("exit %d, expected %d", rr.Exit, ref.Exit))
		}
		// the batch target must at least accept the same graph
		if tb := TranspileFile(mainPath, Batch, 30*time.Second); !tb.OK() {
			problems = append(problems, "Batch target rejects the graph")
		}
		if len(problems) > 0 {
			viol++
			c.Violation(mc.key, strings.Join(problems, "; "), files)
			return
		}
		c.Count("output_lines_compared", strings.Count(ref.Stdout, "\n"))
		if i%97 == 5 {
			c.Sample(map[string]interface{}{"key": mc.key, "files": srcs, "expected_stdout": clip(ref.Stdout, 500)})
		}
	})
	// negative cases
	lib := "func Pub() int {\n\treturn 1\n}\nfunc priv() int {\n\treturn 2\n}\nfunc _under() int {\n\treturn 5\n}\nfunc _Upper() int {\n\treturn 6\n}\nfunc mIXED() int {\n\treturn 7\n}\nfunc z9() int {\n\treturn 8\n}\nHidden := 3\n_secret := 4\n"
	neg := []struct {
		key, main string
		extra     map[string]string
		accept    bool
	}{
		{"private-call", "import m \"lib.tsh\"\n\nprint(m.priv())\n", map[string]string{"lib.tsh": lib}, false},
		{"private-call-underscore", "import m \"lib.tsh\"\n\nprint(m._under())\n", map[string]string{"lib.tsh": lib}, false},
		{"private-call-underscore-upper", "import m \"lib.tsh\"\n\nprint(m._Upper())\n", map[string]string{"lib.tsh": lib}, false},
		{"private-call-lower-then-upper", "import m \"lib.tsh\"\n\nprint(m.mIXED())\n", map[string]string{"lib.tsh": lib}, false},
		{"private-call-letter-digit", "import m \"lib.tsh\"\n\nprint(m.z9())\n", map[string]string{"lib.tsh": lib}, false},
		{"private-call-as-statement-in-function", "import m \"lib.tsh\"\n\nfunc f() {\n\tm._under()\n}\nf()\n", map[string]string{"lib.tsh": lib}, false},
		{"imported-underscore-variable-unqualified", "import m \"lib.tsh\"\n\nprint(_secret)\n", map[string]string{"lib.tsh": lib}, false},
		{"public-call", "import m \"lib.tsh\"\n\nprint(m.Pub())\n", map[string]string{"lib.tsh": lib}, true},
		{"missing-alias", "import \"lib.tsh\"\n\nprint(1)\n", map[string]string{"lib.tsh": lib}, false},
		{"unknown-alias", "import m \"lib.tsh\"\n\nprint(x.Pub())\n", map[string]string{"lib.tsh": lib}, false},
		{"unknown-alias-own-function-of-that-name", "import m \"lib.tsh\"\n\nfunc Pub() int {\n\treturn 10\n}\nprint(mx.Pub())\n", map[string]string{"lib.tsh": lib}, false},
		{"unknown-alias-own-function-in-function", "import m \"lib.tsh\"\n\nfunc Double(a int) int {\n\treturn a * 2\n}\nfunc use() int {\n\treturn zz.Double(4)\n}\nprint(use())\n", map[string]string{"lib.tsh": lib}, false},
		{"alias-of-other-import-for-function", "import (\n\tm \"lib.tsh\"\n\tn \"lib2.tsh\"\n)\n\nprint(n.Pub())\n", map[string]string{"lib.tsh": lib, "lib2.tsh": "func Other() int {\n\treturn 1\n}\n"}, false},
		{"explicit-alias-equals-implicit-std-alias", "import (\n\tstrings \"lib.tsh\"\n\t\"strings\"\n)\n\nprint(strings.Pub())\n", map[string]string{"lib.tsh": lib}, false},
		{"implicit-std-alias-then-same-explicit-alias", "import (\n\t\"strings\"\n\tstrings \"lib.tsh\"\n)\n\nprint(strings.Contains(\"a\", \"a\"))\n", map[string]string{"lib.tsh": lib}, false},
		{"same-std-module-twice-without-alias", "import (\n\t\"strings\"\n\t\"strings\"\n)\n\nprint(strings.Contains(\"a\", \"a\"))\n", nil, false},
		{"std-module-under-two-aliases", "import (\n\ts1 \"strings\"\n\ts2 \"strings\"\n)\n\nprint(s1.Contains(\"a\", \"a\"), s2.HasPrefix(\"ab\", \"a\"))\n", nil, true},
		{"std-module-with-extension", "import \"strings.tsh\"\n\nprint(strings.Contains(\"ab\", \"a\"))\n", nil, true},
		{"std-modules-with-extension-and-alias", "import (\n\ts \"strings.tsh\"\n\to \"os.tsh\"\n)\n\nprint(s.HasSuffix(\"ab\", \"b\"), len(o.Shell()) > 0)\n", nil, true},
		{"std-module-with-extension-in-local-file", "import m \"usesstd.tsh\"\n\nprint(m.Up())\n", map[string]string{"usesstd.tsh": "import \"strings.tsh\"\n\nfunc Up() bool {\n\treturn strings.HasPrefix(\"ab\", \"a\")\n}\n"}, true},
		{"std-module-unknown-with-extension", "import \"string.tsh\"\n\nprint(1)\n", nil, false},
		{"unknown-function", "import m \"lib.tsh\"\n\nprint(m.Nope())\n", map[string]string{"lib.tsh": lib}, false},
		{"duplicate-alias", "import (\n\tm \"lib.tsh\"\n\tm \"lib2.tsh\"\n)\n\nprint(m.Pub())\n", map[string]string{"lib.tsh": lib, "lib2.tsh": lib + "// other\n"}, false},
		{"missing-file", "import m \"nope.tsh\"\n\nprint(1)\n", nil, false},
		{"call-without-alias", "import m \"lib.tsh\"\n\nprint(Pub())\n", map[string]string{"lib.tsh": lib}, false},
		{"imported-variable-unqualified", "import m \"lib.tsh\"\n\nprint(Hidden)\n", map[string]string{"lib.tsh": lib}, false},
		{"same-name-local-and-imported", "import m \"lib.tsh\"\n\nfunc Pub() int {\n\treturn 10\n}\nprint(Pub(), m.Pub())\n", map[string]string{"lib.tsh": lib}, true},
		{"std-unknown-function", "import \"strings\"\n\nprint(strings.Nope(\"a\"))\n", nil, false},
		{"std-private-function", "import \"strings\"\n\nprint(strings.contains(\"a\", \"a\"))\n", nil, false},
		{"nested-private-visible-to-owner", "import m \"lib3.tsh\"\n\nprint(m.Wrap())\n", map[string]string{"lib3.tsh": "func inner() int {\n\treturn 4\n}\nfunc Wrap() int {\n\treturn inner() + 1\n}\n"}, true},
		{"transitive-alias-not-visible", "import m \"lib4.tsh\"\n\nprint(q.Pub())\n", map[string]string{"lib4.tsh": "import q \"lib.tsh\"\n\nfunc W() int {\n\treturn q.Pub()\n}\n", "lib.tsh": lib}, false},
	}
	for _, n := range neg {
		a, b, dir := transpileBoth(n.main, n.extra)
		c.Eval("neg/"+n.key+n.main, true)
		want := "reject"
		if n.accept {
			want = "accept"
		}
		if verdictOf(a) != want || verdictOf(b) != want {
			d := ""
			if a.Err != nil {
				d = stripDir(a.Err.Error(), dir)
			}
			files := map[string]string{"main.tsh": n.main}
			for k, v := range n.extra {
				files[k] = v
			}
			c.Violation("negative/"+n.key, fmt.Sprintf("expected %s, got bash=%s batch=%s %s", want, verdictOf(a), verdictOf(b), d), files)
		}
	}
	c.Extra["programs"] = len(cases)
}
