package main

import (
	"crypto/sha256"
	"encoding/hex"
	"fmt"
	"math/rand"
	"os"
	"os/exec"
	"path/filepath"
	"sort"
	"strings"
	"sync"
	"time"

	"github.com/monstermichl/typeshell/transpiler"
)

func init() { register("C14", checkC14) }

type c14Prog struct {
	name  string
	files map[string]string // main is main.tsh
}

func c14Corpus(c *Check) []c14Prog {
	progs := []c14Prog{}
	for i := 0; i < 18; i++ {
		fam := []string{"c01", "c02", "c03"}[i%3]
		cfg := genConfigs[fam]
		cfg.MaxTop = 5
		g := NewGen(14000029+int64(i), cfg)
		progs = append(progs, c14Prog{fmt.Sprintf("gen-%s-%d", fam, i), map[string]string{"main.tsh": RenderFile(g.Program().Files[0])}})
	}
	lib := func(n int) string {
		return fmt.Sprintf("Count := %d\nfunc Get%d() int {\n\treturn %d\n}\nfunc helper%d() int {\n\treturn Get%d() + 1\n}\nfunc Twice%d(a int) int {\n\treturn a * 2 + helper%d()\n}\n", n, n, n, n, n, n, n)
	}
	progs = append(progs,
		c14Prog{"many-functions", map[string]string{"main.tsh": "func a1() int {\n\treturn 1\n}\nfunc a2() int {\n\treturn a1() + 1\n}\nfunc a3(x int, y string) (int, string) {\n\treturn x + a2(), y\n}\nfunc unused() {\n}\nfunc a4() {\n\tprint(a2())\n}\nn, s := a3(1, \"z\")\na4()\nprint(n, s)\n"}},
		c14Prog{"std-strings", map[string]string{"main.tsh": "import \"strings\"\n\nprint(strings.Contains(\"hello\", \"ell\"), strings.Repeat(\"ab\", 3), strings.TrimSpace(\"  x \"))\nparts := strings.Split(\"a,b,c\", \",\")\nprint(len(parts), strings.Join(parts, \"-\"))\n"}},
		c14Prog{"std-os", map[string]string{"main.tsh": "import \"os\"\n\nprint(os.Shell())\n"}},
		c14Prog{"chain", map[string]string{"main.tsh": "import l1 \"l1.tsh\"\n\nprint(l1.Twice1(3))\n", "l1.tsh": "import l2 \"l2.tsh\"\n\n" + lib(1) + "print(l2.Get2())\n", "l2.tsh": lib(2)}},
		c14Prog{"diamond", map[string]string{"main.tsh": "import (\n\tl \"left.tsh\"\n\tr \"right.tsh\"\n)\n\nprint(l.Left(), r.Right())\n", "left.tsh": "import b \"base.tsh\"\n\nfunc Left() int {\n\treturn b.Get3() + 10\n}\n", "right.tsh": "import b \"base.tsh\"\n\nfunc Right() int {\n\treturn b.Twice3(2) + 20\n}\n", "base.tsh": lib(3)}},
		c14Prog{"two-aliases", map[string]string{"main.tsh": "import (\n\tx \"lib.tsh\"\n\ty \"lib.tsh\"\n)\n\nprint(x.Get4(), y.Twice4(1))\n", "lib.tsh": lib(4)}},
		c14Prog{"subdir", map[string]string{"main.tsh": "import h \"sub/dir/h.tsh\"\nimport2 := 1\nprint(h.Get5(), import2)\n", "sub/dir/h.tsh": lib(5)}},
		c14Prog{"std-and-local", map[string]string{"main.tsh": "import (\n\t\"strings\"\n\tl \"lib.tsh\"\n)\n\nprint(strings.HasPrefix(\"abc\", \"a\"), l.Get6())\n", "lib.tsh": "import \"strings\"\n\n" + lib(6) + "func Up() bool {\n\treturn strings.HasSuffix(\"abc\", \"c\")\n}\n"}},
		c14Prog{"std-then-plain-local", map[string]string{"main.tsh": "import (\n\t\"strings\"\n\tl \"lib.tsh\"\n)\n\nprint(strings.HasPrefix(\"abc\", \"a\"), l.Get9())\n", "lib.tsh": lib(9)}},
		c14Prog{"plain-local-then-std", map[string]string{"main.tsh": "import (\n\tl \"lib.tsh\"\n\t\"strings\"\n\to \"os\"\n)\n\nprint(strings.HasSuffix(\"abc\", \"c\"), l.Get10(), len(o.Shell()) > 0)\n", "lib.tsh": lib(10)}},
		c14Prog{"all-builtins", map[string]string{"main.tsh": "s := []string{\"a\"}\ns[3] = \"d\"\nt := []string{}\nn := copy(t, s)\nwrite(\"f.txt\", \"x\")\nwrite(\"f.txt\", \"y\", true)\nif exists(\"f.txt\") {\n\tprint(read(\"f.txt\"), n, len(s), len(\"abc\"), itoa(5), s[0])\n}\na, b, code := @echo(\"hi\") | @cat()\nprint(a, code)\nv := input(\"p: \")\nprint(v)\npanic(\"end\")\n"}},
		// same main file bytes, different imported files: the output must follow the imports
		c14Prog{"twin-a", map[string]string{"main.tsh": "import l \"lib.tsh\"\n\nprint(l.Get7(), l.Twice7(2))\n", "lib.tsh": lib(7)}},
		c14Prog{"twin-b", map[string]string{"main.tsh": "import l \"lib.tsh\"\n\nprint(l.Get7(), l.Twice7(2))\n", "lib.tsh": strings.Replace(lib(7), "return 7", "return 70", 1)}},
		c14Prog{"twin-c", map[string]string{"main.tsh": "import l \"lib.tsh\"\n\nprint(l.Get7(), l.Twice7(2))\n", "lib.tsh": lib(7) + "x := 1 + \"a\"\n"}},
		c14Prog{"twin-deep-a", map[string]string{"main.tsh": "import l \"mid.tsh\"\n\nprint(l.Mid())\n", "mid.tsh": "import b \"base.tsh\"\n\nfunc Mid() int {\n\treturn b.Get8()\n}\n", "base.tsh": lib(8)}},
		c14Prog{"twin-deep-b", map[string]string{"main.tsh": "import l \"mid.tsh\"\n\nprint(l.Mid())\n", "mid.tsh": "import b \"base.tsh\"\n\nfunc Mid() int {\n\treturn b.Get8()\n}\n", "base.tsh": strings.Replace(lib(8), "return 8", "return 80", 1)}},
		// two different files with identical bytes imported side by side (their names share one prefix)
		c14Prog{"twin-files", map[string]string{"main.tsh": "import (\n\ta \"a/counter.tsh\"\n\tb \"b/counter.tsh\"\n)\n\nprint(a.Next(), a.Next(), b.Next())\n", "a/counter.tsh": "count := 0\nfunc Next() int {\n\tcount++\n\treturn count\n}\n", "b/counter.tsh": "count := 0\nfunc Next() int {\n\tcount++\n\treturn count\n}\n"}},
		c14Prog{"twin-files-nested", map[string]string{"main.tsh": "import (\n\tx \"p/mod.tsh\"\n\ty \"q/r/mod.tsh\"\n)\n\nprint(x.Get(), y.Get())\n", "p/mod.tsh": "import u \"util.tsh\"\n\nfunc Get() int {\n\treturn u.One() + 1\n}\n", "p/util.tsh": "func One() int {\n\treturn 1\n}\n", "q/r/mod.tsh": "import u \"util.tsh\"\n\nfunc Get() int {\n\treturn u.One() + 1\n}\n", "q/r/util.tsh": "func One() int {\n\treturn 1\n}\n"}},
		// two different imported files whose content hashes share the seven hex digits the import prefix is cut from
		// (mined below): what one program's import got as prefix says nothing about the other's
		c14Prog{"prefix-collision-a", map[string]string{"main.tsh": "import l \"lib.tsh\"\n\nprint(l.Greet(), l.Same())\n", "lib.tsh": c14CollidingLibs()[0]}},
		c14Prog{"prefix-collision-b", map[string]string{"main.tsh": "import l \"lib.tsh\"\n\nprint(l.Count(), l.Same())\n", "lib.tsh": c14CollidingLibs()[1]}},
		// programs that fail late, in the converter, after every kind of construct has been emitted (state
		// built up during a failed call must not leak into the next call on the same object)
		c14Prog{"multi-values", map[string]string{"main.tsh": c14Rich + "print(\"end\")\n"}},
		c14Prog{"fail-late-string-order", map[string]string{"main.tsh": c14Rich + "late := \"a\" < \"b\"\nprint(late)\n"}},
		c14Prog{"fail-late-break-outside-loop", map[string]string{"main.tsh": c14Rich + "switch a {\ncase 1:\n\tbreak\n}\n"}},
		c14Prog{"fail-late-in-function", map[string]string{"main.tsh": c14Rich + "func tail() bool {\n\tp, q := 1, 2\n\tp, q = q, p\n\tfor i := 0; i < 2; i++ {\n\t\tp += i\n\t}\n\treturn \"x\" > \"y\"\n}\nprint(tail())\n"}},
		c14Prog{"fail-lexical", map[string]string{"main.tsh": "x := \"unterminated\nprint(x)\n"}},
		c14Prog{"fail-syntax", map[string]string{"main.tsh": "if true {\nprint(1)\n"}},
		c14Prog{"fail-type", map[string]string{"main.tsh": "x := 1 + \"a\"\n"}},
		c14Prog{"fail-scope", map[string]string{"main.tsh": "print(nowhere)\n"}},
		c14Prog{"fail-conversion", map[string]string{"main.tsh": "b := \"a\" < \"b\"\nprint(b)\n"}},
		c14Prog{"fail-import", map[string]string{"main.tsh": "import m \"missing.tsh\"\n"}},
		c14Prog{"fail-after-output", map[string]string{"main.tsh": "print(1)\nfunc f() int {\n\treturn 1\n}\nprint(f())\nx := \"s\" < \"t\"\n"}},
	)
	return progs
}

var c14Colliding []string

// c14CollidingLibs mines two library files of different content whose SHA-256 digests agree in the first seven
// hex digits (a birthday search over trailing comments, some 2^14 candidates per side).
func c14CollidingLibs() []string {
	if c14Colliding != nil {
		return c14Colliding
	}
	a := "func Greet() string {\n\treturn \"hello\"\n}\nfunc Same() int {\n\treturn 1\n}\n"
	b := "func Count() int {\n\treturn 42\n}\nfunc Same() int {\n\treturn 2\n}\n"
	seen := map[string]string{}
	for n := 0; n < 400000; n++ {
		va := fmt.Sprintf("%s// a%d\n", a, n)
		ha := shaOf(va)[:7]
		seen[ha] = va
		vb := fmt.Sprintf("%s// b%d\n", b, n)
		if other, ok := seen[shaOf(vb)[:7]]; ok {
			c14Colliding = []string{other, vb}
			return c14Colliding
		}
	}
	// no collision found (practically impossible): two unrelated files, the case then checks nothing special
	c14Colliding = []string{a, b}
	return c14Colliding
}

// c14Rich uses every stateful facility of transpiler and converters once: multi-value lists, helper
// variables, loop counters, function frames, slice and string helpers, if chains, a switch.
const c14Rich = `a, b := 1, 2
a, b = b, a
s := []string{"x", "y"}
s[3] = "z"
t := []string{}
n := copy(t, s)
func swap(p int, q int) (int, int) {
	p, q = q, p
	return p, q
}
func count(w string) int {
	c := 0
	for i, ch := range w {
		if ch == "a" {
			c += i
		} else if ch == "b" {
			c++
		} else {
			continue
		}
	}
	return c
}
a, b = swap(a, b)
w := "abc"
for i := 0; i < 2; i++ {
	for j := 0; j < 2; j++ {
		x, y := i, j
		x, y = y, x
		print(x, y, len(s), n, w[1:2], count("abab"))
	}
}
switch a {
case 1:
	print("one")
default:
	print("other")
}
`

type c14Event struct {
	Proc, History string
	Step          int
	Location      string
	Program       string
	Target        Target
	Sha           string
	IsErr         bool
	TraceSha      string
}

func shaOf(s string) string {
	h := sha256.Sum256([]byte(s))
	return hex.EncodeToString(h[:])
}

func checkC14(c *Check) {
	c.Rule = "event log {process, history, step, tree location, program, target} -> sha256(script) | error, checked offline: for each (program, target) all hashes must be equal. Histories: every ordered pair of (program, target) calls on one transpiler object, random histories of 3-15 calls on one object (fresh converter per call), edit histories (the tree under one path is overwritten between calls on one object with programs that share the main file's bytes but not the imports'), the whole corpus in N fresh processes (different map seeds), in 3 relocated copies of the source tree (deep path, path with blanks, relative path with another cwd), through the tsh command in five target orders, from a working directory holding look-alikes of the imported files (a std directory with other contents), under three other process environments (PATH, locale, HOME, SHELL, TMPDIR, TZ); secondary monitor: the Converter-boundary call trace of a recording wrapper must be identical for identical (program, target). Non-trivial = an observation of a program that transpiles successfully; distinct = (history, step)"
	c.Assumptions = []string{"a fresh converter per Transpile call, as the anchor states the contract", "error texts may contain paths: for failing programs only 'is an error' is compared"}
	corpus := c14Corpus(c)
	root := filepath.Join(scratch(), "c14")
	locs := map[string]string{
		"home":  filepath.Join(root, "home"),
		"deep":  filepath.Join(root, "a/very/deep/path/of/directories/x/y/z"),
		"blank": filepath.Join(root, "dir with blanks/and more"),
	}
	// one copy whose absolute path sorts behind the tool's std directory (the scratch area sorts before it): the
	// order of two paths as strings is no input either
	if exe, err := os.Executable(); err == nil {
		after := filepath.Join(filepath.Dir(exe), "zz-c14-relocated")
		os.RemoveAll(after)
		locs["after-std"] = after
		defer os.RemoveAll(after)
	}
	for _, base := range locs {
		for _, p := range corpus {
			WriteSources(filepath.Join(base, p.name), p.files, "main.tsh")
		}
	}
	var mu sync.Mutex
	events := []c14Event{}
	record := func(e c14Event) {
		mu.Lock()
		events = append(events, e)
		mu.Unlock()
	}
	mainOf := func(loc string, p c14Prog) string { return filepath.Join(locs[loc], p.name, "main.tsh") }
	targets := []Target{Bash, Batch}
	type call struct {
		prog int
		t    Target
	}
	runHistory := func(name string, loc string, calls []call, withTrace bool) {
		tr := transpiler.New()
		for step, cl := range calls {
			p := corpus[cl.prog]
			func() {
				defer func() {
					if r := recover(); r != nil {
						record(c14Event{"main", name, step, loc, p.name, cl.t, "panic:" + fmt.Sprint(r), true, ""})
					}
				}()
				if withTrace {
					rec := newRecorder(cl.t)
					s, err := tr.Transpile(mainOf(loc, p), rec)
					record(c14Event{"main", name, step, loc, p.name, cl.t, shaOf(s), err != nil, shaOf(strings.Join(rec.trace, "\n"))})
				} else {
					s, err := tr.Transpile(mainOf(loc, p), newConverter(cl.t))
					record(c14Event{"main", name, step, loc, p.name, cl.t, shaOf(s), err != nil, ""})
				}
			}()
		}
	}
	// 1. reference observation with traces
	all := []call{}
	for i := range corpus {
		for _, t := range targets {
			all = append(all, call{i, t})
		}
	}
	for i, cl := range all {
		runHistory(fmt.Sprintf("single/%d", i), "home", []call{cl}, true)
		runHistory(fmt.Sprintf("single-again/%d", i), "home", []call{cl}, true)
	}
	// 2. all ordered pairs on one transpiler object
	type hjob struct {
		name  string
		loc   string
		calls []call
	}
	hjobs := []hjob{}
	for i, a := range all {
		for j, b := range all {
			hjobs = append(hjobs, hjob{fmt.Sprintf("pair/%d/%d", i, j), "home", []call{a, b}})
		}
	}
	// 3. random histories
	r := rand.New(rand.NewSource(c.Seed*14000071 + 5))
	for k := 0; k < c.Pick(400, 10000); k++ {
		n := 3 + r.Intn(13)
		cs := make([]call, n)
		for i := range cs {
			cs[i] = all[r.Intn(len(all))]
		}
		loc := []string{"home", "deep", "blank"}[r.Intn(3)]
		hjobs = append(hjobs, hjob{fmt.Sprintf("random/%d", k), loc, cs})
	}
	parallelDo(len(hjobs), 16, func(i int) { runHistory(hjobs[i].name, hjobs[i].loc, hjobs[i].calls, i%7 == 0) })
	// 3b. edit histories: one transpiler object, the files of a tree are overwritten between calls with
	// the bytes of another corpus program (same main file, other imports, and back); each call is
	// recorded under the program whose bytes were on disk at that moment
	{
		byName := map[string]int{}
		for i, p := range corpus {
			byName[p.name] = i
		}
		for hi, seq := range [][]string{{"twin-a", "twin-b", "twin-a", "twin-c", "twin-b"}, {"twin-b", "twin-a"}, {"twin-deep-a", "twin-deep-b", "twin-deep-a"}, {"twin-c", "twin-a", "twin-c"}, {"twin-a", "chain", "twin-b", "diamond", "twin-a"}} {
			for _, t := range targets {
				dir := filepath.Join(root, fmt.Sprintf("edit-%d-%s", hi, t))
				tr := transpiler.New()
				for step, name := range seq {
					p := corpus[byName[name]]
					os.RemoveAll(dir)
					WriteSources(dir, p.files, "main.tsh")
					func() {
						defer func() {
							if r := recover(); r != nil {
								record(c14Event{"main", fmt.Sprintf("edit/%d", hi), step, "edited-in-place", p.name, t, "panic:" + fmt.Sprint(r), true, ""})
							}
						}()
						s, err := tr.Transpile(filepath.Join(dir, "main.tsh"), newConverter(t))
						record(c14Event{"main", fmt.Sprintf("edit/%d", hi), step, "edited-in-place", p.name, t, shaOf(s), err != nil, ""})
					}()
				}
			}
		}
	}
	// 4. relocated copies, whole corpus
	for _, loc := range []string{"deep", "blank", "after-std"} {
		if _, ok := locs[loc]; ok {
			runHistory("relocated/"+loc, loc, all, true)
		}
	}
	// 5. fresh processes (absolute paths), and one with relative paths from another cwd
	nproc := c.Pick(8, 64)
	var wg sync.WaitGroup
	for pi := 0; pi < nproc; pi++ {
		wg.Add(1)
		go func(pi int) {
			defer wg.Done()
			jobs := []wJob{}
			for i, p := range corpus {
				jobs = append(jobs, wJob{ID: i, Main: mainOf([]string{"home", "deep", "blank"}[pi%3], p)})
			}
			runInWorkers(jobs, 1, "plain", 30*time.Second, 60*time.Second, func(j wJob, res wResult) {
				p := corpus[j.ID]
				loc := []string{"home", "deep", "blank"}[pi%3]
				if res.Died != "" {
					record(c14Event{fmt.Sprintf("proc%d", pi), "fresh-process", j.ID, loc, p.name, Bash, "died", true, ""})
					return
				}
				record(c14Event{fmt.Sprintf("proc%d", pi), "fresh-process", j.ID, loc, p.name, Bash, res.Bash.Sha, res.Bash.HasErr || res.Bash.Panic != "", ""})
				record(c14Event{fmt.Sprintf("proc%d", pi), "fresh-process", j.ID, loc, p.name, Batch, res.Batch.Sha, res.Batch.HasErr || res.Batch.Panic != "", ""})
			})
		}(pi)
	}
	wg.Wait()
	// relative path from a different working directory, via the tsh-independent worker
	{
		exe, _ := os.Executable()
		for i, p := range corpus {
			cmd := exec.Command(exe, "worker", "plain")
			cmd.Dir = filepath.Join(locs["blank"], p.name)
			cmd.Stdin = strings.NewReader(fmt.Sprintf("{\"id\":%d,\"main\":\"main.tsh\"}\n", i))
			out, err := cmd.Output()
			if err != nil {
				c.Inconclusive("relative-path worker failed")
				continue
			}
			shaB := extractJSONField(string(out), "bash")
			shaW := extractJSONField(string(out), "batch")
			record(c14Event{"relproc", "relative-path", i, "blank-relative", p.name, Bash, shaB.sha, shaB.isErr, ""})
			record(c14Event{"relproc", "relative-path", i, "blank-relative", p.name, Batch, shaW.sha, shaW.isErr, ""})
		}
	}
	// 5a. processes started in a working directory that holds look-alikes of what the programs import (a std
	// directory with other contents, files named like the imports): the working directory is not an input
	{
		exe, _ := os.Executable()
		decoy := filepath.Join(root, "decoy cwd")
		os.MkdirAll(filepath.Join(decoy, "std"), 0o755)
		fake := "func Contains(s string, substr string) bool {\n\treturn false\n}\nfunc HasPrefix(s string, prefix string) bool {\n\treturn false\n}\nfunc HasSuffix(s string, suffix string) bool {\n\treturn false\n}\nfunc Repeat(s string, count int) string {\n\treturn \"decoy\"\n}\nfunc TrimSpace(s string) string {\n\treturn \"decoy\"\n}\nfunc Split(s string, sep string) []string {\n\treturn []string{\"decoy\"}\n}\nfunc Join(elems []string, sep string) string {\n\treturn \"decoy\"\n}\n"
		for _, n := range []string{"std/strings.tsh", "strings.tsh", "strings", "std/os.tsh", "os.tsh", "lib.tsh", "l1.tsh", "base.tsh"} {
			content := fake
			if strings.Contains(n, "os") {
				content = "func Shell() string {\n\treturn \"decoy\"\n}\n"
			}
			os.WriteFile(filepath.Join(decoy, n), []byte(content), 0o644)
		}
		for i, p := range corpus {
			cmd := exec.Command(exe, "worker", "plain")
			cmd.Dir = decoy
			cmd.Stdin = strings.NewReader(fmt.Sprintf("{\"id\":%d,\"main\":%q}\n", i, mainOf("home", p)))
			out, err := cmd.Output()
			if err != nil {
				c.Inconclusive("decoy-cwd worker failed")
				continue
			}
			shaB := extractJSONField(string(out), "bash")
			shaW := extractJSONField(string(out), "batch")
			record(c14Event{"decoyproc", "decoy-working-directory", i, "home", p.name, Bash, shaB.sha, shaB.isErr, ""})
			record(c14Event{"decoyproc", "decoy-working-directory", i, "home", p.name, Batch, shaW.sha, shaW.isErr, ""})
		}
	}
	// 5a'. processes with other environments (PATH with a directory holding other programs named bash / cmd first,
	// empty PATH, other locale, HOME, SHELL, TMPDIR, TZ): the environment is not an input
	{
		exe, _ := os.Executable()
		shim := filepath.Join(root, "shim bin")
		os.MkdirAll(shim, 0o755)
		for _, n := range []string{"bash", "sh", "cmd", "cmd.exe", "env"} {
			os.WriteFile(filepath.Join(shim, n), []byte("#!/bin/sh\nexit 0\n"), 0o755)
		}
		envs := map[string][]string{
			"path-shim-first": {"PATH=" + shim + ":/usr/bin:/bin", "HOME=/nonexistent", "SHELL=" + filepath.Join(shim, "bash")},
			"path-empty":      {"PATH=", "HOME=" + root},
			"locale-and-tz":   {"PATH=/usr/bin:/bin", "LANG=tr_TR.UTF-8", "LC_ALL=C", "TZ=Pacific/Kiritimati", "TMPDIR=" + shim, "USER=someone", "BASH=/opt/bash", "COMSPEC=C:\\x\\cmd.exe"},
		}
		for _, en := range sortedKeys(map[string]string{"path-shim-first": "", "path-empty": "", "locale-and-tz": ""}) {
			for i, p := range corpus {
				cmd := exec.Command(exe, "worker", "plain")
				cmd.Env = envs[en]
				cmd.Stdin = strings.NewReader(fmt.Sprintf("{\"id\":%d,\"main\":%q}\n", i, mainOf("home", p)))
				out, err := cmd.Output()
				if err != nil {
					c.Inconclusive("environment-variant worker failed")
					continue
				}
				shaB := extractJSONField(string(out), "bash")
				shaW := extractJSONField(string(out), "batch")
				record(c14Event{"envproc-" + en, "environment/" + en, i, "home", p.name, Bash, shaB.sha, shaB.isErr, ""})
				record(c14Event{"envproc-" + en, "environment/" + en, i, "home", p.name, Batch, shaW.sha, shaW.isErr, ""})
			}
		}
	}
	// 5b. the tsh command as one more process kind: one invocation per target order (single targets, both orders,
	// a repeated target); every file it writes is one more observation of (program, target)
	{
		exe, _ := os.Executable()
		tsh := filepath.Join(filepath.Dir(exe), "tsh")
		if _, err := os.Stat(tsh); err == nil {
			orders := [][]Target{{Bash}, {Batch}, {Bash, Batch}, {Batch, Bash}, {Bash, Batch, Bash}}
			type tj struct {
				pi, oi int
			}
			tjobs := []tj{}
			for pi := range corpus {
				for oi := range orders {
					tjobs = append(tjobs, tj{pi, oi})
				}
			}
			// a program that fails for some target ends the process at that target: it is observed through the
			// single-target invocations only
			failsAny := make([]bool, len(corpus))
			for pi, p := range corpus {
				for _, t := range targets {
					func() {
						defer func() {
							if r := recover(); r != nil {
								failsAny[pi] = true
							}
						}()
						tr := transpiler.New()
						if _, err := tr.Transpile(mainOf("home", p), newConverter(t)); err != nil {
							failsAny[pi] = true
						}
					}()
				}
			}
			parallelDo(len(tjobs), 16, func(k int) {
				p := corpus[tjobs[k].pi]
				ord := orders[tjobs[k].oi]
				if failsAny[tjobs[k].pi] && len(ord) > 1 {
					return
				}
				outDir := filepath.Join(root, fmt.Sprintf("tshout-%d-%d", tjobs[k].pi, tjobs[k].oi))
				os.MkdirAll(outDir, 0o755)
				args := []string{"-i", mainOf("home", p), "-o", outDir}
				for _, t := range ord {
					args = append(args, "-t", string(t))
				}
				cmd := exec.Command(tsh, args...)
				cmd.Run()
				seenT := map[Target]bool{}
				for _, t := range ord {
					if seenT[t] {
						continue
					}
					seenT[t] = true
					ext := ".sh"
					if t == Batch {
						ext = ".bat"
					}
					data, err := os.ReadFile(filepath.Join(outDir, "main"+ext))
					hist := fmt.Sprintf("tsh/order=%d", tjobs[k].oi)
					if err != nil {
						record(c14Event{"tsh", hist, tjobs[k].pi, "home", p.name, t, "no-file", true, ""})
					} else {
						record(c14Event{"tsh", hist, tjobs[k].pi, "home", p.name, t, shaOf(string(data)), false, ""})
					}
				}
			})
		} else {
			c.Inconclusive("tsh binary not built; command-level observations skipped")
		}
	}
	// 5c. the tsh command over an edited tree: one source tree and ONE output directory per history; between two
	// invocations only the files whose bytes change are rewritten (the main file keeps its bytes and its age, as
	// after an edit of an imported file), then the same command line runs again. Each output read back is an
	// observation of the program whose bytes were on disk: a result kept from the run before shows as another hash.
	{
		exe, _ := os.Executable()
		tsh := filepath.Join(filepath.Dir(exe), "tsh")
		if _, err := os.Stat(tsh); err == nil {
			byName := map[string]int{}
			for i, p := range corpus {
				byName[p.name] = i
			}
			old := time.Now().Add(-72 * time.Hour)
			seqs := [][]string{{"twin-a", "twin-b", "twin-a"}, {"twin-b", "twin-c", "twin-b", "twin-a"}, {"twin-deep-a", "twin-deep-b", "twin-deep-a"}, {"twin-c", "twin-a"}}
			for hi, seq := range seqs {
				for oi, ord := range [][]Target{{Bash}, {Batch}, {Bash, Batch}} {
					dir := filepath.Join(root, fmt.Sprintf("tshedit-%d-%d", hi, oi))
					outDir := filepath.Join(dir, "out")
					os.MkdirAll(outDir, 0o755)
					onDisk := map[string]string{}
					for step, name := range seq {
						p := corpus[byName[name]]
						for n := range onDisk {
							if _, keep := p.files[n]; !keep {
								os.Remove(filepath.Join(dir, n))
								delete(onDisk, n)
							}
						}
						for n, src := range p.files {
							if onDisk[n] == src {
								continue
							}
							full := filepath.Join(dir, n)
							os.MkdirAll(filepath.Dir(full), 0o755)
							os.WriteFile(full, []byte(src), 0o644)
							if step == 0 {
								os.Chtimes(full, old, old) // the first version of the tree is three days old
							}
							onDisk[n] = src
						}
						args := []string{"-i", filepath.Join(dir, "main.tsh"), "-o", outDir}
						for _, t := range ord {
							args = append(args, "-t", string(t))
						}
						runErr := exec.Command(tsh, args...).Run()
						for _, t := range ord {
							ext := ".sh"
							if t == Batch {
								ext = ".bat"
							}
							hist := fmt.Sprintf("tsh-edit/%d/order=%d", hi, oi)
							data, err := os.ReadFile(filepath.Join(outDir, "main"+ext))
							if runErr != nil {
								// a failing invocation leaves what stood there before (C19 judges that): the observation is the failure
								record(c14Event{"tsh", hist, step, "edited-in-place", p.name, t, "exit-nonzero", true, ""})
							} else if err != nil {
								record(c14Event{"tsh", hist, step, "edited-in-place", p.name, t, "no-file", true, ""})
							} else {
								record(c14Event{"tsh", hist, step, "edited-in-place", p.name, t, shaOf(string(data)), false, ""})
							}
						}
					}
				}
			}
		}
	}
	// 6. (thorough) the same corpus transpiled concurrently under the race detector
	if c.Thorough() {
		runC14Race(c, root)
	}
	// ---- offline checker over the event log ----
	type key struct {
		prog string
		t    Target
	}
	groups := map[key][]c14Event{}
	for _, e := range events {
		groups[key{e.Program, e.Target}] = append(groups[key{e.Program, e.Target}], e)
	}
	keys := []key{}
	for k := range groups {
		keys = append(keys, k)
	}
	sort.Slice(keys, func(i, j int) bool { return keys[i].prog+string(keys[i].t) < keys[j].prog+string(keys[j].t) })
	distinctHashes := 0
	failing := []string{}
	for _, k := range keys {
		evs := groups[k]
		ref := evs[0]
		for _, e := range evs {
			if e.History == "single/"+fmt.Sprint(0) {
				ref = e
			}
		}
		seen := map[string]bool{}
		refTrace := ""
		for _, e := range evs {
			c.Eval(fmt.Sprintf("%s/%s/%d/%s/%s/%s", e.Proc, e.History, e.Step, e.Location, e.Program, e.Target), !e.IsErr)
			seen[e.Sha] = true
			if e.IsErr != ref.IsErr || (!e.IsErr && e.Sha != ref.Sha) {
				src := ""
				for _, p := range corpus {
					if p.name == k.prog {
						src = p.files["main.tsh"]
					}
				}
				c.Violation(fmt.Sprintf("%s/%s/%s", k.prog, k.t, e.History), fmt.Sprintf("output differs between observations: process %s history %s step %d location %s gave sha %.12s err=%v, reference (%s %s) gave sha %.12s err=%v", e.Proc, e.History, e.Step, e.Location, e.Sha, e.IsErr, ref.Proc, ref.History, ref.Sha, ref.IsErr), map[string]string{"main.tsh": src})
			}
			if e.TraceSha != "" && !e.IsErr {
				if refTrace == "" {
					refTrace = e.TraceSha
				} else if e.TraceSha != refTrace {
					c.Violation(fmt.Sprintf("%s/%s/trace/%s", k.prog, k.t, e.History), "Converter call trace differs between two observations of the same (program, target)", nil)
				}
			}
		}
		distinctHashes += len(seen)
		if ref.IsErr && k.t == Bash {
			failing = append(failing, k.prog)
		}
	}
	c.Extra["programs_observed_failing"] = failing
	c.Extra["events"] = len(events)
	c.Extra["programs"] = len(corpus)
	c.Extra["histories"] = len(hjobs) + 2*len(all) + 2
	c.Extra["fresh_processes"] = nproc + len(corpus)
	c.Extra["observation_groups"] = len(groups)
	for i, e := range events {
		if i%40011 == 17 {
			c.Sample(e)
		}
	}
}

type shaErr struct {
	sha   string
	isErr bool
}

func extractJSONField(line, target string) shaErr {
	// tiny extractor for {"bash":{...,"sha":"..","has_err":false...}}
	i := strings.Index(line, "\""+target+"\":{")
	if i < 0 {
		return shaErr{"missing", true}
	}
	rest := line[i:]
	end := strings.Index(rest, "}")
	obj := rest[:end]
	out := shaErr{}
	if j := strings.Index(obj, "\"sha\":\""); j >= 0 {
		s := obj[j+7:]
		out.sha = s[:strings.Index(s, "\"")]
	}
	out.isErr = strings.Contains(obj, "\"has_err\":true") || strings.Contains(obj, "\"panic\"")
	return out
}
