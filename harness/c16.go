package main

import (
	"fmt"
	"os"
	"sort"
	"os/exec"
	"path/filepath"
	"regexp"
	"strings"
	"time"

	"github.com/monstermichl/typeshell/transpiler"
)

func init() { register("C16", checkC16) }

var batchHelpers = map[string]bool{"_ach": true, "_frh": true, "_fwh": true, "_sls": true, "_slg": true, "_sah": true, "_sch": true, "_stsh": true, "_stlh": true, "_seh": true, "_ech": true}

var reGoto = regexp.MustCompile(`(?i)\bgoto\s+:?([A-Za-z0-9_]+)`)
var reCall = regexp.MustCompile(`(?i)\bcall\s+:([A-Za-z0-9_]+)`)

type batchLint struct {
	Problems []string
	Loops    int
	Ifs      int
	Labels   int
	Gotos    int
	Calls    int
	OpenLoops int // loop heads without an end label: extent unknown
}

func labelOf(line string) (string, bool) {
	l := trimLeftBlanks(line)
	if !strings.HasPrefix(l, ":") || strings.HasPrefix(l, "::") {
		return "", false
	}
	name := l[1:]
	if j := strings.IndexAny(name, " \t:+&|<>="); j >= 0 {
		name = name[:j]
	}
	return name, true
}

// lintBatch checks the structural rules of C16 on an emitted Batch script.
func lintBatch(script string) (res batchLint) {
	script = strings.ReplaceAll(script, "\r\n", "\n")
	lines := strings.Split(script, "\n")
	prob := func(format string, a ...interface{}) {
		res.Problems = append(res.Problems, fmt.Sprintf(format, a...))
	}
	// 1. block structure: the model's parser must get through the whole file
	func() {
		m := &CmdModel{env: map[string]string{}, frames: []*cmdFrame{{args: []string{"a1", "a2", "a3", "a4", "a5", "a6", "a7", "a8", "a9"}}}, forVars: map[byte]string{}, lint: true}
		m.lines = lines
		defer func() {
			if r := recover(); r != nil {
				switch e := r.(type) {
				case cmdScriptError:
					prob("block structure: %s", e.why)
				case cmdUnmodelled:
					prob("block structure (parser): %s", e.why)
				default:
					panic(r)
				}
			}
		}()
		pc := 0
		for pc < len(lines) {
			if strings.TrimSpace(lines[pc]) == "(set LF=^" && pc+2 < len(lines) && lines[pc+1] == "" && strings.TrimSpace(lines[pc+2]) == ")" {
				pc += 3
				continue
			}
			next := pc
			p := &cmdParser{m: m, pc: &next}
			if !p.more() {
				break
			}
			for {
				p.parseCommand()
				rest := trimLeftBlanks(p.buf)
				if rest == "" {
					break
				}
				if strings.HasPrefix(rest, ")") {
					prob("stray closing parenthesis at line %d", next)
					p.buf = rest[1:]
					continue
				}
				prob("unparsed text %q at line %d", rest, next)
				break
			}
			pc = next
		}
	}()
	// 2. labels
	defined := map[string]int{}
	labelLine := map[string]int{}
	for i, l := range lines {
		if name, ok := labelOf(l); ok {
			k := strings.ToLower(name)
			defined[k]++
			if defined[k] == 2 {
				prob("label :%s is defined twice (lines %d and %d)", name, labelLine[k]+1, i+1)
			}
			if _, seen := labelLine[k]; !seen {
				labelLine[k] = i
			}
		}
	}
	res.Labels = len(defined)
	// 3. regions: functions/helpers, loops, ifs
	type region struct {
		kind       string
		name       string
		start, end int
	}
	regions := []region{}
	// function and helper regions: ":name" ... ":_eo_name"
	for k, end := range labelLine {
		if strings.HasPrefix(k, "_eo_") {
			name := strings.TrimPrefix(k, "_eo_")
			if st, ok := labelLine[name]; ok {
				kind := "func"
				if batchHelpers[name] {
					kind = "helper"
				}
				regions = append(regions, region{kind, name, st, end})
			} else {
				prob("end-of label :_eo_%s without :%s", name, name)
			}
		}
	}
	// loops: ":_f<n>" ... ":_e<n>"
	for k, st := range labelLine {
		if regexp.MustCompile(`^_f\d+$`).MatchString(k) {
			n := strings.TrimPrefix(k, "_f")
			if end, ok := labelLine["_e"+n]; ok && end > st {
				regions = append(regions, region{"loop", n, st, end})
				res.Loops++
			} else {
				// a loop that nothing leaves by a jump needs no end label: not a defect in itself (a jump to a
				// missing label is reported as such); the extent of this loop is unknown, so the confinement
				// rule cannot be applied to the script
				res.OpenLoops++
			}
		}
	}
	// ifs: the block whose closing ")" line is directly followed by ":_i<n>"
	{
		type open struct{ line int }
		stack := []open{}
		for i, l := range lines {
			t := strings.TrimSpace(l)
			low := strings.ToLower(t)
			switch {
			case strings.HasPrefix(t, ") else") && strings.HasSuffix(t, "("):
				// same region continues
			case t == ")":
				if len(stack) == 0 {
					continue
				}
				o := stack[len(stack)-1]
				stack = stack[:len(stack)-1]
				if i+1 < len(lines) {
					if name, ok := labelOf(lines[i+1]); ok && regexp.MustCompile(`^_i\d+$`).MatchString(strings.ToLower(name)) {
						regions = append(regions, region{"if", strings.TrimPrefix(strings.ToLower(name), "_i"), o.line, i + 1})
						res.Ifs++
					}
				}
			case strings.HasSuffix(t, "(") && (strings.HasPrefix(low, "if ") || strings.HasPrefix(low, "for ")):
				stack = append(stack, open{i})
			}
		}
	}
	inRegion := func(line int, kind, name string) bool {
		for _, r := range regions {
			if r.kind == kind && r.name == name && line > r.start && line < r.end {
				return true
			}
		}
		return false
	}
	innermostLoop := func(line int) string {
		best, bestLen := "", 1<<30
		for _, r := range regions {
			if r.kind == "loop" && line > r.start && line < r.end && r.end-r.start < bestLen {
				best, bestLen = r.name, r.end-r.start
			}
		}
		return best
	}
	enclosing := func(line int) (string, string) {
		for _, r := range regions {
			if (r.kind == "func" || r.kind == "helper") && line > r.start && line < r.end {
				return r.kind, r.name
			}
		}
		return "", ""
	}
	// 4. jumps and calls
	called := map[string]bool{}       // helpers called from non-helper code
	helperCalls := map[string][]string{} // helper -> helpers it calls
	for i, l := range lines {
		if _, isLabel := labelOf(l); isLabel {
			continue
		}
		t := strings.TrimSpace(l)
		if strings.HasPrefix(strings.ToLower(t), "rem") {
			continue
		}
		for _, m := range reGoto.FindAllStringSubmatch(batCommandPart(l), -1) {
			res.Gotos++
			target := strings.ToLower(m[1])
			if target == "eof" {
				continue
			}
			if defined[target] == 0 {
				prob("line %d jumps to the undefined label :%s", i+1, m[1])
				continue
			}
			ekind, ename := enclosing(i)
			switch {
			case regexp.MustCompile(`^_[fe]\d+$`).MatchString(target):
				n := target[2:]
				if inner := innermostLoop(i); inner != n {
					// the back-edge "goto :_f<n>" is the last line of the loop region: still inside
					prob("line %d: goto :%s does not target the innermost open loop (innermost: %q)", i+1, m[1], inner)
				}
			case regexp.MustCompile(`^_i\d+$`).MatchString(target):
				if !inRegion(i, "if", target[2:]) {
					prob("line %d: goto :%s outside the if construct that the label closes", i+1, m[1])
				}
			case strings.HasPrefix(target, "_ret_"):
				if ekind != "func" || ename != strings.TrimPrefix(target, "_ret_") {
					prob("line %d: goto :%s outside function %s", i+1, m[1], strings.TrimPrefix(target, "_ret_"))
				}
			case strings.HasPrefix(target, "_eo_"):
				// skip-over jump: must stand directly before the region's entry label
				name := strings.TrimPrefix(target, "_eo_")
				if nm, ok := labelOf(lines[min(i+1, len(lines)-1)]); !ok || strings.ToLower(nm) != name {
					prob("line %d: goto :%s is not directly followed by :%s", i+1, m[1], name)
				}
			case target == "end":
			default:
				// helper-internal labels
				if ekind != "helper" {
					prob("line %d: goto :%s (unknown label family) outside a helper", i+1, m[1])
				}
			}
		}
		for _, m := range reCall.FindAllStringSubmatch(batCommandPart(l), -1) {
			res.Calls++
			target := strings.ToLower(m[1])
			if defined[target] == 0 {
				prob("line %d calls :%s which the script does not contain", i+1, m[1])
				continue
			}
			isFunc := false
			for _, r := range regions {
				if (r.kind == "func" || r.kind == "helper") && r.name == target {
					isFunc = true
				}
			}
			if !isFunc {
				prob("line %d calls :%s which is neither a helper routine nor a function", i+1, m[1])
			}
			if batchHelpers[target] {
				if ekind, ename := enclosing(i); ekind == "helper" {
					helperCalls[ename] = append(helperCalls[ename], target)
				} else {
					called[target] = true
				}
			}
		}
	}
	// 5. helpers present exactly when reachable
	reach := map[string]bool{}
	var visit func(h string)
	visit = func(h string) {
		if reach[h] {
			return
		}
		reach[h] = true
		for _, c := range helperCalls[h] {
			visit(c)
		}
	}
	for h := range called {
		visit(h)
	}
	for h := range batchHelpers {
		present := defined[h] > 0
		if present && !reach[h] {
			prob("helper routine :%s is contained but never called", h)
		}
		if !present && reach[h] {
			prob("helper routine :%s is called but not contained", h)
		}
	}
	return res
}

// countConstructs counts loops and if/switch statements of the functions that
// survive unused-function removal.
func countConstructs(p *Program) (loops, ifs int) {
	funcs := map[string]*FuncDecl{}
	for _, f := range p.Files {
		for _, s := range f.Stmts {
			if fd, ok := s.(FuncDecl); ok {
				d := fd
				funcs[fd.Name] = &d
			}
		}
	}
	used := map[string]bool{}
	var scanStmts func(b []Stmt)
	var noteCalls func(b []Stmt)
	noteCalls = func(b []Stmt) {
		(&Rewriter{Expr: func(e Expr, slot string) Expr {
			if c, ok := e.(Call); ok && c.Alias == "" {
				if !used[c.Fn] {
					used[c.Fn] = true
					if fd := funcs[c.Fn]; fd != nil {
						noteCalls(fd.Body)
					}
				}
			}
			return e
		}}).block(b)
	}
	top := []Stmt{}
	for _, f := range p.Files {
		for _, s := range f.Stmts {
			if _, ok := s.(FuncDecl); !ok {
				top = append(top, s)
			}
		}
	}
	noteCalls(top)
	scanStmts = func(b []Stmt) {
		for _, s := range b {
			switch x := s.(type) {
			case If:
				ifs++
				for _, br := range x.Branches {
					scanStmts(br.Body)
				}
				scanStmts(x.Else)
			case Switch:
				ifs++
				for _, c := range x.Cases {
					scanStmts(c.Body)
				}
			case For:
				loops++
				scanStmts(x.Body)
			case FuncDecl:
			}
		}
	}
	scanStmts(top)
	for n, fd := range funcs {
		if used[n] {
			scanStmts(fd.Body)
		}
	}
	return
}

func bashSyntaxCheck(script string) (bool, string) {
	dir := newSandbox()
	defer os.RemoveAll(dir)
	p := filepath.Join(dir, "s.sh")
	os.WriteFile(p, []byte(script), 0o644)
	cmd := exec.Command("/bin/bash", "-n", p)
	cmd.Env = []string{"PATH=/usr/bin:/bin"}
	out, err := cmd.CombinedOutput()
	if err != nil || len(out) > 0 {
		return false, stripDir(string(out), dir)
	}
	return true, ""
}

type c16Prog struct {
	key  string
	prog *Program
	src  map[string]string // used instead of prog when set (hand-written text)
}

func c16Workload(c *Check) []c16Prog {
	out := []c16Prog{}
	// every builtin alone (each helper flag in isolation)
	alone := map[string]string{
		"print":          "print(1)\n",
		"print-empty":    "print()\n",
		"panic":          "panic(\"x\")\n",
		"string-literal": "s := \"abc\"\n",
		"len-string":     "s := \"abc\"\nn := len(s)\n",
		"len-slice":      "s := []int{1}\nn := len(s)\n",
		"subscript":      "s := \"abc\"\nt := s[1:2]\n",
		"string-index":   "s := \"abc\"\nt := s[1]\n",
		"slice-literal":  "s := []int{1}\n",
		"slice-empty":    "s := []int{}\n",
		"slice-var":      "var s []string\n",
		"slice-read":     "s := []int{1}\nv := s[0]\n",
		"slice-write":    "s := []int{1}\ns[0] = 2\n",
		"copy":           "s := []int{1}\nvar d []int\nn := copy(d, s)\n",
		"copy-unused":    "s := []int{1}\nvar d []int\ncopy(d, s)\n",
		"range-slice":    "s := []int{1}\nfor i, v := range s {\n}\n",
		"range-string":   "for i, v := range \"ab\" {\n}\n",
		"input":          "v := input()\n",
		"input-prompt":   "v := input(\"name: \")\n",
		"read":           "v := read(\"f.txt\")\n",
		"write":          "write(\"f.txt\", \"x\")\n",
		"write-append":   "write(\"f.txt\", \"x\", true)\n",
		"exists":         "v := exists(\"f.txt\")\n",
		"itoa":           "v := itoa(3)\n",
		"app-statement":  "@ls(\"-1\")\n",
		"app-pipeline":   "@ls(\"-1\") | @grep(\"x\") | @sort()\n",
		"app-capture":    "o, e, c := @ls(\"-1\") | @grep(\"x\")\n",
		"app-literal-name": "@\"./tool.sh\"(\"a b\")\n",
		"nothing":        "",
		"only-function":  "func f() {\n}\n",
		"std-strings":    "import \"strings\"\n\nprint(strings.Contains(\"ab\", \"a\"))\n",
		"std-split":      "import \"strings\"\n\np := strings.Split(\"a,b\", \",\")\nprint(len(p))\n",
	}
	for _, k := range sortedKeys(alone) {
		out = append(out, c16Prog{key: "alone/" + k, src: map[string]string{"main.tsh": alone[k]}})
		out = append(out, c16Prog{key: "alone-in-function/" + k, src: map[string]string{"main.tsh": wrapInFunc(alone[k])}})
	}
	// user functions and variables whose names BEGIN with the name of a helper routine (the list the linter itself uses): a script without slices, files or commands still contains no helper
	{
		helpers := []string{}
		for h := range batchHelpers {
			helpers = append(helpers, h)
		}
		sort.Strings(helpers)
		for _, h := range helpers {
			for si, suffix := range []string{"x", "ule", "2", "_"} {
				f := h + suffix
				out = append(out, c16Prog{key: fmt.Sprintf("helper-prefixed-name/function/%s/%d", h, si), src: map[string]string{"main.tsh": "func " + f + "(a int) int {\n\treturn a + 1\n}\nprint(" + f + "(1))\nfor i := 0; i < 2; i++ {\n\tprint(" + f + "(i))\n}\n"}})
				out = append(out, c16Prog{key: fmt.Sprintf("helper-prefixed-name/void-function/%s/%d", h, si), src: map[string]string{"main.tsh": "func " + f + "() {\n\tprint(1)\n}\n" + f + "()\nif 1 == 1 {\n\t" + f + "()\n}\n"}})
			}
		}
	}
	// every statement form as the only statement of every kind of block (an expression whose value
	// is not used may emit nothing, and the block still has to be well formed)
	{
		pre := "x := 1\ns := []int{1}\nt := \"abc\"\nfunc one() int {\n\treturn 1\n}\nfunc two() (int, int) {\n\treturn 1, 2\n}\nfunc vf() {\n}\n"
		soles := []string{"5", "x", "t", "\"a\"", "`r`", "true", "nil", "(x)", "((x))", "itoa(5)", "itoa(x)", "len(t)", "len(s)", "exists(t)", "read(t)", "input()", "input(t)", "copy(s, s)", "x + 1", "x == 1", "!true", "x == 1 && true", "one()", "two()", "vf()", "@true()", "[]int{}", "[]int{1}",
			"s", "x++", "x += 1", "x = 2", "y := 1", "var y int", "var y []int", "y, z := two()", "s[0] = 1", "print()", "print(x)", "panic(t)", "write(t, t)", "y := s[0]", "y := t[1:2]", "y := itoa(x)",
			// jumps as the only statement: accepted in some blocks, refused in others; wherever one is accepted the block is well formed
			"break", "continue", "return", "return 1"}
		blocks := map[string]string{
			"func":      "func h() {\n\t$S\n}\nh()\n",
			"func-int":  "func h() int {\n\t$S\n\treturn 1\n}\nprint(h())\n",
			"if":        "if x == 1 {\n\t$S\n}\n",
			"else":      "if x == 1 {\n\tprint(1)\n} else {\n\t$S\n}\n",
			"else-if":   "if x == 1 {\n\tprint(1)\n} else if x == 2 {\n\t$S\n} else {\n\tprint(3)\n}\n",
			"all-three": "if x == 1 {\n\t$S\n} else if x == 2 {\n\t$S\n} else {\n\t$S\n}\n",
			"for-cond":  "for x < 0 {\n\t$S\n}\n",
			"for-three": "for i := 0; i < 2; i++ {\n\t$S\n}\n",
			"for-ever":  "for {\n\t$S\n\tbreak\n}\n",
			"range":     "for i, v := range s {\n\t$S\n}\n",
			"case":      "switch x {\ncase 1:\n\t$S\ncase 2:\n\t$S\ndefault:\n\t$S\n}\n",
			"case-bool": "switch {\ncase x == 1:\n\t$S\n}\n",
			"nested":    "func h() {\n\tif x == 1 {\n\t\tfor x < 0 {\n\t\t\t$S\n\t\t}\n\t} else {\n\t\t$S\n\t}\n}\nh()\n",
			"top":       "$S\n",
		}
		for _, bk := range sortedKeys(blocks) {
			for si, st := range soles {
				out = append(out, c16Prog{key: fmt.Sprintf("sole-statement/%s/%d", bk, si), src: map[string]string{"main.tsh": pre + strings.ReplaceAll(blocks[bk], "$S", st)}})
			}
		}
	}
	// literal contents made of characters that are special to the shells, in every statement form that takes a
	// string literal, at top level and inside a parenthesised block (the four characters of the recorded
	// C08 finding, double quote, dollar, backquote and backslash, are left out)
	{
		contents := []string{"it's", "don't stop", "'", "''", "a 'b' c", "(", ")", "()", ") else (", "a) b (c", "{", "}", "[", "]", "a;b", "a&b", "a&&b", "a|b", "a||b", "a<b", "a>b", ">>x", "#x", "a #b", "*", "?", "~", "!", "!x!", "%", "%x%", "%%", "^", "^^", "a^b", "=", "a=b", ",", "@", "-n", "/?", "::", "rem", "fi", "done", "esac", "   ", "", "é", "a\tb", "x:y", ":label", "goto :eof", "on", "off", "echo", "nul"}
		forms := map[string]string{
			"print":        "print($L)",
			"print-two":    "print($L, $L)",
			"input-prompt": "v := input($L)",
			"write-data":   "write(\"f.txt\", $L)",
			"write-path":   "write($L, \"d\")",
			"read-path":    "v := read($L)",
			"exists-path":  "v := exists($L)",
			"panic":        "if x == 2 {\n\tpanic($L)\n}",
			"define":       "v := $L",
			"concat":       "v := $L + $L",
			"compare":      "v := $L == $L",
			"slice":        "v := []string{$L, $L}",
			"slice-store":  "v := []string{}\nv[1] = $L",
			"app-arg":      "@mytool($L)",
			"app-capture":  "o, e, st := @mytool($L) | @mytool($L)",
			"call-arg":     "show($L)",
			"return":       "func r() string {\n\treturn $L\n}\nv := r()",
			"switch-case":  "t := \"k\"\nswitch t {\ncase $L:\n\tprint(1)\n}",
			"len":          "v := len($L)",
			"range":        "for i, ch := range $L {\n\tprint(i, ch)\n}",
		}
		pre := "x := 1\nfunc show(p string) {\n\tprint(p)\n}\n"
		for ci, ct := range contents {
			lit := quoteTsh(strings.ReplaceAll(ct, "\\t", "\t"), false)
			for _, fk := range sortedKeys(forms) {
				body := strings.ReplaceAll(forms[fk], "$L", lit)
				if (ci+len(fk))%3 == 0 || fk == "print" || fk == "input-prompt" || fk == "panic" {
					out = append(out, c16Prog{key: fmt.Sprintf("literal-content/%d/%s/top", ci, fk), src: map[string]string{"main.tsh": pre + body + "\n"}})
				}
				if ((ci+len(fk))%3 == 1 || fk == "print" || fk == "input-prompt") && fk != "return" {
					out = append(out, c16Prog{key: fmt.Sprintf("literal-content/%d/%s/block", ci, fk), src: map[string]string{"main.tsh": pre + "for i0 := 0; i0 < 1; i0++ {\n\tif x == 1 {\n\t\t" + strings.ReplaceAll(body, "\n", "\n\t\t") + "\n\t} else {\n\t\tprint(2)\n\t}\n}\n"}})
				}
			}
		}
	}
	// empty blocks everywhere
	empties := []string{
		"func f() {\n}\nf()\n", "if true {\n}\n", "if true {\n} else {\n}\n", "if true {\n} else if false {\n} else {\n}\n", "for {\n\tbreak\n}\n", "for i := 0; i < 2; i++ {\n}\n",
		"x := 1\nfor x < 0 {\n}\n", "x := 1\nswitch x {\n}\n", "x := 1\nswitch x {\ncase 1:\ncase 2:\ndefault:\n}\n", "switch {\n}\n", "switch {\ndefault:\n}\n",
		"func f(a int) int {\n\tif a > 0 {\n\t}\n\tfor a < 0 {\n\t}\n\tswitch a {\n\tcase 1:\n\t}\n\treturn a\n}\nprint(f(1))\n",
		"s := []int{}\nfor i, v := range s {\n}\nfor i := range s {\n}\n",
	}
	for i, e := range empties {
		out = append(out, c16Prog{key: fmt.Sprintf("empty-blocks/%d", i), src: map[string]string{"main.tsh": e}})
	}
	// deep nesting
	for depth := 1; depth <= 6; depth++ {
		var b strings.Builder
		for d := 0; d < depth; d++ {
			ind := strings.Repeat("\t", d)
			switch d % 3 {
			case 0:
				fmt.Fprintf(&b, "%sfor i%d := 0; i%d < 2; i%d++ {\n", ind, d, d, d)
			case 1:
				fmt.Fprintf(&b, "%sif i%d == 1 {\n%s\tcontinue\n%s} else if i%d == 5 {\n%s\tbreak\n%s} else {\n", ind, d-1, ind, ind, d-1, ind, ind)
			case 2:
				fmt.Fprintf(&b, "%sswitch i%d {\n%scase 0:\n", ind, d-2, ind)
			}
		}
		fmt.Fprintf(&b, "%sprint(%d)\n", strings.Repeat("\t", depth), depth)
		for d := depth - 1; d >= 0; d-- {
			fmt.Fprintf(&b, "%s}\n", strings.Repeat("\t", d))
		}
		out = append(out, c16Prog{key: fmt.Sprintf("nesting/depth=%d", depth), src: map[string]string{"main.tsh": b.String()}})
		out = append(out, c16Prog{key: fmt.Sprintf("nesting-in-function/depth=%d", depth), src: map[string]string{"main.tsh": wrapInFunc(b.String())}})
	}
	// many functions
	for _, nf := range []int{0, 1, 2, 5, 12} {
		var b strings.Builder
		for i := 0; i < nf; i++ {
			fmt.Fprintf(&b, "func f%d(a int) int {\n\tfor i := 0; i < a; i++ {\n\t\tif i == %d {\n\t\t\treturn i\n\t\t}\n\t}\n", i, i)
			if i > 0 {
				fmt.Fprintf(&b, "\treturn f%d(a) + 1\n}\n", i-1)
			} else {
				b.WriteString("\treturn 0\n}\n")
			}
		}
		if nf > 0 {
			fmt.Fprintf(&b, "print(f%d(3))\n", nf-1)
		}
		out = append(out, c16Prog{key: fmt.Sprintf("functions/n=%d", nf), src: map[string]string{"main.tsh": b.String()}})
	}
	// families of the semantic checks and multi-file shapes
	for _, bc := range f4LoopSkeletons(c.Thorough()) {
		out = append(out, c16Prog{key: "family/" + bc.Key, prog: bc.Prog})
	}
	for _, bc := range append(append(f5Switch(), g4ReturnRegisters()...), s3Aliasing()...) {
		out = append(out, c16Prog{key: "family/" + bc.Key, prog: bc.Prog})
	}
	for _, sh := range c09Shapes() {
		out = append(out, c16Prog{key: "modules/" + sh.name, prog: sh.build(nil)})
	}
	// random whole-language programs
	n := c.Pick(1200, 40000)
	for i := 0; i < n; i++ {
		cfg := GenCfg{MaxTop: 6, MaxBlock: 3, MaxDepth: 4, ExprDepth: 2, MaxFuncs: []int{0, 2, 6}[i%3], Slices: true, StringOps: true, MultiAssign: true, Panic: true, Builtins: true, Effects: i%2 == 0}
		seed := c.Seed*16000057 + int64(i)
		g := NewGen(seed, cfg)
		out = append(out, c16Prog{key: fmt.Sprintf("random/seed=%d", seed), prog: g.Program()})
	}
	return out
}

func wrapInFunc(src string) string {
	imports := ""
	if strings.HasPrefix(src, "import") {
		i := strings.Index(src, "\n\n")
		imports, src = src[:i+2], src[i+2:]
	}
	if strings.HasPrefix(src, "func ") {
		return imports + src
	}
	body := ""
	for _, l := range strings.Split(strings.TrimRight(src, "\n"), "\n") {
		if l != "" {
			body += "\t" + l + "\n"
		}
	}
	return imports + "func wrapped() {\n" + body + "}\nwrapped()\n"
}

func checkC16(c *Check) {
	c.Rule = "whole-language workload: every builtin alone (at top level and inside a function), empty blocks in every position, nesting depth 1-6, 0-12 functions, the loop/switch/function/aliasing families, 13 multi-file shapes, and a random sweep that includes input, read, write, exists, @prog statements, pipelines and captures; nothing is executed: the Bash script goes through 'bash -n', the Batch script through a structural linter sharing the block parser with the cmd model (balanced blocks, every goto/call target defined, no label twice, calls only to contained helpers/functions, each helper contained exactly when reachable, loop/if/return jumps confined to their construct; the number of recovered loop/if regions must equal the generating program's or the jump rule is inconclusive); supplementary: the recorded Converter call trace must be properly bracketed. Non-trivial = accepted program with at least one label or function; distinct = SHA-256 of sources"
	c.Assumptions = []string{"bash -n is the shell's own syntax check", "Batch rules as stated by the property; label families recovered from the emitted text"}
	runProbes(c, batchProbeJudge)
	progs := c16Workload(c)
	c.Extra["programs"] = len(progs)
	parallelDo(len(progs), 16, func(i int) {
		pg := progs[i]
		dir := newSandbox()
		defer os.RemoveAll(dir)
		var mainPath string
		srcs := pg.src
		if pg.prog != nil {
			mainPath, srcs = WriteProgram(dir, pg.prog)
		} else {
			mainPath = WriteSources(dir, pg.src, "main.tsh")
		}
		id := ""
		for _, n := range sortedKeys(srcs) {
			id += n + "\x00" + srcs[n] + "\x00"
		}
		files := map[string]string{}
		for n, s := range srcs {
			files[n] = s
		}
		rec := newRecorder(Bash)
		trB := transpileWith(mainPath, rec)
		trW := TranspileFile(mainPath, Batch, 30*time.Second)
		if !trB.OK() || !trW.OK() {
			c.Eval(id, false)
			if strings.HasPrefix(pg.key, "sole-statement/") && trB.Err != nil && trW.Err != nil && trB.Panic == "" && trW.Panic == "" {
				// this family places every statement form everywhere; what the parser rejects (for both
				// targets) is simply outside the quantifier "accepted programs"
				c.Count("sole_statement_programs_rejected", 1)
				return
			}
			msg := ""
			if trB.Err != nil {
				msg = stripDir(trB.Err.Error(), dir)
			} else if trW.Err != nil {
				msg = "batch: " + stripDir(trW.Err.Error(), dir)
			} else {
				msg = firstLine(trB.Panic + trW.Panic)
			}
			c.Violation(pg.key, "program of the workload rejected: "+msg, files)
			return
		}
		files["script.sh"] = trB.Script
		files["script.bat"] = trW.Script
		problems := []string{}
		if ok, msg := bashSyntaxCheck(trB.Script); !ok {
			problems = append(problems, "bash -n: "+oneLine(msg))
		}
		lint := lintBatch(trW.Script)
		c.Eval(id, lint.Labels > 0)
		jumpRuleApplies := true
		if lint.OpenLoops > 0 {
			jumpRuleApplies = false
			c.Inconclusive("a loop head has no end label: loop extents unknown, jump confinement not judged")
		}
		if pg.prog != nil {
			loops, ifs := countConstructs(pg.prog)
			if loops != lint.Loops || ifs != lint.Ifs {
				jumpRuleApplies = false
				c.Inconclusive("recovered loop/if regions differ from the generating program")
			}
		}
		for _, p := range lint.Problems {
			if strings.HasPrefix(p, "block structure (parser):") {
				// the linter's parser met a line outside its model (e.g. data with & | < > in an unquoted
				// argument): no verdict on the block structure of this script
				c.Inconclusive("batch linter: line outside the parser's model")
				continue
			}
			if !jumpRuleApplies && (strings.Contains(p, "innermost open loop") || strings.Contains(p, "outside the if construct")) {
				continue
			}
			problems = append(problems, "batch: "+p)
		}
		// bracket check on the converter call trace
		depth := map[string]int{}
		for _, ev := range rec.trace {
			name := ev[:strings.IndexByte(ev, '(')]
			switch name {
			case "IfStart", "ForStart", "FuncStart":
				depth[name[:len(name)-5]]++
			case "IfEnd", "ForEnd", "FuncEnd":
				k := name[:len(name)-3]
				depth[k]--
				if depth[k] < 0 {
					problems = append(problems, "converter trace: "+name+" without start")
				}
			}
		}
		for k, d := range depth {
			if d != 0 {
				problems = append(problems, fmt.Sprintf("converter trace: %d unclosed %s", d, k))
			}
		}
		// the same program emitted as the SECOND target of one transpiler object (what tsh does for -t a -t b): the
		// script that comes second must be as well formed as the one that comes first
		if i%3 == 0 {
			if s2, ok := secondOnOneObject(mainPath, Batch, Bash); ok {
				c.Count("second_target_scripts", 1)
				if ok2, msg := bashSyntaxCheck(s2); !ok2 {
					problems = append(problems, "bash script emitted second on one transpiler object: bash -n: "+oneLine(msg))
					files["second.sh"] = s2
				}
			}
			if s2, ok := secondOnOneObject(mainPath, Bash, Batch); ok {
				c.Count("second_target_scripts", 1)
				l2 := lintBatch(s2)
				for _, p := range l2.Problems {
					if strings.HasPrefix(p, "block structure (parser):") || strings.Contains(p, "innermost open loop") || strings.Contains(p, "outside the if construct") {
						continue // judged on the first emission above
					}
					problems = append(problems, "batch script emitted second on one transpiler object: "+p)
					files["second.bat"] = s2
				}
			}
		}
		if len(problems) > 0 {
			c.Violation(pg.key, strings.Join(problems, "; "), files)
			return
		}
		c.Count("labels_checked", lint.Labels)
		c.Count("gotos_checked", lint.Gotos)
		c.Count("calls_checked", lint.Calls)
		c.Count("loop_regions", lint.Loops)
		c.Count("if_regions", lint.Ifs)
		if i%401 == 7 {
			c.Sample(map[string]interface{}{"key": pg.key, "source": clip(srcs["main.tsh"], 800), "batch_labels": lint.Labels, "batch_gotos": lint.Gotos, "loop_regions": lint.Loops, "if_regions": lint.Ifs})
		}
	})
}

// secondOnOneObject transpiles path for target first and then for target second on ONE transpiler object (fresh
// converters) and returns the second script; ok is false when either call fails, panics or hangs (C13/C14 judge those).
func secondOnOneObject(path string, first, second Target) (string, bool) {
	type out struct {
		s  string
		ok bool
	}
	ch := make(chan out, 1)
	go func() {
		var o out
		defer func() {
			if r := recover(); r != nil {
				o.ok = false
			}
			ch <- o
		}()
		tr := transpiler.New()
		if _, err := tr.Transpile(path, newConverter(first)); err != nil {
			return
		}
		s, err := tr.Transpile(path, newConverter(second))
		o.s, o.ok = s, err == nil
	}()
	select {
	case o := <-ch:
		return o.s, o.ok
	case <-time.After(30 * time.Second):
		return "", false
	}
}

var reQuoted = regexp.MustCompile(`"[^"]*"`)

// batCommandPart removes the data of a Batch line before jumps and calls are looked for: quoted
// words, the arguments of a call (only "call :label" itself is a jump) and the text of an echo.
func batCommandPart(l string) string {
	t := reQuoted.ReplaceAllString(l, `""`)
	lt := strings.ToLower(strings.TrimSpace(t))
	if strings.HasPrefix(lt, "call :") {
		f := strings.Fields(strings.TrimSpace(t))
		if len(f) >= 2 {
			return f[0] + " " + f[1]
		}
	}
	if strings.HasPrefix(lt, "echo") || strings.HasPrefix(lt, "rem ") || strings.HasPrefix(lt, "::") {
		return ""
	}
	return t
}
