package main

// Generic deep-copying rewriter over RefLang.

type Rewriter struct {
	// Expr is called on every expression node after its children have been
	// rewritten; slot names the syntactic position ("operand", "cond", "arg",
	// "index", "value", "elem", "print", "ret", "tag", "case", "other").
	Expr func(e Expr, slot string) Expr
	// Name is called on every identifier occurrence; kind is "var" or "func".
	Name func(kind, name string) string
}

func (rw *Rewriter) name(kind, n string) string {
	if rw.Name == nil || n == "" {
		return n
	}
	return rw.Name(kind, n)
}

func (rw *Rewriter) exprs(es []Expr, slot string) []Expr {
	if es == nil {
		return nil
	}
	out := make([]Expr, len(es))
	for i, e := range es {
		out[i] = rw.expr(e, slot)
	}
	return out
}

func (rw *Rewriter) expr(e Expr, slot string) Expr {
	if e == nil {
		return nil
	}
	var out Expr
	switch x := e.(type) {
	case IntLit, BoolLit, StrLit, NilLit, PaddedInt:
		out = x
	case VarRef:
		out = VarRef{rw.name("var", x.Name)}
	case Group:
		out = Group{rw.expr(x.E, slot)}
	case Not:
		out = Not{rw.expr(x.E, "operand")}
	case Bin:
		out = Bin{x.Op, rw.expr(x.L, "operand"), rw.expr(x.R, "operand")}
	case Cmp:
		out = Cmp{x.Op, rw.expr(x.L, "operand"), rw.expr(x.R, "operand")}
	case Logic:
		out = Logic{x.Op, rw.expr(x.L, "operand"), rw.expr(x.R, "operand")}
	case Call:
		out = Call{Alias: x.Alias, Fn: rw.name("func", x.Fn), Args: rw.exprs(x.Args, "arg")}
		if x.Alias != "" {
			out = Call{Alias: x.Alias, Fn: x.Fn, Args: rw.exprs(x.Args, "arg")}
		}
	case Len:
		out = Len{rw.expr(x.E, "other")}
	case Itoa:
		out = Itoa{rw.expr(x.E, "operand")}
	case Index:
		out = Index{rw.name("var", x.Name), rw.expr(x.I, "index")}
	case Substr:
		out = Substr{rw.name("var", x.Name), rw.expr(x.Lo, "index"), rw.expr(x.Hi, "index")}
	case SliceLit:
		out = SliceLit{x.Elem, rw.exprs(x.Elems, "elem")}
	case Copy:
		out = Copy{rw.name("var", x.Dst), rw.expr(x.Src, "other")}
	case Exists:
		out = Exists{rw.expr(x.Path, "other")}
	case Read:
		out = Read{rw.expr(x.Path, "other")}
	case Input:
		out = Input{rw.expr(x.Prompt, "other")}
	case AppCall:
		st := make([]AppStage, len(x.Stages))
		for i, s := range x.Stages {
			st[i] = AppStage{s.Name, s.NameLit, rw.exprs(s.Args, "other")}
		}
		out = AppCall{st}
	default:
		panic("rewriter: unknown expr")
	}
	if rw.Expr != nil {
		return rw.Expr(out, slot)
	}
	return out
}

func (rw *Rewriter) names(ns []string) []string {
	out := make([]string, len(ns))
	for i, n := range ns {
		out[i] = rw.name("var", n)
	}
	return out
}

func (rw *Rewriter) block(b []Stmt) []Stmt {
	if b == nil {
		return nil
	}
	out := make([]Stmt, len(b))
	for i, s := range b {
		out[i] = rw.stmt(s)
	}
	return out
}

func (rw *Rewriter) stmt(s Stmt) Stmt {
	if s == nil {
		return nil
	}
	switch x := s.(type) {
	case VarDecl:
		return VarDecl{Names: rw.names(x.Names), Short: x.Short, Type: x.Type, Values: rw.exprs(x.Values, "value"), ErrTy: x.ErrTy}
	case Assign:
		return Assign{rw.names(x.Names), rw.exprs(x.Values, "value")}
	case OpAssign:
		return OpAssign{rw.name("var", x.Name), x.Op, rw.expr(x.V, "operand")}
	case IncDec:
		return IncDec{rw.name("var", x.Name), x.Inc}
	case SliceSet:
		return SliceSet{rw.name("var", x.Name), rw.expr(x.I, "index"), rw.expr(x.V, "value")}
	case If:
		out := If{HasElse: x.HasElse, Else: rw.block(x.Else)}
		for _, br := range x.Branches {
			out.Branches = append(out.Branches, IfBranch{rw.expr(br.Cond, "cond"), rw.block(br.Body)})
		}
		return out
	case Switch:
		out := Switch{Tag: rw.expr(x.Tag, "tag")}
		for _, c := range x.Cases {
			out.Cases = append(out.Cases, SwitchCase{E: rw.expr(c.E, "case"), Default: c.Default, Body: rw.block(c.Body)})
		}
		return out
	case For:
		return For{Kind: x.Kind, Init: rw.stmt(x.Init), Cond: rw.expr(x.Cond, "cond"), Post: rw.stmt(x.Post),
			RangeIdx: rw.name("var", x.RangeIdx), RangeVal: rw.name("var", x.RangeVal), Over: rw.expr(x.Over, "other"), Body: rw.block(x.Body)}
	case Break, Continue, RawStmt:
		return x
	case Print:
		return Print{rw.exprs(x.Args, "print")}
	case Panic:
		return Panic{rw.expr(x.E, "other")}
	case ExprStmt:
		return ExprStmt{rw.expr(x.E, "other")}
	case Return:
		return Return{rw.exprs(x.Values, "ret")}
	case Write:
		return Write{rw.expr(x.Path, "other"), rw.expr(x.Data, "other"), rw.expr(x.Append, "other")}
	case FuncDecl:
		ps := make([]Param, len(x.Params))
		for i, p := range x.Params {
			ps[i] = Param{rw.name("var", p.Name), p.T}
		}
		return FuncDecl{Name: rw.name("func", x.Name), Params: ps, Results: x.Results, Body: rw.block(x.Body)}
	}
	panic("rewriter: unknown stmt")
}

func (rw *Rewriter) Program(p *Program) *Program {
	out := &Program{}
	for _, f := range p.Files {
		nf := &File{Name: f.Name, Imports: append([]Import{}, f.Imports...), Stmts: rw.block(f.Stmts)}
		out.Files = append(out.Files, nf)
	}
	return out
}

// CollectNames returns the user identifiers of a program by kind.
func CollectNames(p *Program) (vars []string, funcs []string) {
	seenV, seenF := map[string]bool{}, map[string]bool{}
	rw := &Rewriter{Name: func(kind, n string) string {
		if kind == "var" && !seenV[n] {
			seenV[n] = true
			vars = append(vars, n)
		}
		if kind == "func" && !seenF[n] {
			seenF[n] = true
			funcs = append(funcs, n)
		}
		return n
	}}
	rw.Program(p)
	return
}
