package main

import (
	"fmt"
)

func framed(e Expr) Expr { return bin("+", bin("+", sl("["), e), sl("]")) }

// S1: every (len, a, b) with 0 <= a <= b <= len <= 12.
func s1Subscripts() []BashCase {
	cases := []BashCase{}
	const alpha = "abcdefghijkl"
	for L := 0; L <= 12; L++ {
		for _, computed := range []bool{false, true} {
			stmts := []Stmt{def("s", sl(alpha[:L])), def("z", il(0))}
			ix := func(v int) Expr {
				if computed {
					return bin("+", vr("z"), il(int64(v)))
				}
				return il(int64(v))
			}
			stmts = append(stmts, pr(Len{vr("s")}, framed(Substr{"s", nil, nil})))
			for a := 0; a <= L; a++ {
				args := []Expr{il(int64(a)), framed(Substr{"s", ix(a), nil}), framed(Substr{"s", nil, ix(a)})}
				if a < L {
					args = append(args, framed(Index{"s", ix(a)}))
				}
				stmts = append(stmts, pr(args...))
				line := []Expr{}
				for b := a; b <= L; b++ {
					line = append(line, framed(Substr{"s", ix(a), ix(b)}))
					if len(line) == 6 {
						stmts = append(stmts, pr(line...))
						line = nil
					}
				}
				if len(line) > 0 {
					stmts = append(stmts, pr(line...))
				}
			}
			cases = append(cases, BashCase{Key: fmt.Sprintf("S1/len=%d/computed=%v", L, computed), Prog: SingleFile(stmts)})
		}
	}
	// S1b: the same index values written as expressions of every shape (difference from the length, sums
	// in both orders, groups, products, call results, a negative literal subtracted)
	shapes := []struct {
		name string
		mk   func(v int, L int) Expr
	}{
		{"n-minus-k", func(v, L int) Expr { return bin("-", vr("n"), il(int64(L-v))) }},
		{"len-minus-k", func(v, L int) Expr { return bin("-", Len{vr("s")}, il(int64(L-v))) }},
		{"group-n-minus-k", func(v, L int) Expr { return Group{bin("-", vr("n"), il(int64(L-v)))} }},
		{"k-plus-z", func(v, L int) Expr { return bin("+", il(int64(v)), vr("z")) }},
		{"n-minus-m", func(v, L int) Expr { return bin("-", bin("-", vr("n"), vr("m")), il(int64(L-v-2))) }},
		{"n-minus-1-minus-k", func(v, L int) Expr { return bin("-", bin("-", vr("n"), il(1)), il(int64(L-v-1))) }},
		{"k-times-one", func(v, L int) Expr { return bin("*", il(int64(v)), vr("one")) }},
		{"call", func(v, L int) Expr { return call("at", il(int64(v))) }},
		{"minus-negative", func(v, L int) Expr { return bin("-", vr("z"), il(int64(-v))) }},
		{"n-plus-negative", func(v, L int) Expr { return bin("+", vr("n"), il(int64(v-L))) }},
		{"half-sum", func(v, L int) Expr { return bin("/", bin("+", il(int64(v)), il(int64(v))), il(2)) }},
	}
	for _, sh := range shapes {
		for _, L := range []int{5, 12} {
			stmts := []Stmt{fn("at", []Param{{"k", TInt}}, []Type{TInt}, ret(vr("k"))), def("s", sl(alpha[:L])), def("z", il(0)), def("one", il(1)), def("m", il(2)), def("n", Len{vr("s")})}
			for a := 0; a <= L; a++ {
				args := []Expr{il(int64(a)), framed(Substr{"s", sh.mk(a, L), nil}), framed(Substr{"s", nil, sh.mk(a, L)})}
				if a < L {
					args = append(args, framed(Index{"s", sh.mk(a, L)}))
				}
				stmts = append(stmts, pr(args...))
				line := []Expr{}
				for b := a; b <= L; b++ {
					line = append(line, framed(Substr{"s", sh.mk(a, L), sh.mk(b, L)}), framed(Substr{"s", il(int64(a)), sh.mk(b, L)}))
					if len(line) >= 6 {
						stmts = append(stmts, pr(line...))
						line = nil
					}
				}
				if len(line) > 0 {
					stmts = append(stmts, pr(line...))
				}
			}
			cases = append(cases, BashCase{Key: fmt.Sprintf("S1b/%s/len=%d", sh.name, L), Prog: SingleFile(stmts)})
		}
	}
	// an index that is a call with an effect: evaluated once, both for s[i] and as a bound
	cases = append(cases, BashCase{Key: "S1/cursor-index", Prog: SingleFile([]Stmt{
		def("pos", il(0)), def("s", sl("abcdefghij")),
		fn("next", nil, []Type{TInt}, IncDec{"pos", true}, ret(bin("-", vr("pos"), il(1)))),
		pr(framed(Index{"s", call("next")}), framed(Index{"s", call("next")}), framed(Index{"s", call("next")})), pr(vr("pos")),
		pr(framed(Substr{"s", call("next"), il(8)}), framed(Substr{"s", il(1), bin("+", call("next"), il(2))}), framed(Substr{"s", call("next"), nil})), pr(vr("pos")),
		def("c", Index{"s", call("next")}), pr(framed(vr("c"))), pr(vr("pos")),
	})})
	// subscripts of subscripts, of parameters and of call results stored in variables
	stmts := []Stmt{
		fn("mid", []Param{{"p", TString}, {"a", TInt}, {"b", TInt}}, []Type{TString}, ret(Substr{"p", vr("a"), vr("b")})),
		def("s", sl("hello world")), def("t", call("mid", vr("s"), il(3), il(8))), pr(framed(vr("t")), Len{vr("t")}, framed(Substr{"t", il(1), il(3)})),
		def("u", Substr{"s", il(6), nil}), pr(framed(Index{"u", il(0)}), framed(Substr{"u", nil, il(0)}), cmp("==", Substr{"u", nil, nil}, sl("world"))),
		def("e", sl("")), pr(framed(Substr{"e", nil, nil}), Len{vr("e")}, framed(Substr{"e", il(0), il(0)})),
		pr(Len{bin("+", vr("s"), vr("t"))}, Len{sl("")}, Len{Substr{"s", il(2), il(2)}}),
	}
	cases = append(cases, BashCase{Key: "S1/composed", Prog: SingleFile(stmts)})
	return cases
}

func elemSample(t Type, i int) Expr {
	switch t {
	case TInt:
		return il(int64(i*3 + 1))
	case TBool:
		return bl(true)
	}
	return sl(fmt.Sprintf("e%d x", i))
}

func dumpSlice(name string, t Type) []Stmt {
	var elem Expr = Index{name, vr("di")}
	if t == TString {
		elem = framed(elem)
	}
	return []Stmt{pr(sl("len"), Len{vr(name)}), For{Kind: ForThree, Init: def("di", il(0)), Cond: cmp("<", vr("di"), Len{vr(name)}), Post: IncDec{"di", true}, Body: []Stmt{pr(vr("di"), elem)}}}
}

// S2: growth with gap fill.
func s2Growth() []BashCase {
	cases := []BashCase{}
	for _, t := range []Type{TInt, TBool, TString} {
		for old := 0; old <= 12; old++ {
			stmts := []Stmt{}
			for ki, k := range []int{0, 1, 2, 3, 4, 10, 11, 25, 39} {
				name := fmt.Sprintf("s%d", ki)
				elems := []Expr{}
				for i := 0; i < old; i++ {
					elems = append(elems, elemSample(t, i))
				}
				block := []Stmt{def(name, SliceLit{t, elems}), SliceSet{name, il(int64(old + k)), elemSample(t, 77)}, pr(sl("grow"), il(int64(old)), il(int64(k)))}
				block = append(block, dumpSlice(name, t)...)
				stmts = append(stmts, ifs(bl(true), block...))
			}
			cases = append(cases, BashCase{Key: fmt.Sprintf("S2/%s/old=%d", t.Elem(), old), Prog: SingleFile(stmts)})
		}
	}
	// growth with computed index, through an alias, inside a function, and var s []T
	for _, t := range []Type{TSliceInt, TSliceBool, TSliceString} {
		stmts := []Stmt{
			fn("put", []Param{{"p", t}, {"i", TInt}}, nil, SliceSet{"p", vr("i"), elemSample(t.Elem(), 5)}),
			VarDecl{Names: []string{"a"}, Type: t}, pr(Len{vr("a")}),
			def("b", vr("a")), SliceSet{"b", bin("+", Len{vr("a")}, il(2)), elemSample(t.Elem(), 1)},
		}
		stmts = append(stmts, dumpSlice("a", t.Elem())...)
		stmts = append(stmts, callS("put", vr("a"), il(11)))
		stmts = append(stmts, dumpSlice("b", t.Elem())...)
		stmts = append(stmts, forUp("i", 12, SliceSet{"a", bin("*", vr("i"), il(2)), elemSample(t.Elem(), 9)}), pr(Len{vr("a")}, Len{vr("b")}))
		cases = append(cases, BashCase{Key: "S2/alias-func/" + t.String(), Prog: SingleFile(stmts)})
	}
	return cases
}

// S3: aliasing chains.
// s6Histories: every sequence of three operations on one slice (in-range write, append, write beyond the end,
// copy from a longer slice, write through an alias, write inside a function), then its contents.
func s6Histories() []BashCase {
	type op struct {
		name string
		st   func(k int) []Stmt
	}
	ops := []op{
		{"set", func(k int) []Stmt { return []Stmt{SliceSet{"x", il(0), il(int64(100 + k))}} }},
		{"append", func(k int) []Stmt { return []Stmt{SliceSet{"x", Len{vr("x")}, il(int64(200 + k))}} }},
		{"gap", func(k int) []Stmt { return []Stmt{SliceSet{"x", bin("+", Len{vr("x")}, il(2)), il(int64(300 + k))}} }},
		{"copy-longer", func(k int) []Stmt { return []Stmt{ExprStmt{Copy{"x", vr("long")}}} }},
		{"alias-append", func(k int) []Stmt { return []Stmt{SliceSet{"al", Len{vr("al")}, il(int64(400 + k))}} }},
		{"in-function", func(k int) []Stmt { return []Stmt{callS("grow", vr("x"), il(int64(500+k)))} }},
	}
	cases := []BashCase{}
	for a := range ops {
		for b := range ops {
			for c3 := range ops {
				stmts := []Stmt{
					fn("grow", []Param{{"p", TSliceInt}, {"v", TInt}}, nil, SliceSet{"p", Len{vr("p")}, vr("v")}, SliceSet{"p", il(0), bin("+", vr("v"), il(1))}),
					def("x", SliceLit{TInt, []Expr{il(1), il(2)}}), def("al", vr("x")),
					def("long", SliceLit{TInt, []Expr{il(11), il(12), il(13), il(14), il(15), il(16)}}), def("short", SliceLit{TInt, []Expr{il(21)}}),
					def("other", SliceLit{TInt, []Expr{il(9)}}),
				}
				stmts = append(stmts, ops[a].st(1)...)
				stmts = append(stmts, ops[b].st(2)...)
				stmts = append(stmts, ops[c3].st(3)...)
				stmts = append(stmts, dumpSlice("x", TInt)...)
				stmts = append(stmts, pr(Len{vr("al")}, Len{vr("long")}, Len{vr("short")}, Len{vr("other")}))
				cases = append(cases, BashCase{Key: fmt.Sprintf("S6/%s/%s/%s", ops[a].name, ops[b].name, ops[c3].name), Prog: SingleFile(stmts)})
			}
		}
	}
	// index and value of an element assignment are both calls that share state
	ivc := []Stmt{
		def("n", il(0)), fn("next", nil, []Type{TInt}, IncDec{"n", true}, ret(bin("-", vr("n"), il(1)))),
		def("out", SliceLit{TInt, nil}), SliceSet{"out", call("next"), bin("+", call("next"), il(4))}, SliceSet{"out", call("next"), bin("+", call("next"), il(4))},
	}
	cases = append(cases, BashCase{Key: "S6/index-and-value-calls", Prog: SingleFile(append(ivc, dumpSlice("out", TInt)...))})
	return cases
}

// s3ManyParams: slices and strings handed over at parameter positions 1, 9, 10, 11 and 12.
func s3ManyParams() []BashCase {
	params := []Param{}
	for i := 1; i <= 12; i++ {
		switch i {
		case 1, 10, 12:
			params = append(params, Param{fmt.Sprintf("p%d", i), TSliceInt})
		case 9, 11:
			params = append(params, Param{fmt.Sprintf("p%d", i), TString})
		default:
			params = append(params, Param{fmt.Sprintf("p%d", i), TInt})
		}
	}
	body := []Stmt{SliceSet{"p1", il(0), il(100)}, SliceSet{"p10", Len{vr("p10")}, il(110)}, SliceSet{"p12", il(3), il(120)}, ret(bin("+", bin("+", vr("p9"), vr("p11")), Itoa{bin("+", bin("+", Len{vr("p1")}, Len{vr("p10")}), Len{vr("p12")})}))}
	args := []Expr{}
	for i := 1; i <= 12; i++ {
		switch i {
		case 1:
			args = append(args, vr("a"))
		case 10:
			args = append(args, vr("b"))
		case 12:
			args = append(args, vr("c"))
		case 9:
			args = append(args, sl("nine "))
		case 11:
			args = append(args, sl("eleven "))
		default:
			args = append(args, il(int64(i)))
		}
	}
	stmts := []Stmt{fn("many", params, []Type{TString}, body...), def("a", SliceLit{TInt, []Expr{il(1)}}), def("b", SliceLit{TInt, []Expr{il(2), il(3)}}), def("c", SliceLit{TInt, nil}),
		pr(call("many", args...)), pr(Index{"a", il(0)}, Len{vr("b")}, Index{"b", il(2)}, Len{vr("c")}, Index{"c", il(3)}, Index{"c", il(0)})}
	return []BashCase{{Key: "S3/slices-at-parameter-positions-10-and-12", Prog: SingleFile(stmts)}}
}

func s3Aliasing() []BashCase {
	I := func(vs ...int64) Expr {
		e := []Expr{}
		for _, v := range vs {
			e = append(e, il(v))
		}
		return SliceLit{TInt, e}
	}
	progs := map[string][]Stmt{
		"copy-of-variable":    {def("a", I(1, 2, 3)), def("b", vr("a")), SliceSet{"b", il(0), il(9)}, pr(Index{"a", il(0)}, Index{"b", il(0)}), SliceSet{"a", il(5), il(7)}, pr(Len{vr("a")}, Len{vr("b")}, Index{"b", il(5)}, Index{"b", il(4)})},
		"parameter":           {fn("w", []Param{{"p", TSliceInt}}, nil, SliceSet{"p", il(1), il(42)}, SliceSet{"p", Len{vr("p")}, il(43)}), def("a", I(1, 2, 3)), callS("w", vr("a")), pr(Index{"a", il(1)}, Len{vr("a")}, Index{"a", il(3)})},
		"returned":            {fn("id", []Param{{"p", TSliceInt}}, []Type{TSliceInt}, ret(vr("p"))), def("a", I(1, 2)), def("b", call("id", vr("a"))), SliceSet{"b", il(0), il(5)}, pr(Index{"a", il(0)}, Len{vr("b")})},
		"stored-by-callee":    {VarDecl{Names: []string{"keep"}, Type: TSliceInt}, fn("stash", []Param{{"p", TSliceInt}}, nil, set("keep", vr("p"))), def("a", I(4, 5)), callS("stash", vr("a")), SliceSet{"keep", il(0), il(6)}, pr(Index{"a", il(0)}, Len{vr("keep")}), SliceSet{"a", il(2), il(8)}, pr(Index{"keep", il(2)})},
		"fresh-per-iteration": {VarDecl{Names: []string{"first"}, Type: TSliceInt}, forUp("i", 3, def("t", I(0)), SliceSet{"t", il(0), vr("i")}, ifs(cmp("==", vr("i"), il(0)), set("first", vr("t"))), pr(Index{"t", il(0)}, Index{"first", il(0)}, Len{vr("t")})), pr(Index{"first", il(0)})},
		"fresh-per-call":      {fn("mk", []Param{{"v", TInt}}, []Type{TSliceInt}, def("s", I(0, 0)), SliceSet{"s", il(0), vr("v")}, ret(vr("s"))), def("a", call("mk", il(1))), def("b", call("mk", il(2))), pr(Index{"a", il(0)}, Index{"b", il(0)}), SliceSet{"a", il(1), il(9)}, pr(Index{"b", il(1)})},
		// one declaration, several names, no values: every name is a slice of its own
		"var-decl-two-names":          {VarDecl{Names: []string{"evens", "odds"}, Type: TSliceInt}, forUp("i", 5, ife(cmp("==", bin("%", vr("i"), il(2)), il(0)), []Stmt{SliceSet{"evens", Len{vr("evens")}, vr("i")}}, []Stmt{SliceSet{"odds", Len{vr("odds")}, vr("i")}})), pr(Len{vr("evens")}, Len{vr("odds")}, Index{"evens", il(2)}, Index{"odds", il(1)})},
		"var-decl-three-names-strings": {VarDecl{Names: []string{"a", "b", "c"}, Type: TSliceString}, SliceSet{"b", il(0), sl("only b")}, SliceSet{"c", il(1), sl("c1")}, pr(Len{vr("a")}, Len{vr("b")}, Len{vr("c")}, framed(Index{"c", il(0)}), framed(Index{"b", il(0)}))},
		"var-decl-two-names-in-function": {fn("split", []Param{{"n", TInt}}, []Type{TInt}, VarDecl{Names: []string{"lo", "hi"}, Type: TSliceInt}, forUp("i", 4, ife(cmp("<", vr("i"), vr("n")), []Stmt{SliceSet{"lo", Len{vr("lo")}, vr("i")}}, []Stmt{SliceSet{"hi", Len{vr("hi")}, vr("i")}})), pr(Len{vr("lo")}, Len{vr("hi")}), ret(bin("+", bin("*", Len{vr("lo")}, il(10)), Len{vr("hi")}))), pr(call("split", il(1))), pr(call("split", il(3)))},
		"var-decl-two-names-bools":    {VarDecl{Names: []string{"p", "q"}, Type: TSliceBool}, SliceSet{"p", il(1), bl(true)}, pr(Len{vr("p")}, Len{vr("q")}, Index{"p", il(0)}, Index{"p", il(1)})},
		"var-decl-empty":      {VarDecl{Names: []string{"a"}, Type: TSliceString}, VarDecl{Names: []string{"b"}, Type: TSliceString}, SliceSet{"a", il(0), sl("x")}, pr(Len{vr("a")}, Len{vr("b")})},
		"reassign":            {def("a", I(1)), def("b", I(2, 3)), set("a", vr("b")), SliceSet{"a", il(0), il(7)}, pr(Index{"b", il(0)}, Len{vr("a")}), set("b", I()), pr(Len{vr("b")}, Len{vr("a")})},
		"bool-and-string":     {def("f", SliceLit{TBool, []Expr{bl(true), bl(false)}}), def("s", SliceLit{TString, []Expr{sl("a b"), sl("")}}), def("g", vr("f")), def("t", vr("s")), SliceSet{"g", il(1), bl(true)}, SliceSet{"t", il(1), sl("c d")}, pr(Index{"f", il(1)}, framed(Index{"s", il(1)}), framed(Index{"s", il(0)}))},
		"two-literals-as-arguments": {fn("both", []Param{{"x", TSliceInt}, {"y", TSliceInt}}, nil, SliceSet{"x", il(0), il(9)}, pr(Len{vr("x")}, Len{vr("y")}, Index{"x", il(0)}, Index{"y", il(0)})), callS("both", I(1), I(2, 3))},
		"two-literals-returned":     {fn("pair", nil, []Type{TSliceString, TSliceString}, ret(SliceLit{TString, []Expr{sl("a")}}, SliceLit{TString, []Expr{sl("b"), sl("c")}})), VarDecl{Names: []string{"p", "q"}, Short: true, Values: []Expr{call("pair")}}, pr(Len{vr("p")}, Len{vr("q")}, Index{"p", il(0)}, Index{"q", il(1)}), SliceSet{"p", il(0), sl("z")}, pr(Index{"q", il(0)})},
		"two-literals-defined":      {VarDecl{Names: []string{"a", "b"}, Short: true, Values: []Expr{I(1), I(2, 3)}}, SliceSet{"a", il(0), il(7)}, pr(Len{vr("a")}, Len{vr("b")}, Index{"a", il(0)}, Index{"b", il(0)})},
		"literal-in-literal-call":   {fn("first", []Param{{"x", TSliceInt}}, []Type{TInt}, ret(Index{"x", il(0)})), def("a", SliceLit{TInt, []Expr{call("first", I(5, 6)), call("first", I(7))}}), pr(Len{vr("a")}, Index{"a", il(0)}, Index{"a", il(1)})},
		"swap-slice-variables": {def("a", I(1, 2, 3)), def("b", I(9)), Assign{[]string{"a", "b"}, []Expr{vr("b"), vr("a")}}, pr(Len{vr("a")}, Len{vr("b")}, Index{"a", il(0)}, Index{"b", il(2)}), SliceSet{"a", il(1), il(7)}, pr(Len{vr("a")}, Len{vr("b")}, Index{"b", il(1)})},
		"rotate-slice-variables": {def("a", I(1)), def("b", I(2, 2)), def("c", I(3, 3, 3)), Assign{[]string{"a", "b", "c"}, []Expr{vr("b"), vr("c"), vr("a")}}, pr(Len{vr("a")}, Len{vr("b")}, Len{vr("c")}), SliceSet{"c", il(0), il(5)}, pr(Index{"a", il(0)}, Index{"b", il(0)}, Index{"c", il(0)})},
		"swap-string-slices-in-function": {fn("flip", []Param{{"p", TSliceString}, {"q", TSliceString}}, []Type{TInt}, Assign{[]string{"p", "q"}, []Expr{vr("q"), vr("p")}}, SliceSet{"p", Len{vr("p")}, sl("tail")}, ret(Len{vr("p")})), def("x", SliceLit{TString, []Expr{sl("a b")}}), def("y", SliceLit{TString, []Expr{sl("c"), sl("")}}), def("n", call("flip", vr("x"), vr("y"))), pr(vr("n"), Len{vr("x")}, Len{vr("y")}, framed(Index{"y", il(2)}))},
		"swap-with-definition": {def("a", I(1, 2)), def("b", I(3)), VarDecl{Names: []string{"c", "a"}, Short: true, Values: []Expr{vr("a"), vr("b")}}, pr(Len{vr("c")}, Len{vr("a")}, Index{"c", il(1)}, Index{"a", il(0)})},
		"two-digit-indices":   {VarDecl{Names: []string{"a"}, Type: TSliceInt}, forUp("i", 25, SliceSet{"a", vr("i"), bin("*", vr("i"), vr("i"))}), pr(Len{vr("a")}, Index{"a", il(9)}, Index{"a", il(10)}, Index{"a", il(11)}, Index{"a", il(24)}), SliceSet{"a", il(10), il(-1)}, pr(Index{"a", il(1)}, Index{"a", il(10)}, Index{"a", il(0)})},
		"element-as-index":    {def("a", I(2, 0, 1)), pr(Index{"a", Index{"a", il(0)}}, Index{"a", Index{"a", Index{"a", il(0)}}}), SliceSet{"a", Index{"a", il(1)}, il(9)}, pr(Index{"a", il(0)})},
	}
	cases := []BashCase{}
	for _, k := range sortedStmtKeys(progs) {
		cases = append(cases, BashCase{Key: "S3/" + k, Prog: SingleFile(progs[k])})
	}
	return cases
}

// S4: copy for every (len dst <= len src <= 6).
func s4Copy() []BashCase {
	cases := []BashCase{}
	for _, t := range []Type{TInt, TBool, TString} {
		stmts := []Stmt{}
		for ls := 0; ls <= 6; ls++ {
			for ld := 0; ld <= ls; ld++ {
				se := []Expr{}
				for i := 0; i < ls; i++ {
					se = append(se, elemSample(t, i+10))
				}
				de := []Expr{}
				for i := 0; i < ld; i++ {
					de = append(de, elemSample(t, i))
				}
				block := []Stmt{def("src", SliceLit{t, se}), def("dst", SliceLit{t, de}), def("n", Copy{"dst", vr("src")}), pr(sl("copy"), il(int64(ld)), il(int64(ls)), vr("n"))}
				block = append(block, dumpSlice("dst", t)...)
				// independence after the copy
				if ls > 0 {
					block = append(block, SliceSet{"src", il(0), elemSample(t, 55)}, pr(Index{"dst", il(0)}))
				}
				stmts = append(stmts, ifs(bl(true), block...))
			}
		}
		cases = append(cases, BashCase{Key: "S4/pairs/" + t.String(), Prog: SingleFile(stmts)})
	}
	extra := map[string][]Stmt{
		"self":                   {def("a", SliceLit{TInt, []Expr{il(1), il(2)}}), def("n", Copy{"a", vr("a")}), pr(vr("n"), Index{"a", il(0)}, Index{"a", il(1)})},
		"alias":                  {def("a", SliceLit{TInt, []Expr{il(1), il(2)}}), def("b", vr("a")), pr(Copy{"b", vr("a")}, Len{vr("b")})},
		"in-function":            {fn("cp", []Param{{"d", TSliceInt}, {"s", TSliceInt}}, []Type{TInt}, def("n", Copy{"d", vr("s")}), ret(vr("n"))), def("x", SliceLit{TInt, nil}), def("y", SliceLit{TInt, []Expr{il(7), il(8), il(9)}}), def("copied", call("cp", vr("x"), vr("y"))), pr(vr("copied"), Len{vr("x")}, Index{"x", il(2)})},
		"global-dst-in-function": {VarDecl{Names: []string{"gd"}, Type: TSliceString}, fn("fill", nil, nil, def("n", Copy{"gd", SliceLit{TString, []Expr{sl("p q"), sl("r")}}}), pr(vr("n"))), callS("fill"), pr(Len{vr("gd")}, framed(Index{"gd", il(0)}))},
		"result-unused":          {def("a", SliceLit{TInt, nil}), ExprStmt{Copy{"a", SliceLit{TInt, []Expr{il(1), il(2), il(3)}}}}, pr(Len{vr("a")}, Index{"a", il(2)})},
		"result-unused-in-function": {fn("fill", []Param{{"d", TSliceString}}, nil, ExprStmt{Copy{"d", SliceLit{TString, []Expr{sl("a b"), sl("c")}}}}), def("x", SliceLit{TString, nil}), def("alias", vr("x")), callS("fill", vr("x")), pr(Len{vr("x")}, framed(Index{"alias", il(0)}), framed(Index{"x", il(1)}))},
		"result-unused-in-blocks":   {def("a", SliceLit{TInt, nil}), def("b", SliceLit{TInt, nil}), def("c", SliceLit{TInt, nil}), ifs(cmp("==", Len{vr("a")}, il(0)), ExprStmt{Copy{"a", SliceLit{TInt, []Expr{il(1), il(2)}}}}), forUp("i", 2, ExprStmt{Copy{"b", SliceLit{TInt, []Expr{vr("i"), vr("i"), vr("i")}}}}), Switch{Tag: il(1), Cases: []SwitchCase{{E: il(1), Body: []Stmt{ExprStmt{Copy{"c", vr("b")}}}}}}, pr(Len{vr("a")}, Index{"a", il(1)}, Len{vr("b")}, Index{"b", il(2)}, Len{vr("c")}, Index{"c", il(0)})},
		"result-unused-global-in-function": {VarDecl{Names: []string{"gd"}, Type: TSliceInt}, fn("fill", nil, nil, ExprStmt{Copy{"gd", SliceLit{TInt, []Expr{il(4), il(5)}}}}), callS("fill"), pr(Len{vr("gd")}, Index{"gd", il(1)})},
		"from-literal-and-call":  {fn("mk", nil, []Type{TSliceInt}, ret(SliceLit{TInt, []Expr{il(4), il(5)}})), def("a", SliceLit{TInt, []Expr{il(0)}}), pr(Copy{"a", call("mk")}, Index{"a", il(0)}, Index{"a", il(1)})},
		"twelve":                 {VarDecl{Names: []string{"a"}, Type: TSliceInt}, forUp("i", 12, SliceSet{"a", vr("i"), vr("i")}), VarDecl{Names: []string{"b"}, Type: TSliceInt}, pr(Copy{"b", vr("a")}, Len{vr("b")}, Index{"b", il(9)}, Index{"b", il(10)}, Index{"b", il(11)})},
	}
	// copy is element-wise identity whatever the elements look like: strings shaped like options of the
	// commands a back end might use, blanks, patterns, empty strings, line breaks at the end
	{
		odd := []string{"-n", "-e", "-E", "-nee", "-", "--", "-n x", " x ", "*", "", "a\n", "\n", "a\tb", "%s", "x"}
		se, de := []Expr{}, []Expr{}
		for _, v := range odd {
			se = append(se, sl(v))
			de = append(de, sl("old"))
		}
		body := []Stmt{def("src", SliceLit{TString, se}), def("dst", SliceLit{TString, de}), def("n", Copy{"dst", vr("src")}), pr(vr("n"), Len{vr("dst")}),
			For{Kind: ForRange, RangeIdx: "i", RangeVal: "v", Over: vr("dst"), Body: []Stmt{pr(vr("i"), Len{vr("v")}, framed(vr("v")), cmp("==", vr("v"), Index{"src", vr("i")}))}}}
		extra["elements-shaped-like-options"] = body
		extra["elements-shaped-like-options-in-function"] = []Stmt{fn("run", nil, nil, body...), callS("run")}
		ie := []Expr{}
		for _, v := range []int64{-1, 0, -0, 7, -2147483648, 10, 8} {
			ie = append(ie, il(v))
		}
		extra["negative-and-zero-ints"] = []Stmt{def("src", SliceLit{TInt, ie}), VarDecl{Names: []string{"dst"}, Type: TSliceInt}, pr(Copy{"dst", vr("src")}), For{Kind: ForRange, RangeIdx: "i", RangeVal: "v", Over: vr("dst"), Body: []Stmt{pr(vr("i"), vr("v"), cmp("==", vr("v"), Index{"src", vr("i")}))}}}
	}
	// a function's local slice and a global of the same name defined after the function (the function does not see it)
	extra["local-dst-and-later-global-of-same-name"] = []Stmt{fn("fill", nil, []Type{TInt}, def("buf", SliceLit{TInt, []Expr{il(0), il(0)}}), def("n", Copy{"buf", SliceLit{TInt, []Expr{il(7), il(8)}}}), ret(bin("+", bin("*", vr("n"), il(10)), Len{vr("buf")}))),
		fn("grow", nil, []Type{TInt}, def("buf", SliceLit{TString, nil}), SliceSet{"buf", il(2), sl("x")}, ret(Len{vr("buf")})),
		def("buf", SliceLit{TInt, []Expr{il(1), il(2), il(3), il(4)}}), pr(call("fill"), call("grow"), Len{vr("buf")}, Index{"buf", il(0)}), pr(call("fill"), Len{vr("buf")})}
	// several builtin results in one statement: each value is the one its own operand yields
	extra["multi-value/copy-and-len"] = []Stmt{def("buffer", SliceLit{TInt, []Expr{il(0), il(0), il(0)}}), def("batch", SliceLit{TInt, []Expr{il(4), il(5), il(6)}}), VarDecl{Names: []string{"log"}, Type: TSliceString}, forUp("i", 12, SliceSet{"log", vr("i"), sl("e")}),
		VarDecl{Names: []string{"copied", "entries"}, Short: true, Values: []Expr{Copy{"buffer", vr("batch")}, Len{vr("log")}}}, pr(vr("copied"), vr("entries")),
		VarDecl{Names: []string{"e2", "c2"}, Short: true, Values: []Expr{Len{vr("log")}, Copy{"buffer", vr("batch")}}}, pr(vr("e2"), vr("c2")),
		Assign{[]string{"copied", "entries", "e2"}, []Expr{Len{vr("batch")}, Copy{"buffer", vr("batch")}, Len{vr("log")}}}, pr(vr("copied"), vr("entries"), vr("e2"))}
	extra["multi-value/lens-and-elements"] = []Stmt{def("a", SliceLit{TInt, []Expr{il(1), il(2)}}), def("b", SliceLit{TString, []Expr{sl("p"), sl("q"), sl("r")}}), def("s", sl("hello")),
		VarDecl{Names: []string{"la", "lb", "ls"}, Short: true, Values: []Expr{Len{vr("a")}, Len{vr("b")}, Len{vr("s")}}}, pr(vr("la"), vr("lb"), vr("ls")),
		VarDecl{Names: []string{"x", "y", "z"}, Short: true, Values: []Expr{Index{"a", il(1)}, Index{"b", il(2)}, Substr{"s", il(1), il(3)}}}, pr(vr("x"), vr("y"), vr("z")),
		VarDecl{Names: []string{"m", "t"}, Short: true, Values: []Expr{Len{Substr{"s", il(1), nil}}, Itoa{Len{vr("b")}}}}, pr(vr("m"), vr("t")),
		Assign{[]string{"la", "lb"}, []Expr{vr("lb"), Len{vr("s")}}}, pr(vr("la"), vr("lb"))}
	extra["multi-value/in-function"] = []Stmt{fn("stats", []Param{{"d", TSliceInt}, {"s", TSliceInt}, {"w", TString}}, []Type{TInt, TInt}, VarDecl{Names: []string{"n", "l"}, Short: true, Values: []Expr{Copy{"d", vr("s")}, Len{vr("w")}}}, ret(vr("n"), vr("l"))),
		def("d", SliceLit{TInt, []Expr{il(0), il(0)}}), VarDecl{Names: []string{"p", "q"}, Short: true, Values: []Expr{call("stats", vr("d"), SliceLit{TInt, []Expr{il(8), il(9)}}, sl("a dozen chars"))}}, pr(vr("p"), vr("q"), Index{"d", il(1)})}
	for _, k := range sortedStmtKeys(extra) {
		cases = append(cases, BashCase{Key: "S4/" + k, Prog: SingleFile(extra[k])})
	}
	return cases
}

// S7: several builtin results meet in ONE expression or argument list. Each operand kind has a register of its own
// in the back ends (a length, a substring, a copied count, a return value); an operand that hands out the register
// itself instead of a copy of it is overwritten by the next operand of the same statement.
func s7BuiltinResultsMeet() []BashCase {
	cases := []BashCase{}
	type operand struct {
		name  string
		setup func(tag string) []Stmt
		e     func(tag string) Expr
	}
	intOps := []operand{
		{"copy", func(t string) []Stmt {
			return []Stmt{VarDecl{Names: []string{"d" + t}, Type: TSliceInt}, def("s"+t, SliceLit{TInt, []Expr{il(4), il(5), il(6)}})}
		}, func(t string) Expr { return Copy{"d" + t, vr("s" + t)} }},
		{"len-slice", func(t string) []Stmt { return []Stmt{def("l"+t, SliceLit{TInt, []Expr{il(7)}})} }, func(t string) Expr { return Len{vr("l" + t)} }},
		{"len-slice-12", func(t string) []Stmt {
			return []Stmt{VarDecl{Names: []string{"m" + t}, Type: TSliceString}, SliceSet{"m" + t, il(11), sl("e")}}
		}, func(t string) Expr { return Len{vr("m" + t)} }},
		{"len-string", func(t string) []Stmt { return []Stmt{def("w"+t, sl("seven c"))} }, func(t string) Expr { return Len{vr("w" + t)} }},
		{"len-substr", func(t string) []Stmt { return []Stmt{def("u"+t, sl("abcdefgh"))} }, func(t string) Expr { return Len{Substr{"u" + t, il(2), il(7)}} }},
		{"index", func(t string) []Stmt { return []Stmt{def("x"+t, SliceLit{TInt, []Expr{il(20), il(30)}})} }, func(t string) Expr { return Index{"x" + t, il(1)} }},
		{"call", func(t string) []Stmt { return nil }, func(t string) Expr { return call("nine") }},
		{"call-len", func(t string) []Stmt { return nil }, func(t string) Expr { return call("width", sl("four")) }},
	}
	strOps := []operand{
		{"char", func(t string) []Stmt { return []Stmt{def("c"+t, sl("xyz"))} }, func(t string) Expr { return Index{"c" + t, il(1)} }},
		{"substr", func(t string) []Stmt { return []Stmt{def("b"+t, sl("abcdef"))} }, func(t string) Expr { return Substr{"b" + t, il(1), il(4)} }},
		{"substr-open", func(t string) []Stmt { return []Stmt{def("o"+t, sl("pqrs"))} }, func(t string) Expr { return Substr{"o" + t, il(2), nil} }},
		{"itoa", func(t string) []Stmt { return []Stmt{def("n"+t, il(42))} }, func(t string) Expr { return Itoa{vr("n" + t)} }},
		{"itoa-len", func(t string) []Stmt { return []Stmt{def("k"+t, sl("12345"))} }, func(t string) Expr { return Itoa{Len{vr("k" + t)}} }},
		{"elem", func(t string) []Stmt { return []Stmt{def("e"+t, SliceLit{TString, []Expr{sl("el0"), sl("el1")}})} }, func(t string) Expr { return Index{"e" + t, il(1)} }},
		{"call", func(t string) []Stmt { return nil }, func(t string) Expr { return call("word") }},
		{"call-sub", func(t string) []Stmt { return nil }, func(t string) Expr { return call("mid", sl("hello")) }},
	}
	prelude := []Stmt{
		fn("nine", nil, []Type{TInt}, ret(il(9))),
		fn("width", []Param{{"s", TString}}, []Type{TInt}, ret(Len{vr("s")})),
		fn("word", nil, []Type{TString}, ret(sl("wd"))),
		fn("mid", []Param{{"s", TString}}, []Type{TString}, ret(Substr{"s", il(1), il(3)})),
		fn("addi", []Param{{"a", TInt}, {"b", TInt}}, []Type{TInt}, ret(bin("+", bin("*", vr("a"), il(100)), vr("b")))),
		fn("cat", []Param{{"a", TString}, {"b", TString}}, []Type{TString}, ret(bin("+", bin("+", vr("a"), sl("/")), vr("b")))),
		fn("both", []Param{{"a", TInt}, {"b", TInt}}, []Type{TInt, TInt}, ret(vr("a"), vr("b"))),
	}
	build := func(kind string, ops []operand, isInt bool) {
		for _, a := range ops {
			for _, b := range ops {
				body := append([]Stmt{}, a.setup("1")...)
				body = append(body, b.setup("2")...)
				x, y := a.e("1"), b.e("2")
				var uses []Stmt
				if isInt {
					uses = []Stmt{
						pr(bin("+", bin("*", x, il(1000)), y)),
					}
					body2 := append(append([]Stmt{}, a.setup("3")...), b.setup("4")...)
					x2, y2 := a.e("3"), b.e("4")
					body3 := append(append([]Stmt{}, a.setup("5")...), b.setup("6")...)
					x3, y3 := a.e("5"), b.e("6")
					body4 := append(append([]Stmt{}, a.setup("7")...), b.setup("8")...)
					x4, y4 := a.e("7"), b.e("8")
					uses = append(uses, body2...)
					uses = append(uses, pr(x2, y2), pr(cmp("<", x2, y2)))
					uses = append(uses, body3...)
					uses = append(uses, pr(call("addi", x3, y3)))
					body5 := append(append([]Stmt{}, a.setup("9")...), b.setup("10")...)
					uses = append(uses, body5...)
					uses = append(uses, pr(bin("+", a.e("9"), b.e("10")), sl("sum")))
					uses = append(uses, body4...)
					uses = append(uses, VarDecl{Names: []string{"p", "q"}, Short: true, Values: []Expr{call("both", x4, y4)}}, pr(vr("p"), vr("q")))
				} else {
					uses = []Stmt{pr(framed(bin("+", bin("+", x, sl("|")), y))), pr(framed(x), framed(y), cmp("==", x, y)), pr(call("cat", x, y))}
				}
				top := append(append(append([]Stmt{}, prelude...), body...), uses...)
				cases = append(cases, BashCase{Key: "S7/" + kind + "/" + a.name + "+" + b.name + "/top", Prog: SingleFile(top)})
				inF := append(append([]Stmt{}, prelude...), fn("run", nil, nil, append(append([]Stmt{}, body...), uses...)...), callS("run"))
				cases = append(cases, BashCase{Key: "S7/" + kind + "/" + a.name + "+" + b.name + "/in-function", Prog: SingleFile(inF)})
			}
		}
	}
	build("int", intOps, true)
	build("string", strOps, false)
	return cases
}

// S5: range.
func s5Range() []BashCase {
	rng := func(idx, val string, over Expr, body ...Stmt) Stmt {
		return For{Kind: ForRange, RangeIdx: idx, RangeVal: val, Over: over, Body: body}
	}
	progs := map[string][]Stmt{
		"slice-index-only":          {def("a", SliceLit{TInt, []Expr{il(5), il(6), il(7)}}), rng("i", "", vr("a"), pr(vr("i"))), pr(sl("end"))},
		"slice-index-value":         {def("a", SliceLit{TString, []Expr{sl("x"), sl("y z"), sl("")}}), rng("i", "v", vr("a"), pr(vr("i"), framed(vr("v")))), pr(sl("end"))},
		"bool-slice":                {def("a", SliceLit{TBool, []Expr{bl(true), bl(false)}}), rng("i", "v", vr("a"), pr(vr("i"), vr("v"), Not{vr("v")}))},
		"empty-slice":               {VarDecl{Names: []string{"a"}, Type: TSliceInt}, rng("i", "v", vr("a"), pr(sl("never"), vr("i"), vr("v"))), pr(sl("end"))},
		"string":                    {def("s", sl("a bc")), rng("i", "ch", vr("s"), pr(vr("i"), framed(vr("ch")))), pr(sl("end"))},
		"string-literal":            {rng("i", "ch", sl("xyz"), pr(vr("i"), vr("ch")))},
		"empty-string":              {def("s", sl("")), rng("i", "", vr("s"), pr(sl("never"))), pr(sl("end"))},
		"long-string":               {def("s", sl("abcdefghijklmnopqrstuvwx")), def("n", il(0)), rng("i", "ch", vr("s"), OpAssign{"n", "+", vr("i")}), pr(vr("n"))},
		"in-function":               {fn("sum", []Param{{"p", TSliceInt}}, []Type{TInt}, def("t", il(0)), rng("i", "v", vr("p"), OpAssign{"t", "+", bin("*", vr("v"), bin("+", vr("i"), il(1)))}), ret(vr("t"))), pr(call("sum", SliceLit{TInt, []Expr{il(1), il(2), il(3)}}), call("sum", SliceLit{TInt, nil}))},
		"nested":                    {def("a", SliceLit{TInt, []Expr{il(1), il(2)}}), def("b", SliceLit{TString, []Expr{sl("p"), sl("q"), sl("r")}}), rng("i", "x", vr("a"), rng("j", "y", vr("b"), pr(vr("i"), vr("j"), vr("x"), vr("y"))), pr(sl("row"), vr("i")))},
		"element-writes":            {def("a", SliceLit{TInt, []Expr{il(1), il(2), il(3)}}), rng("i", "v", vr("a"), SliceSet{"a", vr("i"), bin("*", vr("v"), il(10))}, ifs(cmp("<", vr("i"), il(2)), SliceSet{"a", bin("+", vr("i"), il(1)), il(100)})), rng("k", "w", vr("a"), pr(vr("k"), vr("w")))},
		"break-continue":            {def("a", SliceLit{TInt, []Expr{il(1), il(2), il(3), il(4), il(5)}}), rng("i", "v", vr("a"), ifs(cmp("==", bin("%", vr("v"), il(2)), il(0)), Continue{}), ifs(cmp(">", vr("v"), il(3)), Break{}), pr(vr("i"), vr("v"))), pr(sl("end"))},
		"two-sequential":            {def("a", SliceLit{TInt, []Expr{il(1), il(2)}}), rng("i", "v", vr("a"), pr(vr("i"), vr("v"))), rng("i", "v", vr("a"), pr(vr("v"), vr("i")))},
		"twelve-elements":           {VarDecl{Names: []string{"a"}, Type: TSliceInt}, forUp("i", 12, SliceSet{"a", vr("i"), bin("-", il(20), vr("i"))}), def("t", il(0)), rng("j", "v", vr("a"), OpAssign{"t", "+", bin("*", vr("v"), vr("j"))}), pr(vr("t"))},
		"range-with-outer-loop-mix": {def("a", SliceLit{TInt, []Expr{il(3), il(4)}}), forUp("r", 2, rng("i", "v", vr("a"), ifs(cmp("==", vr("i"), vr("r")), Continue{}), pr(vr("r"), vr("i"), vr("v"))), pr(sl("after"), vr("r")))},
	}
	// nesting matrix over the kind of the ranged expression (variable, call result, literal, computed
	// string): outer and inner iterables differ in length and content, the outer loop runs 3 times
	type itk struct {
		name  string
		setup []Stmt
		outer Expr
		inner Expr
		str   bool
	}
	kinds := []itk{
		{"var-slice", []Stmt{def("oa", SliceLit{TInt, []Expr{il(10), il(20), il(30)}}), def("ia", SliceLit{TInt, []Expr{il(7), il(8)}})}, vr("oa"), vr("ia"), false},
		{"call-slice", []Stmt{fn("rows", nil, []Type{TSliceInt}, ret(SliceLit{TInt, []Expr{il(10), il(20), il(30)}})), fn("cols", nil, []Type{TSliceInt}, ret(SliceLit{TInt, []Expr{il(7), il(8)}}))}, call("rows"), call("cols"), false},
		{"literal-slice", nil, SliceLit{TInt, []Expr{il(10), il(20), il(30)}}, SliceLit{TInt, []Expr{il(7), il(8)}}, false},
		{"var-string", []Stmt{def("os", sl("abc")), def("is", sl("xy"))}, vr("os"), vr("is"), true},
		{"literal-string", nil, sl("abc"), sl("xy"), true},
		{"concat-string", []Stmt{def("p", sl("a")), def("q", sl("x"))}, bin("+", vr("p"), sl("bc")), bin("+", vr("q"), sl("y")), true},
		{"call-string", []Stmt{fn("word", nil, []Type{TString}, ret(sl("abc"))), fn("tag", nil, []Type{TString}, ret(sl("xy")))}, call("word"), call("tag"), true},
		{"group-var", []Stmt{def("ga", SliceLit{TInt, []Expr{il(10), il(20), il(30)}}), def("gb", SliceLit{TInt, []Expr{il(7), il(8)}})}, Group{vr("ga")}, Group{vr("gb")}, false},
	}
	cases := []BashCase{}
	for _, o := range kinds {
		for _, in := range kinds {
			stmts := []Stmt{}
			stmts = append(stmts, o.setup...)
			if in.name != o.name {
				stmts = append(stmts, in.setup...)
			}
			stmts = append(stmts, rng("i", "x", o.outer, rng("j", "y", in.inner, pr(vr("i"), vr("x"), vr("j"), vr("y"))), pr(sl("row"), vr("i"), vr("x"))), pr(sl("end")))
			cases = append(cases, BashCase{Key: "S5/nest/" + o.name + "/" + in.name, Prog: SingleFile(stmts)})
			// the same inside a function, and with the inner loop in a callee
			body := []Stmt{rng("i", "x", o.outer, ExprStmt{call("innerLoop", vr("i"))}, pr(sl("row"), vr("i"), vr("x")))}
			st2 := []Stmt{}
			st2 = append(st2, o.setup...)
			if in.name != o.name {
				st2 = append(st2, in.setup...)
			}
			st2 = append(st2, fn("innerLoop", []Param{{"k", TInt}}, nil, rng("j", "y", in.inner, pr(vr("k"), vr("j"), vr("y")))), fn("outerLoop", nil, nil, body...), ExprStmt{call("outerLoop")}, pr(sl("end")))
			cases = append(cases, BashCase{Key: "S5/nest-callee/" + o.name + "/" + in.name, Prog: SingleFile(st2)})
		}
	}
	// a range loop whose body calls a function holding a loop of another kind (condition only, endless with
	// break, three-clause, range): hidden per-loop state of the callee does not disturb the caller's position
	calleeLoops := map[string][]Stmt{
		"cond":   {def("k", il(0)), For{Kind: ForCond, Cond: cmp("<", vr("k"), vr("n")), Body: []Stmt{IncDec{"k", true}}}, ret(vr("k"))},
		"ever":   {def("k", il(0)), For{Kind: ForEver, Body: []Stmt{ifs(cmp(">=", vr("k"), vr("n")), Break{}), IncDec{"k", true}}}, ret(vr("k"))},
		"three":  {def("t", il(0)), For{Kind: ForThree, Init: def("k", il(0)), Cond: cmp("<", vr("k"), vr("n")), Post: IncDec{"k", true}, Body: []Stmt{OpAssign{"t", "+", il(1)}}}, ret(vr("t"))},
		"range":  {def("t", il(0)), For{Kind: ForRange, RangeIdx: "k", RangeVal: "", Over: sl("ab"), Body: []Stmt{OpAssign{"t", "+", vr("n")}}}, ret(vr("t"))},
		"cond-never-entered": {def("k", il(0)), For{Kind: ForCond, Cond: cmp("<", vr("n"), il(0)), Body: []Stmt{IncDec{"k", true}}}, ret(bin("+", vr("k"), vr("n")))},
	}
	for _, ck := range []string{"cond", "ever", "three", "range", "cond-never-entered"} {
		spin := fn("spin", []Param{{"n", TInt}}, []Type{TInt}, calleeLoops[ck]...)
		cases = append(cases, BashCase{Key: "S5/callee-loop/" + ck + "/range-slice", Prog: SingleFile([]Stmt{spin, def("a", SliceLit{TInt, []Expr{il(2), il(0), il(3), il(1)}}), rng("i", "v", vr("a"), pr(vr("i"), vr("v"), call("spin", vr("v")))), pr(sl("end"))})})
		cases = append(cases, BashCase{Key: "S5/callee-loop/" + ck + "/range-string", Prog: SingleFile([]Stmt{spin, rng("i", "ch", sl("wxyz"), pr(vr("i"), vr("ch"), call("spin", vr("i")))), pr(sl("end"))})})
		cases = append(cases, BashCase{Key: "S5/callee-loop/" + ck + "/three-clause", Prog: SingleFile([]Stmt{spin, def("a", SliceLit{TInt, []Expr{il(2), il(0), il(3)}}), For{Kind: ForThree, Init: def("i", il(0)), Cond: cmp("<", vr("i"), Len{vr("a")}), Post: IncDec{"i", true}, Body: []Stmt{pr(vr("i"), call("spin", Index{"a", vr("i")}))}}, pr(sl("end"))})})
		cases = append(cases, BashCase{Key: "S5/callee-loop/" + ck + "/range-in-function-growing", Prog: SingleFile([]Stmt{spin, fn("run", nil, nil, def("a", SliceLit{TInt, []Expr{il(1), il(2), il(3)}}), def("out", SliceLit{TInt, nil}), rng("i", "v", vr("a"), SliceSet{"out", Len{vr("out")}, call("spin", vr("v"))}), pr(Len{vr("out")}, Index{"out", il(0)}, Index{"out", il(2)})), callS("run"), callS("run")})})
	}
	// raw string literals keep every byte between the back quotes: a backslash is a character, not an escape
	for i, raw := range []string{"C:\\repo\\src\\readme", "a\\nb\\tc", "\\r", "\\d+\\w*", "tab\\there", "50%\\r\\n"} {
		lit := StrLit{V: raw, Raw: true}
		n := int64(len(raw))
		cases = append(cases, BashCase{Key: fmt.Sprintf("S1/raw-backslash/%d", i), Prog: SingleFile([]Stmt{def("s", lit), pr(Len{vr("s")}, Len{lit}), pr(framed(vr("s"))), pr(framed(Substr{"s", il(1), il(n - 1)}), framed(Substr{"s", nil, il(2)}), framed(Substr{"s", il(n - 2), nil})),
			rng("i", "ch", vr("s"), pr(vr("i"), framed(vr("ch")))), def("t", bin("+", vr("s"), lit)), pr(Len{vr("t")}, cmp("==", vr("t"), bin("+", lit, vr("s"))), cmp("!=", vr("s"), sl("x")))})})
	}
	for _, k := range sortedStmtKeys(progs) {
		cases = append(cases, BashCase{Key: "S5/" + k, Prog: SingleFile(progs[k])})
	}
	return cases
}

func c03Families(c *Check) []BashCase {
	cases := []BashCase{}
	cases = append(cases, s1Subscripts()...)
	cases = append(cases, s2Growth()...)
	cases = append(cases, s3Aliasing()...)
	cases = append(cases, s3ManyParams()...)
	cases = append(cases, s4Copy()...)
	cases = append(cases, s5Range()...)
	cases = append(cases, s6Histories()...)
	cases = append(cases, s7BuiltinResultsMeet()...)
	return cases
}

func init() { register("C03", checkC03) }

func checkC03(c *Check) {
	c.Rule = "enumerated families (all substring index pairs for len<=12, growth with gap fill for old len 0..12, aliasing chains, copy for all len pairs <=6, range forms) plus a seeded random sweep over slices and strings; non-trivial = the reference run executed a slice or string operation and printed a line; distinct = SHA-256 of the source"
	c.Assumptions = []string{"reference interpreter: slices are shared growable vectors, strings are ASCII byte sequences", "/bin/bash 5.2", "out-of-range reads, negative indices, resize while ranging, copy into a longer destination are discarded as undefined"}
	nontrivial := func(r Result) bool {
		if len(r.Stdout) == 0 {
			return false
		}
		for _, k := range []string{"sliceindex", "strindex", "substr", "slicelit", "copy", "sliceset", "slicegrow:gap", "slicegrow:append", "len:string", "for:range:string"} {
			if r.Features[k] > 0 {
				return true
			}
		}
		return false
	}
	cases := []BashCase{}
	for _, fc := range c03Families(c) {
		fc.NonTrivial = nontrivial
		cases = append(cases, fc)
	}
	c.Extra["enumerated_cases"] = len(cases)
	nrand := c.Pick(600, 12000)
	cfg := genConfigs["c03"]
	for i := 0; i < nrand; i++ {
		seed := c.Seed*3000017 + int64(i)
		g := NewGen(seed, cfg)
		cases = append(cases, BashCase{Key: fmt.Sprintf("random/c03/seed=%d", seed), Prog: g.Program(), NonTrivial: nontrivial})
	}
	runProbes(c, bashProbeJudge)
	runBashCases(c, withTight(cases, 4))
	c.mu.Lock()
	c.mu.Unlock()
}
