package main

import (
	"fmt"
	"math/rand"
	"strings"
)

func init() { register("C17", checkC17) }

var c17PathClasses = [][2]string{
	{"plain", "f.txt"}, {"dash-only", "-"}, {"double-dash", "--"}, {"dash-help", "--help"}, {"dash-e", "-e"}, {"dash-in-dir", "sub/-"}, {"blank", "a b.txt"}, {"two-blanks", "a  b c.txt"}, {"subdir", "sub/f.txt"}, {"subdir-blank", "sub dir/f g.txt"}, {"dash", "-f.txt"}, {"dash-n", "-n"},
	{"semicolon", "a;b"}, {"amp", "a&b"}, {"gt", "a>b"}, {"lt", "a<b"}, {"pipe", "a|b"}, {"star", "a*b"}, {"question", "a?b"}, {"brackets", "a[1]"}, {"braces", "{a,b}"},
	{"dollar", "$x"}, {"cmdsubst", "$(touch CANARY_P)"}, {"backtick", "`touch CANARY_Q`"}, {"single-quote", "it's"}, {"double-quote", "a\"b"}, {"backslash", "a\\b"}, {"tab", "a\tb"}, {"hash", "#x"}, {"tilde", "~x"},
	// paths spelled like the operator words of test / [ (a compound test of several words parses them as operators)
	{"test-eq", "="}, {"test-eqeq", "=="}, {"test-ne", "!="}, {"test-lt", "<"}, {"test-gt", ">"}, {"test-ef", "-ef"}, {"test-nt", "-nt"}, {"test-ot", "-ot"}, {"test-int-eq", "-eq"}, {"test-int-lt", "-lt"},
	{"test-and", "-a"}, {"test-or", "-o"}, {"test-not", "!"}, {"test-paren", "("}, {"test-close", ")"}, {"test-f", "-f"}, {"test-z", "-z"}, {"test-L", "-L"}, {"bracket", "["}, {"brackets2", "]"},
	{"bang", "!x"}, {"unicode", "é ü.txt"}, {"dot-slash", "./f.txt"}, {"lead-blank", " lead"}, {"trail-blank", "trail "}, {"paren", "a(b)"}, {"equals", "a=b"}, {"percent", "%s%d"},
}

func literalSafe(s string) bool { return !strings.ContainsAny(s, "\"$`\\") }

// valueExpr yields an expression producing string v: as a literal, or read at
// run time from a pre-created source file (so that the recorded literal
// finding of C08 does not stand in the way).
type c17Ctx struct {
	pre   map[string]string
	stmts []Stmt
	n     int
}

func (x *c17Ctx) value(v string, runtime bool) Expr {
	if !runtime {
		return StrLit{V: v}
	}
	x.n++
	name := fmt.Sprintf("src%d.dat", x.n)
	x.pre[name] = v + "\n"
	vn := fmt.Sprintf("rv%d", x.n)
	x.stmts = append(x.stmts, def(vn, Read{sl(name)}))
	return vr(vn)
}

func c17Cell(key string, path string, pathRuntime bool, content string, contentRuntime bool, inFunc bool, computedFlag bool) (BashCase, bool) {
	if (!pathRuntime && !literalSafe(path)) || (!contentRuntime && !literalSafe(content)) {
		return BashCase{}, false // literal spelling of the four shell-special characters is C08's recorded finding
	}
	if (pathRuntime && strings.HasSuffix(path, "\n")) || (contentRuntime && strings.HasSuffix(content, "\n")) {
		return BashCase{}, false
	}
	x := &c17Ctx{pre: map[string]string{}}
	pe := x.value(path, pathRuntime)
	ce := x.value(content, contentRuntime)
	c2 := x.value("second line", false)
	var flagT, flagF Expr = bl(true), bl(false)
	if computedFlag {
		x.stmts = append(x.stmts, def("one", il(1)))
		flagT, flagF = cmp("==", vr("one"), il(1)), cmp("==", vr("one"), il(2))
	}
	body := func(p, s Expr) []Stmt {
		return []Stmt{
			pr(sl("before"), Exists{p}),
			Write{Path: p, Data: s},
			pr(sl("after"), Exists{p}),
			pr(framed(Read{p})),
			Write{Path: p, Data: c2, Append: flagT},
			pr(framed(Read{p})),
			Write{Path: p, Data: s, Append: flagF},
			pr(framed(Read{p})),
			Write{Path: p, Data: s, Append: flagT},
			pr(framed(Read{p})),
		}
	}
	stmts := x.stmts
	if inFunc {
		f := fn("store", []Param{{"p", TString}, {"s", TString}}, nil, body(vr("p"), vr("s"))...)
		stmts = append([]Stmt{}, x.stmts...)
		// the function must be defined before use but after the globals it needs
		stmts = append(stmts, f, callS("store", pe, ce))
	} else {
		stmts = append(stmts, body(pe, ce)...)
	}
	stmts = append(stmts, pr(sl("done")))
	bc := BashCase{Key: key, Prog: SingleFile(stmts), PreFiles: x.pre, CheckFS: true}
	if strings.Contains(path, "/") {
		d := path[:strings.LastIndex(path, "/")]
		if d != "." {
			bc.PreDirs = []string{d}
		}
	}
	return bc, true
}

func contentClass(s string) string {
	switch {
	case strings.HasSuffix(s, "\n"):
		return "trailing-newline"
	case strings.Contains(s, "\n"):
		return "inner-newline"
	}
	return "single-line"
}

func checkC17(c *Check) {
	c.Rule = "model file system (path -> bytes) versus the real sandbox after the script: (1) single-store cells: 53 path spellings (20 of them the operator words of test / [) x literal/run-time path x contents (C08 payloads, every printable character, newline/tab, empty) x literal/run-time content x top level / inside a function x literal / computed append flag, each cell doing exists, write, read, append, overwrite, append; (2) nested operations: path, data or flag expressions that call functions performing writes/reads themselves, writes whose data is the content of their own target, copies between files; (3) composite programs: random histories over three random path spellings and four random contents with every operation placed directly, in a branch, in a loop body or behind a function; (4) histories of 1-12 write/append/read/exists operations over three paths (all histories up to length 2 or 3, random beyond); oracle = reference stdout plus a recursive snapshot of the sandbox (every path, every byte; a write that touches another path shows as a stray or missing file). Non-trivial = at least one write executed; distinct = SHA-256 of source + files"
	c.Assumptions = []string{"literal spellings of the characters \" $ ` \\ are not used (recorded under C08); such values arrive through read() from pre-created files", "Batch helpers not claimed"}
	runProbes(c, bashProbeJudge)
	nontrivial := func(r Result) bool { return r.Features["write"] > 0 }
	cases := []BashCase{}
	r := rand.New(rand.NewSource(c.Seed*17000023 + 9))
	add := func(bc BashCase, ok bool) {
		if ok {
			bc.NonTrivial = nontrivial
			cases = append(cases, bc)
		}
	}
	repContents := []string{"hello", "", "a  b", "$(touch CANARY_C)", "\"q\" 'r'", "-n", "*", "l1\nl2", "back\\slash\\", " x "}
	for _, pc := range c17PathClasses {
		for _, prt := range []bool{false, true} {
			for ci, ct := range repContents {
				for _, crt := range []bool{false, true} {
					for _, inFunc := range []bool{false, true} {
						if !c.Thorough() && r.Intn(3) != 0 {
							continue
						}
						key := fmt.Sprintf("store/path=%s/path-runtime=%v/content#%d/content-runtime=%v/func=%v", pc[0], prt, ci, crt, inFunc)
						add(c17Cell(key, pc[1], prt, ct, crt, inFunc, ci%2 == 0))
					}
				}
			}
		}
	}
	contents := map[string]string{}
	for k, v := range c08Payloads {
		contents["payload-"+k] = v
	}
	for ch := byte(0x20); ch < 0x7f; ch++ {
		contents[fmt.Sprintf("char-c%02x", ch)] = "a" + string(ch) + "c"
		contents[fmt.Sprintf("only-c%02x", ch)] = string(ch)
	}
	contents["char-tab"] = "a\tc"
	contents["char-newline"] = "a\nc"
	contents["trailing-newline"] = "line\n"
	contents["two-trailing-newlines"] = "line\n\n"
	contents["only-newline"] = "\n"
	for _, cn := range sortedKeys(func() map[string]string {
		m := map[string]string{}
		for k := range contents {
			m[k] = ""
		}
		return m
	}()) {
		for _, pth := range [][2]string{{"plain", "f.txt"}, {"blank", "a b.txt"}} {
			for _, crt := range []bool{false, true} {
				if !c.Thorough() && r.Intn(4) != 0 {
					continue
				}
				v := contents[cn]
				key := fmt.Sprintf("content/%s/%s/path=%s/content-runtime=%v", contentClass(v), cn, pth[0], crt)
				if strings.HasSuffix(v, "\n") && crt {
					continue
				}
				add(c17Cell(key, pth[1], false, v, crt, r.Intn(2) == 0, r.Intn(2) == 0))
			}
		}
	}
	// nested operations: the path, data or flag expression of a file operation calls a function that performs
	// file operations itself (a write in progress must not be disturbed by a write made while its operands
	// are evaluated)
	{
		logged := fn("logged", []Param{{"s", TString}}, []Type{TString}, Write{Path: sl("log file.txt"), Data: vr("s"), Append: bl(true)}, ret(bin("+", vr("s"), sl("!"))))
		pathOf := fn("pathOf", []Param{{"k", TInt}}, []Type{TString}, Write{Path: sl("marker.txt"), Data: Itoa{vr("k")}}, ret(bin("+", bin("+", sl("out "), Itoa{vr("k")}), sl(".txt"))))
		flagFn := fn("flagOn", nil, []Type{TBool}, Write{Path: sl("flag.txt"), Data: sl("asked"), Append: bl(true)}, ret(bl(true)))
		peek := fn("peek", []Param{{"p", TString}}, []Type{TString}, ret(Read{vr("p")}))
		prelude := []Stmt{logged, pathOf, flagFn, peek}
		nested := map[string][]Stmt{
			"data-writes":           {Write{Path: sl("out.txt"), Data: call("logged", sl("a"))}, pr(framed(Read{sl("out.txt")}), framed(Read{sl("log file.txt")}))},
			"data-writes-blank-path": {Write{Path: sl("my out.txt"), Data: call("logged", sl("a"))}, Write{Path: sl("my out.txt"), Data: call("logged", sl("b")), Append: bl(true)}, pr(framed(Read{sl("my out.txt")}), framed(Read{sl("log file.txt")}))},
			"data-writes-twice":     {Write{Path: sl("out.txt"), Data: call("logged", call("logged", sl("c")))}, pr(framed(Read{sl("out.txt")}), framed(Read{sl("log file.txt")}))},
			"path-writes":           {Write{Path: call("pathOf", il(1)), Data: sl("x")}, pr(framed(Read{sl("out 1.txt")}), framed(Read{sl("marker.txt")}))},
			"path-and-data-write":   {Write{Path: call("pathOf", il(2)), Data: call("logged", sl("d"))}, pr(framed(Read{sl("out 2.txt")}), framed(Read{sl("marker.txt")}), framed(Read{sl("log file.txt")}))},
			"all-three-write":       {Write{Path: sl("keep.txt"), Data: sl("first")}, Write{Path: sl("keep.txt"), Data: call("logged", sl("e")), Append: call("flagOn")}, pr(framed(Read{sl("keep.txt")}), framed(Read{sl("flag.txt")}), framed(Read{sl("log file.txt")}))},
			// the data of a write is the content of the file it writes to (directly, not through a function)
			"write-own-content-back":        {Write{Path: sl("own.txt"), Data: sl("keep me")}, Write{Path: sl("own.txt"), Data: Read{sl("own.txt")}}, pr(framed(Read{sl("own.txt")}))},
			"append-own-content":            {Write{Path: sl("own.txt"), Data: sl("twice")}, Write{Path: sl("own.txt"), Data: Read{sl("own.txt")}, Append: bl(true)}, pr(framed(Read{sl("own.txt")}))},
			"copy-between-files":            {Write{Path: sl("src.txt"), Data: sl("payload\n\n")}, Write{Path: sl("dst.txt"), Data: Read{sl("src.txt")}}, Write{Path: sl("dst.txt"), Data: Read{sl("src.txt")}, Append: bl(true)}, pr(framed(Read{sl("dst.txt")}), framed(Read{sl("src.txt")}))},
			"write-own-content-in-function": {fn("again", []Param{{"p", TString}}, nil, Write{Path: vr("p"), Data: Read{vr("p")}}, Write{Path: vr("p"), Data: Read{vr("p")}, Append: bl(true)}), Write{Path: sl("f n.txt"), Data: sl("v")}, callS("again", sl("f n.txt")), pr(framed(Read{sl("f n.txt")}))},
			"data-reads-target":     {Write{Path: sl("out.txt"), Data: sl("v1")}, Write{Path: sl("out.txt"), Data: bin("+", call("peek", sl("out.txt")), sl("+"))}, pr(framed(Read{sl("out.txt")}))},
			"read-path-writes":      {Write{Path: sl("out 3.txt"), Data: sl("three")}, pr(framed(Read{call("pathOf", il(3))})), pr(framed(Read{sl("marker.txt")}))},
			"exists-path-writes":    {pr(Exists{call("pathOf", il(4))}), Write{Path: sl("out 4.txt"), Data: sl("four")}, pr(Exists{call("pathOf", il(4))}), pr(framed(Read{sl("marker.txt")}))},
			// an operation on a path stands in the same statement as a call that creates / changes that path later
			// in the statement: each operand shows the state at its own place
			"exists-before-create-in-statement": {fn("create", []Param{{"p", TString}}, []Type{TBool}, Write{Path: vr("p"), Data: sl("made")}, ret(bl(true))), fn("show3", []Param{{"a", TBool}, {"b", TBool}, {"c", TBool}}, nil, pr(vr("a"), vr("b"), vr("c"))), callS("show3", Exists{sl("late.txt")}, call("create", sl("late.txt")), Exists{sl("late.txt")}), pr(Exists{sl("late 2.txt")}, call("create", sl("late 2.txt")), Exists{sl("late 2.txt")}), def("both", logic("&&", Exists{sl("late 3.txt")}, call("create", sl("late 3.txt")))), pr(vr("both"), Exists{sl("late 3.txt")})},
			"read-before-change-in-statement":  {fn("change", []Param{{"p", TString}}, []Type{TString}, Write{Path: vr("p"), Data: sl("new")}, ret(sl("changed"))), Write{Path: sl("doc.txt"), Data: sl("old")}, pr(framed(Read{sl("doc.txt")}), call("change", sl("doc.txt")), framed(Read{sl("doc.txt")})), def("joined", bin("+", bin("+", Read{sl("doc.txt")}, call("change", sl("doc.txt"))), Read{sl("doc.txt")})), pr(vr("joined"))},
			"sequence-of-nested":    {Write{Path: sl("one.txt"), Data: call("logged", sl("p"))}, Write{Path: sl("two.txt"), Data: call("logged", sl("q"))}, Write{Path: sl("one.txt"), Data: call("logged", sl("r")), Append: bl(true)}, pr(framed(Read{sl("one.txt")}), framed(Read{sl("two.txt")}), framed(Read{sl("log file.txt")}))},
		}
		// one textual site executed several times: every execution reports the state at its own time
		get := fn("get", []Param{{"p", TString}}, []Type{TString}, ret(Read{vr("p")}))
		show := fn("show", []Param{{"p", TString}}, nil, def("s", Read{vr("p")}), pr(framed(vr("s"))))
		for f := 0; f < nLoopForms; f += 2 {
			nested[fmt.Sprintf("site-repeated/read-in-loop/form%d", f)] = append(loopForm(f, "i", 3, []Stmt{Write{Path: sl("loop.txt"), Data: bin("+", sl("n"), Itoa{vr("i")})}, pr(sl("L"), framed(Read{sl("loop.txt")}))}), pr(framed(Read{sl("loop.txt")})))
			nested[fmt.Sprintf("site-repeated/read-different-paths-in-loop/form%d", f)] = append(append([]Stmt{Write{Path: sl("f0.txt"), Data: sl("zero\nzero")}, Write{Path: sl("f1.txt"), Data: sl("long content one")}, Write{Path: sl("f2.txt"), Data: sl("two")}, Write{Path: sl("f3.txt"), Data: sl("")}}, loopForm(f, "i", 3, []Stmt{def("c", Read{bin("+", bin("+", sl("f"), Itoa{vr("i")}), sl(".txt"))}), pr(framed(vr("c")))})...))
			nested[fmt.Sprintf("site-repeated/append-in-loop/form%d", f)] = append(loopForm(f, "i", 3, []Stmt{Write{Path: sl("acc.txt"), Data: bin("+", sl("row "), Itoa{vr("i")}), Append: bl(true)}}), pr(framed(Read{sl("acc.txt")})))
			nested[fmt.Sprintf("site-repeated/exists-in-loop/form%d", f)] = loopForm(f, "i", 3, []Stmt{pr(Exists{sl("e.txt")}), ifs(cmp("==", vr("i"), il(2)), Write{Path: sl("e.txt"), Data: sl("x")})})
			nested[fmt.Sprintf("site-repeated/read-accumulated/form%d", f)] = append(append([]Stmt{def("total", sl(""))}, loopForm(f, "i", 3, []Stmt{Write{Path: sl("t.txt"), Data: Itoa{vr("i")}}, set("total", bin("+", bin("+", vr("total"), Read{sl("t.txt")}), sl(",")))})...), pr(vr("total")))
		}
		nested["site-repeated/read-in-function-called-thrice"] = []Stmt{get, Write{Path: sl("a.txt"), Data: sl("content of a")}, Write{Path: sl("b.txt"), Data: sl("b")}, pr(framed(call("get", sl("a.txt")))), pr(framed(call("get", sl("b.txt")))), Write{Path: sl("a.txt"), Data: sl("")}, pr(framed(call("get", sl("a.txt")))), pr(framed(call("get", sl("b.txt"))), framed(call("get", sl("a.txt"))))}
		nested["site-repeated/read-to-variable-in-function"] = []Stmt{show, Write{Path: sl("s.txt"), Data: sl("a long first content")}, callS("show", sl("s.txt")), Write{Path: sl("s.txt"), Data: sl("short")}, callS("show", sl("s.txt")), Write{Path: sl("s.txt"), Data: sl("")}, callS("show", sl("s.txt")), Write{Path: sl("s.txt"), Data: sl("x\ny")}, callS("show", sl("s.txt"))}
		nested["site-repeated/write-in-function-called-thrice"] = []Stmt{fn("put", []Param{{"p", TString}, {"s", TString}}, nil, Write{Path: vr("p"), Data: vr("s")}, pr(sl("put"), framed(Read{vr("p")}))), callS("put", sl("w1.txt"), sl("one")), callS("put", sl("w 2.txt"), sl("two")), callS("put", sl("w1.txt"), sl("")), pr(framed(Read{sl("w1.txt")}), framed(Read{sl("w 2.txt")}))}
		// blocks that hold nothing but file operations
		put := fn("put", []Param{{"p", TString}, {"s", TString}}, nil, Write{Path: vr("p"), Data: vr("s")})
		app := fn("app", []Param{{"p", TString}, {"s", TString}}, nil, Write{Path: vr("p"), Data: vr("s"), Append: bl(true)})
		nested["only-writes/function-bodies"] = []Stmt{put, app, callS("put", sl("notes a.txt"), sl("header")), pr(Exists{sl("notes a.txt")}, framed(Read{sl("notes a.txt")})), callS("app", sl("notes a.txt"), sl("line 1")), pr(framed(Read{sl("notes a.txt")})), callS("put", sl("notes-b.txt"), sl("it's 100% *")), callS("app", sl("notes-b.txt"), sl("row")), pr(framed(Read{sl("notes-b.txt")}))}
		nested["only-writes/function-two-writes"] = []Stmt{fn("both", nil, nil, Write{Path: sl("b1.txt"), Data: sl("one")}, Write{Path: sl("b2.txt"), Data: sl("two"), Append: bl(true)}), callS("both"), callS("both"), pr(framed(Read{sl("b1.txt")}), framed(Read{sl("b2.txt")}))}
		nested["only-writes/if-body"] = []Stmt{ifs(Not{Exists{sl("h.txt")}}, Write{Path: sl("h.txt"), Data: sl("header")}), ifs(Not{Exists{sl("h.txt")}}, Write{Path: sl("h.txt"), Data: sl("again")}), pr(framed(Read{sl("h.txt")}))}
		nested["only-writes/else-body"] = []Stmt{If{Branches: []IfBranch{{Exists{sl("g.txt")}, []Stmt{Write{Path: sl("g.txt"), Data: sl("more"), Append: bl(true)}}}}, Else: []Stmt{Write{Path: sl("g.txt"), Data: sl("first")}}, HasElse: true}, If{Branches: []IfBranch{{Exists{sl("g.txt")}, []Stmt{Write{Path: sl("g.txt"), Data: sl("more"), Append: bl(true)}}}}, Else: []Stmt{Write{Path: sl("g.txt"), Data: sl("first")}}, HasElse: true}, pr(framed(Read{sl("g.txt")}))}
		nested["only-writes/elseif-body"] = []Stmt{def("k", il(2)), If{Branches: []IfBranch{{cmp("==", vr("k"), il(1)), []Stmt{Write{Path: sl("k.txt"), Data: sl("one")}}}, {cmp("==", vr("k"), il(2)), []Stmt{Write{Path: sl("k.txt"), Data: sl("two")}}}}, Else: []Stmt{Write{Path: sl("k.txt"), Data: sl("other")}}, HasElse: true}, pr(Exists{sl("k.txt")}), pr(framed(Read{sl("k.txt")}))}
		nested["only-writes/switch-case-body"] = []Stmt{def("k", il(2)), Switch{Tag: vr("k"), Cases: []SwitchCase{{E: il(1), Body: []Stmt{Write{Path: sl("sw.txt"), Data: sl("one")}}}, {E: il(2), Body: []Stmt{Write{Path: sl("sw.txt"), Data: sl("two")}}}, {Default: true, Body: []Stmt{Write{Path: sl("sw.txt"), Data: sl("other")}}}}}, pr(Exists{sl("sw.txt")}), pr(framed(Read{sl("sw.txt")})), Switch{Tag: il(9), Cases: []SwitchCase{{E: il(1), Body: []Stmt{Write{Path: sl("sw.txt"), Data: sl("one")}}}, {Default: true, Body: []Stmt{Write{Path: sl("sw.txt"), Data: sl("dflt"), Append: bl(true)}}}}}, pr(framed(Read{sl("sw.txt")}))}
		nested["only-writes/nested-blocks"] = []Stmt{ifs(bl(true), ifs(bl(true), Write{Path: sl("deep.txt"), Data: sl("deep")})), pr(Exists{sl("deep.txt")}), pr(framed(Read{sl("deep.txt")}))}
		for f := 0; f < nLoopForms; f++ {
			if f == 1 || f == 2 || f == 4 || f == 5 {
				continue // these forms put the counter update into the body
			}
			nested[fmt.Sprintf("only-writes/loop-body/form%d", f)] = append(loopForm(f, "i", 3, []Stmt{Write{Path: sl("rows.txt"), Data: sl("row"), Append: bl(true)}}), pr(Exists{sl("rows.txt")}), pr(framed(Read{sl("rows.txt")})))
		}
		nested["only-writes/range-body"] = []Stmt{def("names", SliceLit{Elem: TString, Elems: []Expr{sl("r1.txt"), sl("r 2.txt")}}), For{Kind: ForRange, RangeIdx: "ix", RangeVal: "nm", Over: vr("names"), Body: []Stmt{Write{Path: vr("nm"), Data: sl("ranged")}}}, pr(Exists{sl("r1.txt")}, Exists{sl("r 2.txt")}), pr(framed(Read{sl("r 2.txt")}))}
		// order of effects inside one write statement: path, then data, then flag
		ensure := fn("ensure", []Param{{"p", TString}}, []Type{TString}, ifs(Not{Exists{vr("p")}}, Write{Path: vr("p"), Data: sl("empty")}, pr(sl("created"), vr("p"))), ret(vr("p")))
		yn := fn("yn", []Param{{"b", TBool}}, []Type{TString}, ifs(vr("b"), ret(sl("yes"))), ret(sl("no")))
		nextId := fn("nextId", nil, []Type{TString}, def("n", il(0)), ifs(Exists{sl("counter")}, set("n", Len{Read{sl("counter")}})), Write{Path: sl("counter"), Data: sl("x"), Append: bl(true)}, ret(Itoa{vr("n")}))
		nested["argument-order/path-effect-seen-by-data-read"] = []Stmt{ensure, Write{Path: call("ensure", sl("log x.txt")), Data: bin("+", Read{sl("log x.txt")}, sl("!")), Append: bl(true)}, pr(framed(Read{sl("log x.txt")}))}
		nested["argument-order/path-effect-seen-by-data-exists"] = []Stmt{ensure, yn, Write{Path: call("ensure", sl("q.txt")), Data: call("yn", Exists{sl("q.txt")}), Append: bl(true)}, pr(framed(Read{sl("q.txt")}))}
		nested["argument-order/data-effect-not-seen-by-path"] = []Stmt{ensure, yn, Write{Path: bin("+", call("yn", Exists{sl("z.txt")}), sl(".txt")), Data: call("ensure", sl("z.txt"))}, pr(Exists{sl("no.txt")}, Exists{sl("yes.txt")}), pr(framed(Read{sl("no.txt")}))}
		nested["argument-order/flag-effect-last"] = []Stmt{ensure, yn, Write{Path: sl("r.txt"), Data: bin("+", sl("seen "), call("yn", Exists{sl("r.txt")})), Append: Exists{call("ensure", sl("r.txt"))}}, pr(framed(Read{sl("r.txt")}))}
		nested["argument-order/counter-in-path-and-data"] = []Stmt{nextId, Write{Path: bin("+", sl("item "), call("nextId")), Data: bin("+", sl("payload "), call("nextId"))}, pr(Exists{sl("item 0")}, Exists{sl("item 1")}), pr(framed(Read{sl("item 0")}))}
		nested["argument-order/read-path-then-index"] = []Stmt{ensure, def("c", Read{call("ensure", sl("m.txt"))}), pr(framed(vr("c"))), pr(Exists{call("ensure", sl("m2.txt"))}, Exists{sl("m2.txt")})}
		for _, k := range sortedStmtKeys(nested) {
			// function definitions of a case stay at top level, the rest of its statements move into run()
			funcs, rest := []Stmt{}, []Stmt{}
			for _, st := range nested[k] {
				if _, isFn := st.(FuncDecl); isFn {
					funcs = append(funcs, st)
				} else {
					rest = append(rest, st)
				}
			}
			top := append(append([]Stmt{}, prelude...), nested[k]...)
			add(BashCase{Key: "nested/" + k + "/top", Prog: SingleFile(append(top, pr(sl("done")))), CheckFS: true}, true)
			inFn := append(append(append([]Stmt{}, prelude...), funcs...), fn("run", nil, nil, rest...), callS("run"), pr(sl("done")))
			add(BashCase{Key: "nested/" + k + "/func", Prog: SingleFile(inFn), CheckFS: true}, true)
		}
	}
	// files that exist before the program starts: empty ones (lock and flag files), ones without a final line
	// break, directories; and names / contents spelled with byte escapes next to the same bytes typed directly
	{
		pre := map[string]string{"empty.lock": "", "flag file": "", "one-line": "x\n", "unterminated": "tail", "only-newline": "\n", "sub/inner.lock": ""}
		stmts := []Stmt{}
		for _, n := range []string{"empty.lock", "flag file", "one-line", "unterminated", "only-newline", "sub/inner.lock", "sub", "missing", "empty.loc", "empty.lock2"} {
			stmts = append(stmts, pr(sl(n), Exists{sl(n)}))
		}
		stmts = append(stmts, pr(framed(Read{sl("empty.lock")}), framed(Read{sl("unterminated")}), framed(Read{sl("only-newline")})),
			fn("locked", []Param{{"p", TString}}, []Type{TBool}, ret(Exists{vr("p")})), pr(call("locked", sl("flag file")), call("locked", sl("sub/inner.lock")), call("locked", sl("nope"))),
			ifs(Exists{sl("empty.lock")}, pr(sl("held"))), Write{Path: sl("empty.lock"), Data: sl("pid 1"), Append: bl(true)}, pr(framed(Read{sl("empty.lock")})), Write{Path: sl("flag file"), Data: sl("")}, pr(Exists{sl("flag file")}, framed(Read{sl("flag file")})))
		cases = append(cases, BashCase{Key: "pre-existing/empty-and-unterminated-files", Prog: SingleFile(stmts), PreFiles: pre, PreDirs: []string{"sub"}, CheckFS: true, NonTrivial: nontrivial})
		for mode := 1; mode <= 3; mode++ {
			name := "caf\u00e9 \u2713.txt"
			body := "gr\u00fc\u00dfe \u2713 \u00ff"
			if mode == 3 {
				name, body = "plain name.txt", "plain text"
			}
			esc := func(v string) Expr { return StrLit{V: v, Esc: mode} }
			st := []Stmt{pr(Exists{esc(name)}), Write{Path: esc(name), Data: esc(body)}, pr(Exists{sl(name)}, Exists{esc(name)}), pr(framed(Read{sl(name)})), pr(cmp("==", Read{esc(name)}, sl(body)), cmp("==", esc(body), sl(body)), Len{esc(body)}),
				Write{Path: sl(name), Data: esc(body), Append: bl(true)}, pr(framed(Read{esc(name)})), def("p", esc(name)), pr(cmp("==", vr("p"), sl(name)), Exists{vr("p")})}
			cases = append(cases, BashCase{Key: fmt.Sprintf("byte-escapes/mode=%d/fresh", mode), Prog: SingleFile(st), CheckFS: true, NonTrivial: nontrivial})
			// the file exists under the directly typed name before the program starts
			cases = append(cases, BashCase{Key: fmt.Sprintf("byte-escapes/mode=%d/pre-existing", mode), Prog: SingleFile(st), PreFiles: map[string]string{name: "old\n"}, CheckFS: true, NonTrivial: nontrivial})
		}
	}
	// histories
	paths := []string{"one.txt", "two words.txt", "d/three.txt"}
	type op struct {
		kind string
		path int
	}
	kinds := []string{"write", "append-true", "append-false", "read", "exists"}
	render := func(h []op) []Stmt {
		stmts := []Stmt{def("n", il(0))}
		for i, o := range h {
			p := sl(paths[o.path])
			data := bin("+", sl(fmt.Sprintf("v%d ", i)), Itoa{vr("n")})
			switch o.kind {
			case "write":
				stmts = append(stmts, Write{Path: p, Data: data})
			case "append-true":
				stmts = append(stmts, Write{Path: p, Data: data, Append: bl(true)})
			case "append-false":
				stmts = append(stmts, Write{Path: p, Data: data, Append: bl(false)})
			case "read":
				stmts = append(stmts, pr(sl("read"), framed(Read{p})))
			case "exists":
				stmts = append(stmts, pr(sl("exists"), Exists{p}))
			}
			stmts = append(stmts, IncDec{"n", true})
		}
		for _, p := range paths {
			stmts = append(stmts, pr(Exists{sl(p)}))
		}
		return stmts
	}
	var all [][]op
	var rec func(cur []op, depth int)
	maxLen := c.Pick(2, 3)
	rec = func(cur []op, depth int) {
		if len(cur) > 0 {
			all = append(all, append([]op{}, cur...))
		}
		if depth == maxLen {
			return
		}
		for _, k := range kinds {
			for p := range paths {
				rec(append(cur, op{k, p}), depth+1)
			}
		}
	}
	rec(nil, 0)
	for k := 0; k < c.Pick(300, 6000); k++ {
		n := 3 + r.Intn(10)
		h := make([]op, n)
		for i := range h {
			h[i] = op{kinds[r.Intn(len(kinds))], r.Intn(len(paths))}
			if i == 0 {
				h[i].kind = kinds[r.Intn(3)] // start with a write so that fewer histories are discarded
			}
		}
		all = append(all, h)
	}
	for i, h := range all {
		desc := []string{}
		for _, o := range h {
			desc = append(desc, fmt.Sprintf("%s:%d", o.kind, o.path))
		}
		key := fmt.Sprintf("history/%d/%s", i, strings.Join(desc, ","))
		if len(key) > 150 {
			key = key[:150]
		}
		stmts := render(h)
		if i%3 == 1 {
			// the same history inside a function
			stmts = []Stmt{fn("run", nil, nil, stmts...), callS("run")}
		}
		cases = append(cases, BashCase{Key: key, Prog: SingleFile(stmts), PreDirs: []string{"d"}, CheckFS: true, NonTrivial: nontrivial})
	}
	// composite programs: random histories over three random path spellings and four random contents, every
	// operation placed at random directly, in a branch, in a loop body (one site, several executions) or
	// behind a function
	nComp := c.Pick(150, 4000)
	for k := 0; k < nComp; k++ {
		cases = append(cases, c17Composite(rand.New(rand.NewSource(c.Seed*17000029+int64(k))), k, nontrivial))
	}
	c.Extra["composite_programs"] = nComp
	c.Extra["cases"] = len(cases)
	runBashCases(c, cases)
}

func c17Composite(r *rand.Rand, k int, nontrivial func(Result) bool) BashCase {
	x := &c17Ctx{pre: map[string]string{}}
	dirs := []string{}
	pool := []int{}
	for i, pc := range c17PathClasses {
		if pc[0] != "dot-slash" {
			pool = append(pool, i)
		}
	}
	r.Shuffle(len(pool), func(i, j int) { pool[i], pool[j] = pool[j], pool[i] })
	desc := []string{}
	for i := 0; i < 3; i++ {
		pc := c17PathClasses[pool[i]]
		rt := !literalSafe(pc[1]) || r.Intn(2) == 0
		x.stmts = append(x.stmts, def(fmt.Sprintf("p%d", i), x.value(pc[1], rt)))
		if j := strings.LastIndex(pc[1], "/"); j > 0 {
			dirs = append(dirs, pc[1][:j])
		}
		desc = append(desc, pc[0])
	}
	alphabet := " !\"#$%&'()*+,-./:;<=>?@[\\]^_`{|}~abxXn019\t"
	for i := 0; i < 4; i++ {
		var v string
		switch r.Intn(4) {
		case 0:
			v = []string{"hello", "", "a  b", "$(touch CANARY_C)", "\"q\" 'r'", "-n", "*", "l1\nl2", "back\\slash\\", " x ", "x", "-e a", "%s", "a\n\nb"}[r.Intn(14)]
		default:
			n := r.Intn(6)
			b := make([]byte, n)
			for j := range b {
				b[j] = alphabet[r.Intn(len(alphabet))]
			}
			v = string(b)
		}
		rt := !literalSafe(v) || r.Intn(2) == 0
		x.stmts = append(x.stmts, def(fmt.Sprintf("c%d", i), x.value(v, rt)))
	}
	stmts := append([]Stmt{}, x.stmts...)
	stmts = append(stmts,
		fn("put", []Param{{"p", TString}, {"s", TString}}, nil, Write{Path: vr("p"), Data: vr("s")}),
		fn("app", []Param{{"p", TString}, {"s", TString}}, nil, Write{Path: vr("p"), Data: vr("s"), Append: bl(true)}),
		fn("get", []Param{{"p", TString}}, []Type{TString}, ifs(Exists{vr("p")}, ret(Read{vr("p")})), ret(sl("<missing>"))),
		fn("has", []Param{{"p", TString}}, []Type{TBool}, ret(Exists{vr("p")})),
		def("yes", bl(true)),
	)
	guardedRead := func(p Expr) Stmt {
		return If{Branches: []IfBranch{{Exists{p}, []Stmt{pr(sl("r"), framed(Read{p}))}}}, Else: []Stmt{pr(sl("r missing"))}, HasElse: true}
	}
	n := 4 + r.Intn(9)
	for i := 0; i < n; i++ {
		p := vr(fmt.Sprintf("p%d", r.Intn(3)))
		cv := vr(fmt.Sprintf("c%d", r.Intn(4)))
		var op []Stmt
		viaFn := r.Intn(3) == 0
		switch r.Intn(5) {
		case 0:
			if viaFn {
				op = []Stmt{callS("put", p, cv)}
			} else {
				op = []Stmt{Write{Path: p, Data: cv}}
			}
		case 1:
			if viaFn {
				op = []Stmt{callS("app", p, cv)}
			} else {
				op = []Stmt{Write{Path: p, Data: cv, Append: vr("yes")}}
			}
		case 2:
			op = []Stmt{Write{Path: p, Data: bin("+", cv, Itoa{il(int64(i))}), Append: cmp("==", il(int64(i%2)), il(0))}}
		case 3:
			if viaFn {
				op = []Stmt{pr(sl("g"), framed(call("get", p)))}
			} else {
				op = []Stmt{guardedRead(p)}
			}
		case 4:
			if viaFn {
				op = []Stmt{pr(sl("h"), call("has", p))}
			} else {
				op = []Stmt{pr(sl("e"), Exists{p})}
			}
		}
		switch r.Intn(5) {
		case 0:
			op = []Stmt{ifs(vr("yes"), op...)}
		case 1:
			op = loopForm([]int{0, 3}[r.Intn(2)], fmt.Sprintf("k%d", i), int64(2+r.Intn(2)), op)
		case 2:
			op = []Stmt{If{Branches: []IfBranch{{Not{vr("yes")}, []Stmt{pr(sl("never"))}}}, Else: op, HasElse: true}}
		}
		stmts = append(stmts, op...)
	}
	for i := 0; i < 3; i++ {
		stmts = append(stmts, pr(sl("final"), framed(call("get", vr(fmt.Sprintf("p%d", i))))))
	}
	return BashCase{Key: fmt.Sprintf("composite/%d/%s", k, strings.Join(desc, "+")), Prog: SingleFile(stmts), PreFiles: x.pre, PreDirs: dirs, CheckFS: true, NonTrivial: nontrivial}
}
