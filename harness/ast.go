package main

// RefLang: the harness' own AST for TypeShell programs. It never uses the
// repository's lexer or parser; programs are built by generators and rendered
// to source text (render.go) and evaluated by the reference interpreter
// (interp.go).

type Type int

const (
	TVoid Type = iota
	TInt
	TBool
	TString
	TSliceInt
	TSliceBool
	TSliceString
)

func (t Type) IsSlice() bool { return t >= TSliceInt }

func (t Type) Elem() Type {
	switch t {
	case TSliceInt:
		return TInt
	case TSliceBool:
		return TBool
	case TSliceString:
		return TString
	}
	return TVoid
}

func SliceOf(t Type) Type {
	switch t {
	case TInt:
		return TSliceInt
	case TBool:
		return TSliceBool
	case TString:
		return TSliceString
	}
	return TVoid
}

func (t Type) String() string {
	switch t {
	case TInt:
		return "int"
	case TBool:
		return "bool"
	case TString:
		return "string"
	case TSliceInt:
		return "[]int"
	case TSliceBool:
		return "[]bool"
	case TSliceString:
		return "[]string"
	}
	return "void"
}

// ---- expressions ----

type Expr interface{}

type IntLit struct{ V int64 }
type BoolLit struct{ V bool }
type StrLit struct {
	V   string
	Raw bool // render with backquotes
	Esc int  // interpreted literal only: 1 = bytes >= 0x80 as \xNN, 2 = as \NNN (octal), 3 = every byte as \xNN
}
type NilLit struct{}
type VarRef struct{ Name string }
type Bin struct { // + - * / % (int) and + (string)
	Op   string
	L, R Expr
}
type Cmp struct { // == != < <= > >=
	Op   string
	L, R Expr
}
type Logic struct { // && ||
	Op   string
	L, R Expr
}
type Not struct{ E Expr }
type Group struct{ E Expr }

// PaddedInt is an integer literal written with leading zeros (decimal all the same).
type PaddedInt struct {
	V    int64
	Text string
}
type Call struct {
	Alias string // import alias, "" for local
	Fn    string
	Args  []Expr
}
type Len struct{ E Expr }
type Itoa struct{ E Expr }
type Index struct { // s[i] on slice variable or string variable
	Name string
	I    Expr
}
type Substr struct { // s[lo:hi], nil bounds allowed
	Name   string
	Lo, Hi Expr
}
type SliceLit struct {
	Elem  Type
	Elems []Expr
}
type Copy struct {
	Dst string
	Src Expr
}
type Exists struct{ Path Expr }
type Read struct{ Path Expr }
type Input struct{ Prompt Expr } // Prompt may be nil
type AppCall struct {            // @prog(args) | @prog2(args)
	Stages []AppStage
}
type AppStage struct {
	Name    string
	NameLit bool // name given as string literal
	Args    []Expr
}

// ---- statements ----

type Stmt interface{}

type VarDecl struct {
	Names  []string
	Short  bool   // a := ...
	Type   Type   // TVoid when omitted (var a = 1 or short form)
	Values []Expr // empty => default value; one multi-call or len(Names) values
	ErrTy  bool   // render string type as "error"
}
type Assign struct {
	Names  []string
	Values []Expr
}
type OpAssign struct {
	Name string
	Op   string // + - * / %
	V    Expr
}
type IncDec struct {
	Name string
	Inc  bool
}
type SliceSet struct {
	Name string
	I, V Expr
}
type IfBranch struct {
	Cond Expr
	Body []Stmt
}
type If struct {
	Branches []IfBranch // first is "if", rest "else if"
	Else     []Stmt
	HasElse  bool
}
type SwitchCase struct {
	E       Expr // nil for default
	Default bool
	Body    []Stmt
}
type Switch struct {
	Tag   Expr // nil => tagless
	Cases []SwitchCase
}

type ForKind int

const (
	ForEver ForKind = iota
	ForCond
	ForThree
	ForRange
)

type For struct {
	Kind     ForKind
	Init     Stmt // may be nil
	Cond     Expr // may be nil
	Post     Stmt // may be nil
	RangeIdx string
	RangeVal string // "" when absent
	Over     Expr
	Body     []Stmt
}
type Break struct{}
type Continue struct{}
type Print struct{ Args []Expr }
type Panic struct{ E Expr }
type ExprStmt struct{ E Expr }
type Return struct{ Values []Expr }
type Write struct {
	Path, Data Expr
	Append     Expr // nil when absent
}
type Param struct {
	Name string
	T    Type
}
type FuncDecl struct {
	Name    string
	Params  []Param
	Results []Type
	Body    []Stmt
}

// Raw source line(s), passed through by the renderer; the interpreter rejects it.
type RawStmt struct{ Text string }

type Import struct {
	Alias string
	Path  string
}

type File struct {
	Name    string // file name relative to the program directory
	Imports []Import
	Stmts   []Stmt
}

type Program struct {
	Files  []*File // Files[0] is the main file
	Layout string  // "" = house style; "tight" = every blank the grammar does not need removed (see tightLayout)
}

func SingleFile(stmts []Stmt) *Program {
	return &Program{Files: []*File{{Name: "main.tsh", Stmts: stmts}}}
}
