//go:build norecorder

package main

import "github.com/monstermichl/typeshell/transpiler"

// Stand-in for recorder.go, used by ./check when the recording wrapper no longer compiles against the
// repository's transpiler.Converter interface (a method was added or a signature changed): the real converter
// is embedded, so every method of the interface as it is now is passed through; nothing is recorded, the
// checks that read the trace (C14 trace hashes, C16 bracket check of the call trace) see an empty one.
type recordingConverter struct {
	transpiler.Converter
	trace []string
}

func newRecorder(t Target) *recordingConverter {
	return &recordingConverter{Converter: newConverter(t)}
}
