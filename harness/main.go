package main

import (
	"fmt"
	"os"
	"runtime/debug"
	"syscall"
	"strconv"
)

var checks = map[string]func(*Check){}

func register(id string, fn func(*Check)) { checks[id] = fn }

func usage() {
	fmt.Fprintln(os.Stderr, "usage: tsverif <C01..C19> [quick|thorough] | tsverif gen <family> <seed> | tsverif selfcheck | tsverif cmdmodel <file.bat>")
	os.Exit(2)
}

func main() {
	if len(os.Args) < 2 {
		usage()
	}
	debug.SetGCPercent(1000) // the library allocates heavily (a regexp per token); keep 16 workers busy
	debug.SetMemoryLimit(20 << 30)
	// hard guard: the sandbox has no memory limit; a runaway allocation must not take the machine down
	if !raceEnabled { // the race detector reserves far more address space than it uses
		syscall.Setrlimit(syscall.RLIMIT_AS, &syscall.Rlimit{Cur: 40 << 30, Max: 40 << 30})
	}
	switch os.Args[1] {
	case "gen":
		seed := int64(1)
		fam := "c01"
		if len(os.Args) > 2 {
			fam = os.Args[2]
		}
		if len(os.Args) > 3 {
			seed, _ = strconv.ParseInt(os.Args[3], 10, 64)
		}
		debugGen(fam, seed)
		return
	}
	if fn, ok := extraCommands[os.Args[1]]; ok {
		fn(os.Args[2:])
		return
	}
	fn, ok := checks[os.Args[1]]
	if !ok {
		usage()
	}
	c := NewCheck(os.Args[1])
	fn(c)
	c.Finish()
}

var extraCommands = map[string]func(args []string){}

func debugGen(fam string, seed int64) {
	cfg, ok := genConfigs[fam]
	if !ok {
		fmt.Fprintln(os.Stderr, "unknown family")
		os.Exit(2)
	}
	g := NewGen(seed, cfg)
	p := g.Program()
	fmt.Print(RenderFile(p.Files[0]))
	r := Interpret(p, 64, interpBudget)
	fmt.Printf("---- reference: exit=%d undefined=%q steps=%d\n%s", r.Exit, r.Undefined, r.Steps, r.Stdout)
}

var genConfigs = map[string]GenCfg{
	"c01": {MaxTop: 6, MaxBlock: 3, MaxDepth: 3, ExprDepth: 3, Panic: true},
	"c02": {MaxTop: 8, MaxBlock: 3, MaxDepth: 2, ExprDepth: 2, MaxFuncs: 5, MultiAssign: true, SmallNames: true, Effects: true, Panic: true},
	"c16": {MaxTop: 6, MaxBlock: 3, MaxDepth: 4, ExprDepth: 2, MaxFuncs: 2, Slices: true, StringOps: true, MultiAssign: true, Panic: true, Builtins: true},
	"c03": {MaxTop: 12, MaxBlock: 3, MaxDepth: 2, ExprDepth: 2, MaxFuncs: 2, Slices: true, StringOps: true},
}
