package main

import (
	"fmt"
	"math/rand"
	"os"
	"strings"
)

func init() { register("C12", checkC12) }

type canonTok struct {
	k RKind
	v string
}

// canonTokens: significant tokens with newline runs collapsed and leading /
// trailing newlines removed (blank lines may be inserted at existing line
// breaks; the final newline is optional).
func canonTokens(text string) ([]canonTok, bool) {
	rt, err := RefLex(text)
	if err != nil {
		return nil, false
	}
	out := []canonTok{}
	for _, t := range Significant(rt) {
		if t.Kind == REOF {
			continue
		}
		if t.Kind == RNewline {
			if len(out) == 0 || out[len(out)-1].k == RNewline {
				continue
			}
		}
		out = append(out, canonTok{t.Kind, t.Value})
	}
	for len(out) > 0 && out[len(out)-1].k == RNewline {
		out = out[:len(out)-1]
	}
	return out, true
}

func sameCanon(a, b []canonTok) bool {
	if len(a) != len(b) {
		return false
	}
	for i := range a {
		if a[i] != b[i] {
			return false
		}
	}
	return true
}

type layoutVariant struct {
	op   string
	site int
	text string
}

func joinToks(toks []RTok, edit func(i int, t RTok) string) string {
	var b strings.Builder
	for i, t := range toks {
		if t.Kind == REOF {
			b.WriteString(edit(i, t))
			continue
		}
		b.WriteString(edit(i, t))
	}
	return b.String()
}

// wholeFileVariants: operators applied to the whole file at once.
func wholeFileVariants(src string, toks []RTok) []layoutVariant {
	out := []layoutVariant{}
	norm := strings.ReplaceAll(src, "\r\n", "\n")
	out = append(out, layoutVariant{"crlf", -1, strings.ReplaceAll(norm, "\n", "\r\n")})
	lineStart := func(i int) bool { return i == 0 || toks[i-1].Kind == RNewline }
	for name, ind := range map[string]string{"indent-none": "", "indent-blanks": "    ", "indent-tab": "\t", "indent-mixed": " \t "} {
		ind := ind
		text := joinToks(toks, func(i int, t RTok) string {
			if t.Kind == RSpace && (lineStart(i) || (i > 0 && toks[i-1].Kind == RSpace && spaceRunFromLineStart(toks, i))) {
				return ""
			}
			if lineStart(i) && t.Kind != RNewline && t.Kind != REOF && t.Kind != RSpace {
				return ind + t.Text
			}
			return t.Text
		})
		// first pass removed leading blanks but did not add the new indentation for lines that had some: redo on the result
		rt, err := RefLex(text)
		if err == nil {
			text = joinToks(rt, func(i int, t RTok) string {
				if (i == 0 || rt[i-1].Kind == RNewline) && t.Kind != RNewline && t.Kind != REOF {
					return ind + t.Text
				}
				return t.Text
			})
		}
		out = append(out, layoutVariant{name, -1, text})
	}
	out = append(out, layoutVariant{"trailing-blanks", -1, joinToks(toks, func(i int, t RTok) string {
		if t.Kind == RNewline {
			return " \t" + t.Text
		}
		return t.Text
	})})
	out = append(out, layoutVariant{"line-comment-every-line", -1, joinToks(toks, func(i int, t RTok) string {
		if t.Kind == RNewline && i > 0 && toks[i-1].Kind != RComment {
			return " // c" + t.Text
		}
		return t.Text
	})})
	out = append(out, layoutVariant{"blank-line-every-break", -1, joinToks(toks, func(i int, t RTok) string {
		if t.Kind == RNewline {
			return t.Text + "\n"
		}
		return t.Text
	})})
	out = append(out, layoutVariant{"empty-line-comment-every-break", -1, joinToks(toks, func(i int, t RTok) string {
		if t.Kind == RNewline && i > 0 && toks[i-1].Kind != RComment {
			return " //" + t.Text + "//\n"
		}
		return t.Text
	})})
	out = append(out, layoutVariant{"comment-line-every-break", -1, joinToks(toks, func(i int, t RTok) string {
		if t.Kind == RNewline {
			return t.Text + "\t// comment only\n"
		}
		return t.Text
	})})
	out = append(out, layoutVariant{"block-comment-every-gap", -1, joinToks(toks, func(i int, t RTok) string {
		if t.Kind != RSpace && t.Kind != REOF && t.Kind != RComment && i > 0 {
			return "/* g */" + t.Text
		}
		return t.Text
	})})
	for name, cm := range map[string]string{"doc-comment-every-gap": "/** d **/", "star-only-comment-every-gap": "/***/", "empty-comment-every-gap": "/**/", "slash-star-inside-comment-every-gap": "/*/ x /* y */",
		// comment texts outside ASCII (two- and three-byte characters): positions are bytes or characters, the end of the comment is where its terminator stands
		"non-ascii-comment-every-gap": "/* \u00e9t\u00e9 \u2713 */", "non-ascii-only-comment-every-gap": "/*\u00fc*/", "four-byte-comment-every-gap": "/* \U0001F600 ok */"} {
		cm := cm
		out = append(out, layoutVariant{name, -1, joinToks(toks, func(i int, t RTok) string {
			if t.Kind != RSpace && t.Kind != REOF && t.Kind != RComment && i > 0 {
				return cm + t.Text
			}
			return t.Text
		})})
	}
	// mixed line ends: LF and CRLF in one file
	{
		k := 0
		out = append(out, layoutVariant{"crlf-except-first-break", -1, joinToks(toks, func(i int, t RTok) string {
			if t.Kind == RNewline {
				k++
				if k > 1 {
					return "\r\n"
				}
			}
			return t.Text
		})})
		k2 := 0
		out = append(out, layoutVariant{"crlf-every-second-break", -1, joinToks(toks, func(i int, t RTok) string {
			if t.Kind == RNewline {
				k2++
				if k2%2 == 0 {
					return "\r\n"
				}
			}
			return t.Text
		})})
		k3 := 0
		out = append(out, layoutVariant{"crlf-only-first-break", -1, joinToks(toks, func(i int, t RTok) string {
			if t.Kind == RNewline {
				k3++
				if k3 == 1 {
					return "\r\n"
				}
			}
			return t.Text
		})})
	}
	out = append(out, layoutVariant{"non-ascii-line-comment-every-line", -1, joinToks(toks, func(i int, t RTok) string {
		if t.Kind == RNewline {
			return " // gr\u00fc\u00dfe \u2713" + t.Text
		}
		return t.Text
	})})
	out = append(out, layoutVariant{"multiline-block-comment-every-gap", -1, joinToks(toks, func(i int, t RTok) string {
		if t.Kind != RSpace && t.Kind != REOF && t.Kind != RComment && i > 0 {
			return "/* m\n   l */" + t.Text
		}
		return t.Text
	})})
	out = append(out, layoutVariant{"blank-every-gap", -1, joinToks(toks, func(i int, t RTok) string {
		if t.Kind != REOF && i > 0 && t.Kind != RNewline {
			return " " + t.Text
		}
		return t.Text
	})})
	if strings.HasSuffix(norm, "\n") {
		out = append(out, layoutVariant{"drop-final-newline", -1, strings.TrimRight(norm, "\n \t")})
	} else {
		out = append(out, layoutVariant{"add-final-newline", -1, norm + "\n"})
	}
	out = append(out, layoutVariant{"leading-blank-line", -1, "\n" + norm})
	out = append(out, layoutVariant{"leading-comment", -1, "// header comment\n\n/* block */\n" + norm})
	out = append(out, layoutVariant{"trailing-comment-at-eof", -1, strings.TrimRight(norm, "\n") + " // the end"})
	return out
}

func spaceRunFromLineStart(toks []RTok, i int) bool {
	for j := i - 1; j >= 0; j-- {
		if toks[j].Kind == RNewline {
			return true
		}
		if toks[j].Kind != RSpace {
			return false
		}
	}
	return true
}

// siteVariants: one edit at one site.
func siteVariants(toks []RTok) []layoutVariant {
	out := []layoutVariant{}
	at := func(op string, site int, ins string, before bool) {
		text := joinToks(toks, func(i int, t RTok) string {
			if i == site {
				if before {
					return ins + t.Text
				}
				return t.Text + ins
			}
			return t.Text
		})
		out = append(out, layoutVariant{op, site, text})
	}
	for i, t := range toks {
		switch t.Kind {
		case RNewline:
			at("blank-line-after", i, "\n", false)
			at("blank-lines-after", i, "\n  \n\t\n", false)
			at("comment-line-after", i, "// only a comment\n", false)
			at("block-comment-line-after", i, "\t/* only a comment */\n", false)
			at("line-comment-before-break", i, " // trailing", true)
			at("crlf-at-this-break", i, "\r", true)
			at("empty-line-comment-line-after", i, "//\n", false)
			at("empty-line-comment-before-break", i, " //", true)
			at("doc-comment-before-break", i, " /** d **/", true)
			at("block-comment-before-break", i, " /* trailing */", true)
			at("trailing-tab", i, "\t", true)
		case RSpace:
			// remove the blank if the token list survives
			text := joinToks(toks, func(j int, u RTok) string {
				if j == i {
					return ""
				}
				return u.Text
			})
			out = append(out, layoutVariant{"remove-blank", i, text})
		case REOF, RComment:
		default:
			if i > 0 && toks[i-1].Kind != RNewline {
				at("block-comment-before-token", i, "/* c */", true)
				at("multiline-block-comment-before-token", i, " /* two\nlines */ ", true)
				at("blank-before-token", i, " ", true)
				at("tab-before-token", i, "\t", true)
			}
		}
	}
	return out
}

func c12Corpus(c *Check) []CorpusProg {
	progs := []CorpusProg{}
	progs = append(progs, SuiteCorpus()...)
	progs = append(progs, RepoFiles()...)
	n := c.Pick(60, 600)
	for i := 0; i < n; i++ {
		fam := []string{"c01", "c02", "c03"}[i%3]
		cfg := genConfigs[fam]
		cfg.MaxTop = 4
		g := NewGen(c.Seed*12000017+int64(i), cfg)
		progs = append(progs, CorpusProg{Name: fmt.Sprintf("gen/%s/%d", fam, i), Src: RenderFile(g.Program().Files[0])})
	}
	// hand-written programs covering imports groups, switch forms and command calls
	progs = append(progs,
		CorpusProg{"hand/import-group", "import (\n\t\"strings\"\n\tos \"os\"\n)\n\nprint(strings.Contains(\"abc\", \"b\"))\n"},
		CorpusProg{"hand/import-single", "import \"strings\"\n\nprint(strings.Repeat(\"ab\", 2))\n"},
		CorpusProg{"hand/switch", "x := 2\nswitch x {\ncase 1:\n\tprint(\"one\")\ncase 2:\n\tprint(\"two\")\ndefault:\n\tprint(\"many\")\n}\nswitch {\ncase x > 1:\n\tprint(\"big\")\n}\n"},
		CorpusProg{"hand/commands", "a, b, c := @echo(\"hi\") | @cat()\nprint(a, c)\n@ls(\"-1\")\n"},
		CorpusProg{"hand/minus", "a := 5\nb := a - 1\nc := a * -1\nd := []int{a - 1, -2}\nprint(b, c, d[0], a-1)\n"},
		CorpusProg{"hand/functions", "func add(a int, b int) (int, string) {\n\treturn a + b, \"s\"\n}\n\nx, y := add(1, 2)\nprint(x, y)\nfor i := 0; i < 2; i++ {\n\tif i == 1 {\n\t\tcontinue\n\t} else if i == 5 {\n\t\tbreak\n\t} else {\n\t\tprint(i)\n\t}\n}\n"},
		CorpusProg{"hand/slices-strings", "s := []string{\"a\", \"b\"}\ns[2] = \"c\"\nfor i, v := range s {\n\tprint(i, v)\n}\nt := \"hello\"\nprint(t[1:3], t[:2], t[3:], t[0], len(t), len(s))\n"},
		// layouts the language does not accept: they must stay rejected however blank and comment lines are added
		CorpusProg{"hand/rejected-else-on-next-line", "x := 1\nif x == 1 {\n\tprint(1)\n}\nelse {\n\tprint(2)\n}\n"},
		CorpusProg{"hand/rejected-else-if-on-next-line", "x := 1\nif x == 1 {\n\tprint(1)\n}\nelse if x == 2 {\n\tprint(2)\n}\n"},
		CorpusProg{"hand/rejected-brace-on-next-line", "x := 1\nif x == 1\n{\n\tprint(1)\n}\n"},
		CorpusProg{"hand/rejected-func-brace-on-next-line", "func f()\n{\n\tprint(1)\n}\nf()\n"},
		CorpusProg{"hand/rejected-for-clauses-on-lines", "for i := 0;\ni < 2;\ni++ {\n\tprint(i)\n}\n"},
		CorpusProg{"hand/rejected-operator-at-line-start", "x := 1\n\t+ 2\nprint(x)\n"},
		CorpusProg{"hand/rejected-call-arguments-on-lines", "print(1,\n\t2)\n"},
		CorpusProg{"hand/rejected-two-statements-on-a-line", "x := 1 y := 2\nprint(x, y)\n"},
		CorpusProg{"hand/rejected-case-on-switch-line", "x := 1\nswitch x { case 1:\n\tprint(1)\n}\n"},
		CorpusProg{"hand/rejected-type", "x := 1\nif x {\n\tprint(1)\n}\n"},
		CorpusProg{"hand/rejected-scope", "if true {\n\ty := 1\n}\nprint(y)\n"},
		CorpusProg{"hand/rejected-syntax", "x := (1 + \nprint(x)\n"},
	)
	// every statement form as the LAST statement of the file (with a final newline here; the
	// drop-final-newline, trailing-comment-at-eof and CRLF operators produce the other endings)
	pre := "x := 1\ns := []string{\"a\"}\nfunc two() (int, string) {\n\treturn 1, \"t\"\n}\n"
	for i, last := range []string{
		"var y int", "var y string", "var y bool", "var y []string", "var y []int", "var y, z int", "var y int = 3", "var y, z = 1, \"b\"",
		"y := 2", "y, z := two()", "x = 2", "x++", "x--", "x += 2", "s[1] = \"b\"", "print(x)", "print()", "two()", "@true()", "y := @echo(\"a\")",
		"if x == 1 {\n\tprint(1)\n}", "if x == 1 {\n\tprint(1)\n} else {\n\tprint(2)\n}", "for x < 3 {\n\tx++\n}", "for i := 0; i < 2; i++ {\n}", "for {\n\tbreak\n}",
		"for i, v := range s {\n\tprint(i, v)\n}", "switch x {\ncase 1:\n\tprint(1)\n}", "switch {\ndefault:\n}", "func g() {\n}", "func g() int {\n\treturn 1\n}",
		"y := s[0]", "y := \"abc\"[1:2]", "y := len(s)", "y := -x", "y := !true", "y := (x)", "y := []int{}", "y := x == 1 && true", "y := `raw`", "panic(\"p\")", "y := itoa(x)", "y := exists(\"f\")",
		"write(\"f\", \"d\")", "y, e := read(\"f\")", "y := input()", "y := copy(s, s)",
		"var", "var y", "y :=", "x +", "if x == 1 {", "func", "print(", "s[", "for", "switch x {\ncase 1:", "two(", "y := []int{",
	} {
		progs = append(progs, CorpusProg{fmt.Sprintf("last/%d", i), pre + last + "\n"})
	}
	progs = append(progs,
		CorpusProg{"last/import-only", "import \"strings\"\n"},
		CorpusProg{"last/import-group-only", "import (\n\t\"strings\"\n)\n"},
		CorpusProg{"last/single-var", "var y int\n"},
		CorpusProg{"last/single-print", "print(1)\n"},
		CorpusProg{"last/empty", "\n"},
		CorpusProg{"last/comment-only", "// nothing\n"},
	)
	// lexemes that contain line breaks, blanks and comment markers themselves
	progs = append(progs,
		CorpusProg{"lexeme/interpreted-multiline", "help := \"usage:\n  tool [opts]\n\tmore\n\"\nprint(help)\nprint(len(help))\n"},
		CorpusProg{"lexeme/raw-multiline", "help := `usage:\n  tool [opts]\n\n\tmore  \n`\nprint(help)\nprint(len(help))\n"},
		CorpusProg{"lexeme/comment-markers-in-strings", "a := \"// not a comment\"\nb := \"/* neither */\"\nc := `// raw`\nd := \"x /* \" + \" */ y\"\nprint(a, b, c, d)\n"},
		CorpusProg{"lexeme/multiline-block-comment", "x := 1 /* spans\nlines\n\tand more */ + 2\nprint(x)\n/*\n * header\n */\nprint(x)\n"},
		CorpusProg{"lexeme/blanks-in-strings", "a := \"  lead\"\nb := \"trail  \"\nc := \" \\t \"\nd := \"tab\there\"\nprint(a + b + c + d)\n"},
		CorpusProg{"lexeme/multiline-in-call", "print(\"a\nb\", `c\nd`, \"e\")\nx := []string{\"p\nq\", `r\ns`}\nprint(len(x[0]), len(x[1]))\n"},
		CorpusProg{"lexeme/multiline-in-function", "func f(a string) string {\n\treturn a + \"\n\tindented\n\"\n}\nprint(f(\"s\n\"))\n"},
	)
	// one statement broken over two lines at each gap between its tokens (after an opening bracket, after a comma,
	// after an operator, before a closing bracket ...). Most of these layouts are not part of the language; whether
	// one is or not, blank lines, comment lines, CRLF and indentation at that line break must not change the answer.
	stmts := []string{
		"y := []int{1, 2, 3}", "t := []string{\"a\", \"b\"}", "print(1, \"a\", x)", "y := (x + 2) * 3", "z := s[0]", "w := \"abc\"[1:2]", "x, v = 2, x",
		"a, b, c := @echo(\"hi\", \"x\") | @cat()", "write(\"f\", \"d\", true)", "var y, z int = 1, 2", "y := two()", "y := x == 1 && true || false",
		"func g(a int, b string) (int, string) {\n\treturn a, b\n}", "for i := 0; i < 2; i++ {\n}", "if x == 1 && true {\n}", "for i, e := range s {\n}", "switch x {\ncase 1, 2:\n}",
	}
	for si, st := range stmts {
		toks, err := RefLex(st + "\n")
		if err != nil {
			continue
		}
		sig := Significant(toks)
		for gi := 1; gi < len(sig); gi++ {
			if sig[gi].Kind == REOF || sig[gi].Kind == RNewline || sig[gi-1].Kind == RNewline {
				continue
			}
			cut := sig[gi].Start
			text := strings.TrimRight(st[:cut], " ") + "\n\t" + st[cut:]
			progs = append(progs, CorpusProg{fmt.Sprintf("broken-line/%d/%d", si, gi), "x := 1\nv := 0\ns := []string{\"a\"}\nfunc two() int {\n\treturn 2\n}\n" + text + "\nprint(x)\n"})
		}
	}
	return progs
}

func checkC12(c *Check) {
	c.Rule = "metamorphic: corpus = the suite's own programs (extracted from tests/*.go), std/*.tsh, examples/*.tsh, generated programs and hand-written accepted/rejected programs; re-layout operators applied to the whole file (CRLF everywhere, CRLF mixed with LF in three patterns, block comments spelled /** d **/, /***/, /**/ and /*/ x /* y */ in every gap, 4 re-indentations, trailing blanks, comment or blank line at every break, block comment (one-line and spanning two lines) / blank in every gap, final newline, leading blank/comment lines) and singly at every applicable site (blank/comment line incl. a text-less // after each line break, trailing comment before each break, block comment / blank / tab before each token, removal of each blank) for small programs, sampled sites for large ones; a variant counts only if the reference lexer confirms the token list is preserved; verdict: same accept/reject and byte-identical scripts for both targets. Non-trivial = variant text differs from the original; distinct = SHA-256 of variant text"
	c.Assumptions = []string{"token preservation is decided by the reference lexer (newline runs collapsed, leading/trailing newlines ignored)", "imports of std files resolve next to the harness binary (copied from /repo/std at check time)"}
	runProbes(c, bashProbeJudge)
	corpus := c12Corpus(c)
	c.Extra["corpus_programs"] = len(corpus)
	type job struct {
		prog CorpusProg
		v    layoutVariant
	}
	jobs := []job{}
	r := rand.New(rand.NewSource(c.Seed*12000029 + 1))
	skipped := 0
	for _, p := range corpus {
		rt, err := RefLex(p.Src)
		if err != nil {
			skipped++
			continue
		}
		base, _ := canonTokens(p.Src)
		vs := wholeFileVariants(p.Src, rt)
		sv := siteVariants(rt)
		lines := strings.Count(p.Src, "\n")
		maxSites := c.Pick(40, 400)
		if lines <= 25 {
			maxSites = c.Pick(150, 100000)
		}
		if len(sv) > maxSites {
			r.Shuffle(len(sv), func(i, j int) { sv[i], sv[j] = sv[j], sv[i] })
			sv = sv[:maxSites]
		}
		vs = append(vs, sv...)
		// a few random combinations
		for k := 0; k < c.Pick(2, 10); k++ {
			all := siteVariants(rt)
			if len(all) == 0 {
				break
			}
			// apply 3-6 site edits right to left so that indices stay valid
			picks := map[int]layoutVariant{}
			for m := 0; m < 3+r.Intn(4); m++ {
				v := all[r.Intn(len(all))]
				if v.op == "remove-blank" {
					continue
				}
				picks[v.site] = v
			}
			text := joinToks(rt, func(i int, t RTok) string {
				if v, ok := picks[i]; ok {
					// recover the inserted text by diffing lengths: re-run the op locally
					switch v.op {
					case "blank-line-after":
						return t.Text + "\n"
					case "blank-lines-after":
						return t.Text + "\n  \n\t\n"
					case "comment-line-after":
						return t.Text + "// only a comment\n"
					case "block-comment-line-after":
						return t.Text + "\t/* only a comment */\n"
					case "line-comment-before-break":
						return " // trailing" + t.Text
					case "crlf-at-this-break":
						return "\r" + t.Text
					case "empty-line-comment-line-after":
						return t.Text + "//\n"
					case "empty-line-comment-before-break":
						return " //" + t.Text
					case "doc-comment-before-break":
						return " /** d **/" + t.Text
					case "block-comment-before-break":
						return " /* trailing */" + t.Text
					case "trailing-tab":
						return "\t" + t.Text
					case "block-comment-before-token":
						return "/* c */" + t.Text
					case "multiline-block-comment-before-token":
						return " /* two\nlines */ " + t.Text
					case "blank-before-token":
						return " " + t.Text
					case "tab-before-token":
						return "\t" + t.Text
					}
				}
				return t.Text
			})
			vs = append(vs, layoutVariant{"combination", k, text})
		}
		for _, v := range vs {
			if v.text == p.Src {
				continue
			}
			ct, ok := canonTokens(v.text)
			if !ok || !sameCanon(base, ct) {
				c.Count("variants_not_token_preserving_skipped", 1)
				continue
			}
			jobs = append(jobs, job{p, v})
		}
	}
	c.Extra["corpus_programs_with_lexical_errors_skipped"] = skipped
	// transpile originals once
	type baseRes struct{ a, b TResult }
	bases := map[string]baseRes{}
	for _, p := range corpus {
		a, b, _ := transpileBoth(p.Src, nil)
		bases[p.Name] = baseRes{a, b}
	}
	opCount := map[string]int{}
	parallelDo(len(jobs), 16, func(i int) {
		j := jobs[i]
		a, b, dir := transpileBoth(j.v.text, nil)
		_ = dir
		c.Eval(j.v.text, true)
		c.mu.Lock()
		opCount[j.v.op]++
		c.mu.Unlock()
		base := bases[j.prog.Name]
		files := map[string]string{"original.tsh": j.prog.Src, "variant.tsh": j.v.text}
		key := fmt.Sprintf("%s/%s@%d", j.v.op, j.prog.Name, j.v.site)
		for _, tc := range []struct {
			name string
			o, v TResult
		}{{"bash", base.a, a}, {"batch", base.b, b}} {
			vo, vv := verdictOf(tc.o), verdictOf(tc.v)
			if vo != vv {
				d := ""
				if tc.v.Err != nil {
					d = tc.v.Err.Error()
				} else if tc.o.Err != nil {
					d = tc.o.Err.Error()
				}
				c.Violation(tc.name+"/"+key, fmt.Sprintf("original %s, re-laid-out variant %s (%s)", vo, vv, oneLine(stripTmp(d))), files)
				return
			}
			if vo == "accept" && tc.o.Script != tc.v.Script {
				files["original."+tc.name] = tc.o.Script
				files["variant."+tc.name] = tc.v.Script
				c.Violation(tc.name+"/"+key, "emitted script differs: "+firstDiff(tc.o.Script, tc.v.Script), files)
				return
			}
		}
		if i%2503 == 11 {
			c.Sample(map[string]interface{}{"program": j.prog.Name, "operator": j.v.op, "site": j.v.site, "variant": clip(j.v.text, 600), "verdict": verdictOf(a)})
		}
	})
	c.Extra["variants_per_operator"] = opCount
}

func stripTmp(s string) string {
	if i := strings.Index(s, ": /"); i >= 0 {
		return s[:i]
	}
	_ = os.Getenv
	return s
}
