package main

import (
	"crypto/sha256"
	"encoding/hex"
	"encoding/json"
	"fmt"
	"os"
	"path"
	"path/filepath"
	"sort"
	"strconv"
	"strings"
	"sync"
	"time"
)

var outRoot = func() string {
	if v := os.Getenv("VERIF_OUT"); v != "" {
		return v
	}
	if v := os.Getenv("VERIF_ROOT"); v != "" {
		return v
	}
	return "/verif"
}()

var verifRoot = func() string {
	if v := os.Getenv("VERIF_ROOT"); v != "" {
		return v
	}
	return "/verif"
}()

// ---- known findings ----

type Probe struct {
	Name   string            `json:"name"`
	Files  map[string]string `json:"files,omitempty"` // relative name -> source; main is "main.tsh"
	Stdin  string            `json:"stdin,omitempty"`
	Stdout string            `json:"expect_stdout"`
	Exit   int               `json:"expect_exit"`
	Target string            `json:"target,omitempty"` // bash (default) | batch | accept | reject
}

type Finding struct {
	Property string   `json:"property"`
	ID       string   `json:"id"`
	Status   string   `json:"status"` // known | fixed
	Commit   string   `json:"commit,omitempty"`
	What     string   `json:"what"`
	Cells    []string `json:"cells,omitempty"`
	Gates    []string `json:"gates,omitempty"`
	Probes   []Probe  `json:"probes,omitempty"`
	Witness  string   `json:"witness,omitempty"`
}

func loadFindings(prop string) []Finding {
	b, err := os.ReadFile(filepath.Join(verifRoot, "known_findings.json"))
	if err != nil {
		return nil
	}
	var all []Finding
	if err := json.Unmarshal(b, &all); err != nil {
		fatalf("known_findings.json: %v", err)
	}
	out := []Finding{}
	for _, f := range all {
		if f.Property == prop {
			out = append(out, f)
		}
	}
	return out
}

// ---- check context ----

type Check struct {
	Prop  string
	Tier  string
	Seed  int64
	Level string
	Rule  string

	start        time.Time
	mu           sync.Mutex
	evals        int
	distinct     map[[32]byte]struct{}
	samples      []interface{}
	violations   int
	violKeys     map[string]bool
	inconclusive map[string]int
	knownHits    map[string]int
	knownExample map[string]string
	findings     []Finding
	Extra        map[string]interface{}
	Assumptions  []string
	Feats        map[string]int
	Exhaustive   bool
	discarded    int
	printed      int
	nonterm      int
}

func NewCheck(prop string) *Check {
	tier := os.Getenv("VERIF_TIER")
	if len(os.Args) > 2 && (os.Args[2] == "quick" || os.Args[2] == "thorough") {
		tier = os.Args[2]
	}
	if tier != "thorough" {
		tier = "quick"
	}
	seed := int64(1)
	if s := os.Getenv("VERIF_SEED"); s != "" {
		if v, err := strconv.ParseInt(s, 10, 64); err == nil {
			seed = v
		}
	}
	c := &Check{Prop: prop, Tier: tier, Seed: seed, Level: "exploration", start: time.Now(),
		distinct: map[[32]byte]struct{}{}, violKeys: map[string]bool{}, inconclusive: map[string]int{},
		knownHits: map[string]int{}, knownExample: map[string]string{}, Extra: map[string]interface{}{}, Feats: map[string]int{}}
	c.findings = loadFindings(prop)
	return c
}

func (c *Check) Thorough() bool { return c.Tier == "thorough" }

// Pick returns q for the quick tier and t for the thorough tier.
func (c *Check) Pick(q, t int) int {
	if c.Thorough() {
		return t
	}
	return q
}

func (c *Check) Gated(gate string) bool {
	for _, f := range c.findings {
		if f.Status != "known" {
			continue
		}
		for _, g := range f.Gates {
			if g == gate {
				return true
			}
		}
	}
	return false
}

func (c *Check) GatedList() []string {
	out := []string{}
	for _, f := range c.findings {
		if f.Status == "known" {
			out = append(out, f.Gates...)
		}
	}
	sort.Strings(out)
	return out
}

// Eval records one executed case. id distinguishes cases; nontrivial says
// whether the case satisfied the check's non-triviality rule.
func (c *Check) Eval(id string, nontrivial bool) {
	h := sha256.Sum256([]byte(id))
	c.mu.Lock()
	c.evals++
	if nontrivial {
		c.distinct[h] = struct{}{}
	}
	c.mu.Unlock()
}

func (c *Check) Discard() {
	c.mu.Lock()
	c.discarded++
	c.mu.Unlock()
}

func (c *Check) Sample(v interface{}) {
	c.mu.Lock()
	if len(c.samples) < 4 {
		c.samples = append(c.samples, v)
	}
	c.mu.Unlock()
}

func (c *Check) AddFeats(m map[string]int) {
	c.mu.Lock()
	for k, v := range m {
		c.Feats[k] += v
	}
	c.mu.Unlock()
}

func (c *Check) Count(name string, n int) {
	c.mu.Lock()
	v, _ := c.Extra[name].(int)
	c.Extra[name] = v + n
	c.mu.Unlock()
}

func (c *Check) Inconclusive(why string) {
	c.mu.Lock()
	c.inconclusive[why]++
	c.mu.Unlock()
}

func matchCell(pattern, key string) bool {
	ok, err := path.Match(pattern, key)
	return err == nil && ok
}

// knownFor returns the id of the known (unfixed) finding whose cell patterns
// match key, or "".
func (c *Check) knownFor(key string) string {
	for _, f := range c.findings {
		if f.Status != "known" {
			continue
		}
		for _, p := range f.Cells {
			if matchCell(p, key) {
				return f.ID
			}
		}
	}
	return ""
}

// Violation reports a failing case. key is the stable cell key (table checks)
// or a generator path; files go into the replay directory. If the key is
// matched by a known finding's cell patterns, it is counted there instead.
func (c *Check) Violation(key string, summary string, files map[string]string) {
	if id := c.knownFor(key); id != "" {
		c.mu.Lock()
		if f := os.Getenv("VERIF_DUMP_KNOWN"); f != "" {
			if fh, err := os.OpenFile(f, os.O_APPEND|os.O_CREATE|os.O_WRONLY, 0o644); err == nil {
				fmt.Fprintf(fh, "%s\t%s\n", id, key)
				fh.Close()
			}
		}
		c.knownHits[id]++
		if _, ok := c.knownExample[id]; !ok {
			c.knownExample[id] = key + ": " + summary
		}
		c.mu.Unlock()
		return
	}
	c.mu.Lock()
	defer c.mu.Unlock()
	c.violations++
	if c.violKeys[key] {
		return
	}
	c.violKeys[key] = true
	h := sha256.Sum256([]byte(key + "\x00" + summary))
	dir := filepath.Join(outRoot, "replays", c.Prop, hex.EncodeToString(h[:6]))
	if os.Getenv("VERIF_VERBOSE") != "" {
		fmt.Printf("V %s :: %s\n", key, oneLine(summary))
	}
	if c.printed < 25 {
		os.MkdirAll(dir, 0o755)
		meta := map[string]interface{}{"property": c.Prop, "key": key, "summary": summary, "seed": c.Seed, "tier": c.Tier}
		mb, _ := json.MarshalIndent(meta, "", " ")
		os.WriteFile(filepath.Join(dir, "case.json"), mb, 0o644)
		for name, content := range files {
			full := filepath.Join(dir, strings.ReplaceAll(name, "..", "__"))
			os.MkdirAll(filepath.Dir(full), 0o755)
			os.WriteFile(full, []byte(content), 0o644)
		}
		fmt.Printf("VIOLATION property=%s replay=%s\n", c.Prop, dir)
		fmt.Printf("  key: %s\n  %s\n", key, strings.ReplaceAll(summary, "\n", "\n  "))
		c.printed++
	}
}

func (c *Check) Violations() int {
	c.mu.Lock()
	defer c.mu.Unlock()
	return c.violations
}

// Finish writes the evidence file and terminates the process with the
// contract's exit code.
func (c *Check) Finish() {
	cleanupScratch()
	c.mu.Lock()
	defer c.mu.Unlock()
	for _, f := range c.findings {
		if f.Status == "known" && c.knownHits[f.ID] > 0 {
			fmt.Printf("KNOWN-FINDING: property=%s %s: %s (%d failing cases, e.g. %s)\n", c.Prop, f.ID, f.What, c.knownHits[f.ID], oneLine(c.knownExample[f.ID]))
		}
	}
	cov := map[string]interface{}{
		"evaluations":         c.evals,
		"distinct_nontrivial": len(c.distinct),
		"rule":                c.Rule,
		"samples":             c.samples,
		"inconclusive":        c.inconclusive,
		"discarded_undefined": c.discarded,
		"known_finding_hits":  c.knownHits,
		"gated_features":      c.gatedListLocked(),
	}
	if c.Exhaustive {
		cov["exhaustive"] = true
	}
	if os.Getenv("VERIF_NORECORDER") == "1" {
		cov["converter_call_trace"] = "not recorded: the recording wrapper does not compile against the repository's transpiler.Converter interface as it is now"
	}
	if len(c.Feats) > 0 {
		cov["features_observed"] = c.Feats
	}
	for k, v := range c.Extra {
		cov[k] = v
	}
	if c.samples == nil {
		cov["samples"] = []interface{}{}
	}
	ev := map[string]interface{}{
		"property_id": c.Prop,
		"tier":        c.Tier,
		"seed":        c.Seed,
		"level":       c.Level,
		"coverage":    cov,
		"assumptions": c.Assumptions,
		"wall_s":      time.Since(c.start).Seconds(),
		"violations":  c.violations,
	}
	if c.Assumptions == nil {
		ev["assumptions"] = []string{}
	}
	b, err := json.MarshalIndent(ev, "", " ")
	if err != nil {
		fmt.Fprintf(os.Stderr, "evidence marshal: %v\n", err)
		os.Exit(2)
	}
	os.MkdirAll(filepath.Join(outRoot, "evidence"), 0o755)
	if err := os.WriteFile(filepath.Join(outRoot, "evidence", c.Prop+".json"), b, 0o644); err != nil {
		fmt.Fprintf(os.Stderr, "evidence write: %v\n", err)
		os.Exit(2)
	}
	inc := 0
	for _, n := range c.inconclusive {
		inc += n
	}
	fmt.Printf("%s %s seed=%d: evaluations=%d distinct_nontrivial=%d violations=%d inconclusive=%d discarded=%d wall=%.1fs\n",
		c.Prop, c.Tier, c.Seed, c.evals, len(c.distinct), c.violations, inc, c.discarded, time.Since(c.start).Seconds())
	if c.violations > 0 {
		os.Exit(1)
	}
	if c.evals == 0 || len(c.distinct) < 2 {
		fmt.Printf("INCONCLUSIVE %s: the run observed nothing\n", c.Prop)
		os.Exit(2)
	}
	os.Exit(0)
}

func (c *Check) gatedListLocked() []string {
	out := []string{}
	for _, f := range c.findings {
		if f.Status == "known" {
			out = append(out, f.Gates...)
		}
	}
	sort.Strings(out)
	return out
}

func oneLine(s string) string {
	s = strings.ReplaceAll(s, "\n", "\\n")
	if len(s) > 200 {
		s = s[:200] + "..."
	}
	return s
}

func clip(s string, n int) string {
	if len(s) > n {
		return s[:n] + fmt.Sprintf("...[%d more bytes]", len(s)-n)
	}
	return s
}

func (c *Check) bumpNonterm() int {
	c.mu.Lock()
	defer c.mu.Unlock()
	c.nonterm++
	return c.nonterm
}
