package main

import "strings"

// tightLayout removes every blank and tab that the token grammar does not need (between two
// word-like tokens a blank stays; blanks next to a minus sign that is followed by another minus
// or a negative literal stay). The result is used only if the reference lexer confirms that the
// token list is unchanged; otherwise the text is returned as it was.
func tightLayout(src string) string {
	toks, err := RefLex(src)
	if err != nil {
		return src
	}
	wordy := func(t RTok) bool { return t.Kind == RIdent || t.Kind == RKeyword || t.Kind == RNumber }
	prevSig := func(i int) *RTok {
		for j := i - 1; j >= 0; j-- {
			if toks[j].Kind != RSpace && toks[j].Kind != RComment {
				return &toks[j]
			}
		}
		return nil
	}
	nextSig := func(i int) *RTok {
		for j := i + 1; j < len(toks); j++ {
			if toks[j].Kind != RSpace && toks[j].Kind != RComment {
				return &toks[j]
			}
		}
		return nil
	}
	minusish := func(t *RTok) bool {
		return t != nil && ((t.Kind == ROp && (t.Text == "-" || t.Text == "--" || t.Text == "-=")) || (t.Kind == RNumber && strings.HasPrefix(t.Text, "-")))
	}
	plusish := func(t *RTok) bool { return t != nil && t.Kind == ROp && (t.Text == "+" || t.Text == "++" || t.Text == "+=") }
	var b strings.Builder
	for i, t := range toks {
		if t.Kind != RSpace {
			b.WriteString(t.Text)
			continue
		}
		p, n := prevSig(i), nextSig(i)
		keep := false
		if p != nil && n != nil {
			if wordy(*p) && wordy(*n) {
				keep = true
			}
			if (minusish(p) && minusish(n)) || (plusish(p) && plusish(n)) {
				keep = true
			}
			// "x - 1" may become "x-1" (minus after an operand is an operator), but "= -1" must not
			// lose the blank in front of an operator that precedes it: "a - -1"
			if p.Kind == ROp && minusish(n) && (p.Text == "-" || p.Text == "--") {
				keep = true
			}
			// "&& !" / "= !" are fine; "/ /" and "/ *" would start comments
			if p.Kind == ROp && p.Text == "/" && n.Kind == ROp && (n.Text == "/" || n.Text == "*" || n.Text == "/=" || n.Text == "*=") {
				keep = true
			}
			// an operator followed by '=' forms another operator: "< =" cannot occur in valid programs, skip
		}
		if keep {
			b.WriteString(" ")
		}
	}
	out := b.String()
	a, ok1 := canonTokens(src)
	c, ok2 := canonTokens(out)
	if !ok1 || !ok2 || !sameCanon(a, c) {
		return src
	}
	return out
}

// withTight appends, for every n-th case, a copy whose source files are rendered in the tight
// layout (same program, same expected behaviour): the properties quantify over programs, not
// over the generator's house style.
func withTight(cases []BashCase, n int) []BashCase {
	out := cases
	for i, bc := range cases {
		if i%n != n/2 || bc.Prog == nil {
			continue
		}
		cp := *bc.Prog
		cp.Layout = "tight"
		tc := bc
		tc.Prog = &cp
		tc.Key = "tight/" + bc.Key
		out = append(out, tc)
	}
	return out
}
