package main

import (
	"fmt"
)

func init() { register("C01", checkC01) }

func c01Cfg(c *Check) GenCfg {
	cfg := genConfigs["c01"]
	cfg.NoNotNot = c.Gated("notnot")
	cfg.NoCmpChain = c.Gated("cmpchain")
	return cfg
}

func checkC01(c *Check) {
	c.Rule = "enumerated families (operator pairs, edge arithmetic, last-statement/exit status, loop skeletons, switch forms, definition forms, compound assignment x right-hand-side shape) plus a seeded random sweep of scalar programs; a case is non-trivial when the reference run printed at least one line and executed at least 3 distinct construct kinds; distinct = SHA-256 of the source text"
	c.Assumptions = []string{"reference interpreter implements the Go meaning plus the README deviations", "/bin/bash 5.2 is the execution platform", "strings restricted to a shell-neutral alphabet (hostile strings are C08)"}
	nontrivial := func(r Result) bool { return len(r.Stdout) > 0 && len(r.Features) >= 3 }
	cases := []BashCase{}
	for _, fc := range c01Families(c) {
		fc.NonTrivial = nontrivial
		cases = append(cases, fc)
	}
	c.Extra["enumerated_cases"] = len(cases)
	nrand := c.Pick(700, 30000)
	for i := 0; i < nrand; i++ {
		seed := c.Seed*1000003 + int64(i)
		g := NewGen(seed, c01Cfg(c))
		cases = append(cases, BashCase{Key: fmt.Sprintf("random/c01/seed=%d", seed), Prog: g.Program(), NonTrivial: nontrivial})
	}
	if c.Thorough() {
		oracleSelfCheck(c, cases, 3000)
	} else {
		oracleSelfCheck(c, cases, 300)
	}
	runProbes(c, bashProbeJudge)
	runBashCases(c, withTight(cases, 4))
}
