package main

import (
	"fmt"
	"math"
	"path/filepath"
	"sort"
	"strconv"
	"strings"
)

// Reference interpreter for RefLang: "the Go meaning of the same text" plus the
// deviations documented by the README / the properties:
//   - bools print as 1/0, print joins with one blank
//   - && and || evaluate both operands, left to right
//   - all conditions of an if/else-if chain (and all case expressions of a
//     switch) are evaluated, in order, before any branch runs
//   - slices are shared growable vectors; a write at index >= len extends and
//     zero-fills; copy(dst, src) stores src[i] for all i < len(src)
//   - s[i] on a string is a 1-character string
//   - panic(m) prints "panic: m" on stdout and ends with status 1
//   - integers wrap at Width bits
// Everything the properties exclude raises Undefined and the program is
// discarded by the caller.

type Value struct {
	T  Type
	I  int64
	B  bool
	S  string
	Sl *SliceObj
}

type SliceObj struct {
	Elem  Type
	Elems []Value
}

func zeroValue(t Type) Value {
	switch t {
	case TInt, TBool, TString:
		return Value{T: t}
	}
	return Value{T: t, Sl: &SliceObj{Elem: t.Elem()}}
}

func (v Value) Show() string {
	switch v.T {
	case TInt:
		return strconv.FormatInt(v.I, 10)
	case TBool:
		if v.B {
			return "1"
		}
		return "0"
	case TString:
		return v.S
	}
	return "<slice>"
}

type cell struct {
	v Value
}

type frame struct {
	vars    map[string]*cell
	file    int
	visible map[string]bool // function frames: names of the file's globals defined before the function
	reads   map[interface{}]struct{}
	cwrites map[interface{}]struct{}
	ranging map[*SliceObj]int
}

type undefinedErr struct{ why string }
type exitErr struct{ code int }

type ctl int

const (
	ctlNone ctl = iota
	ctlBreak
	ctlContinue
	ctlReturn
)

type Result struct {
	Stdout     string
	Exit       int
	Steps      int
	Undefined  string // non-empty: program is outside the defined fragment
	Features   map[string]int
	Overflow   bool // some arithmetic result left the int32 range (64-bit runs only)
	BigLiteral bool // an integer literal outside (MinInt32, MaxInt32] was evaluated
	FS         map[string][]byte
	MaxSlice   int
}

type NativeFunc func(args []Value) []Value

type Interp struct {
	Width         int
	MaxSteps      int
	prog          *Program
	out           strings.Builder
	steps         int
	feats         map[string]int
	overflow      bool
	bigLiteral    bool
	globals       []map[string]*cell
	funcs         []map[string]*FuncDecl
	funcVisible   map[*FuncDecl]map[string]bool
	properGlobals map[int]map[string]bool
	imports       []map[string]int // alias -> file index (-1 => native)
	natives       []map[string]string
	ran           []bool
	frames        []*frame
	retVals       []Value
	FS            map[string][]byte
	Dirs          map[string]bool
	Natives       map[string]map[string]NativeFunc // module name -> functions
	maxSlice      int
	switchDepth   int
	Stdin         []string // lines for input()
	stdinPos      int
	// AppHook runs a command chain: stages[i] = [name, args...]; returns stdout and exit status.
	AppHook func(stages [][]string) (string, int)
}

func Interpret(p *Program, width int, maxSteps int) Result {
	it := &Interp{Width: width, MaxSteps: maxSteps, prog: p}
	return it.Run()
}

func (it *Interp) Run() (res Result) {
	p := it.prog
	it.feats = map[string]int{}
	if it.FS == nil {
		it.FS = map[string][]byte{}
	}
	n := len(p.Files)
	it.globals = make([]map[string]*cell, n)
	it.funcs = make([]map[string]*FuncDecl, n)
	it.imports = make([]map[string]int, n)
	it.natives = make([]map[string]string, n)
	it.ran = make([]bool, n)
	for i := range p.Files {
		it.globals[i] = map[string]*cell{}
		it.funcs[i] = map[string]*FuncDecl{}
		it.imports[i] = map[string]int{}
		it.natives[i] = map[string]string{}
	}
	defer func() {
		if r := recover(); r != nil {
			switch e := r.(type) {
			case undefinedErr:
				res = it.result(0)
				res.Undefined = e.why
			case exitErr:
				res = it.result(e.code)
			default:
				panic(r)
			}
		}
	}()
	it.runFile(0)
	return it.result(0)
}

func (it *Interp) result(code int) Result {
	return Result{Stdout: it.out.String(), Exit: code, Steps: it.steps, Features: it.feats, Overflow: it.overflow, BigLiteral: it.bigLiteral, FS: it.FS, MaxSlice: it.maxSlice}
}

func (it *Interp) undef(format string, a ...interface{}) {
	panic(undefinedErr{fmt.Sprintf(format, a...)})
}

func (it *Interp) feat(f string) { it.feats[f]++ }

func (it *Interp) step() {
	it.steps++
	if it.steps > it.MaxSteps {
		it.undef("step budget exceeded")
	}
}

func (it *Interp) fileIndex(from int, path string) int {
	// import paths are relative to the directory of the importing file
	resolved := filepath.Clean(filepath.Join(filepath.Dir(it.prog.Files[from].Name), path))
	for i, f := range it.prog.Files {
		if filepath.Clean(f.Name) == resolved {
			return i
		}
	}
	return -1
}

func (it *Interp) runFile(idx int) {
	if it.ran[idx] {
		return
	}
	it.ran[idx] = true
	f := it.prog.Files[idx]
	for _, im := range f.Imports {
		target := it.fileIndex(idx, im.Path)
		alias := im.Alias
		if target < 0 {
			// native (std) module
			mod := strings.TrimSuffix(im.Path, ".tsh")
			if alias == "" {
				alias = mod
			}
			if it.Natives == nil || it.Natives[mod] == nil {
				it.undef("unknown import %s", im.Path)
			}
			it.imports[idx][alias] = -1
			it.natives[idx][alias] = mod
			continue
		}
		it.runFile(target)
		it.imports[idx][alias] = target
	}
	fr := &frame{vars: it.globals[idx], file: idx}
	it.frames = append(it.frames, fr)
	c := it.execBlock(fr, f.Stmts, true)
	it.frames = it.frames[:len(it.frames)-1]
	if c != ctlNone {
		it.undef("control statement escaped top level")
	}
}

// ---- conflict tracking (Go leaves the relative order of a variable read and a
// call that writes the same variable inside one statement unspecified) ----

func (it *Interp) beginUnit(fr *frame) {
	fr.reads = map[interface{}]struct{}{}
	fr.cwrites = map[interface{}]struct{}{}
}

func (it *Interp) noteRead(fr *frame, k interface{}) {
	if fr.reads == nil {
		it.beginUnit(fr)
	}
	fr.reads[k] = struct{}{}
	if _, bad := fr.cwrites[k]; bad {
		it.undef("variable read and written by a call in one statement")
	}
}

func (it *Interp) noteWrite(fr *frame, k interface{}) {
	// a write in frame fr is a "callee write" for all frames below it
	for _, f := range it.frames {
		if f == fr {
			break
		}
		if f.cwrites == nil {
			it.beginUnit(f)
		}
		f.cwrites[k] = struct{}{}
		if _, bad := f.reads[k]; bad {
			it.undef("variable read and written by a call in one statement")
		}
	}
}

// ---- variables ----

func (it *Interp) lookup(fr *frame, name string) *cell {
	if c, ok := fr.vars[name]; ok {
		return c
	}
	if c, ok := it.globals[fr.file][name]; ok {
		return c
	}
	it.undef("interpreter: unknown variable %s", name)
	return nil
}

func (it *Interp) define(fr *frame, name string, v Value) {
	if c, ok := fr.vars[name]; ok {
		// re-execution of a definition (loop body) or sibling block reuse
		c.v = v
		it.noteWrite(fr, c)
		return
	}
	fr.vars[name] = &cell{v: v}
}

func (it *Interp) wrap(v int64) int64 {
	if it.Width == 32 {
		return int64(int32(v))
	}
	if v > math.MaxInt32 || v < math.MinInt32 {
		it.overflow = true
	}
	return v
}

// ---- expressions ----

func (it *Interp) eval(fr *frame, e Expr) Value {
	it.step()
	switch x := e.(type) {
	case IntLit:
		if x.V > math.MaxInt32 || x.V <= math.MinInt32 {
			it.bigLiteral = true
		}
		return Value{T: TInt, I: it.wrap(x.V)}
	case PaddedInt:
		it.feat("intlit")
		return Value{T: TInt, I: it.wrap(x.V)}
	case BoolLit:
		return Value{T: TBool, B: x.V}
	case StrLit:
		return Value{T: TString, S: x.V}
	case NilLit:
		it.feat("nil")
		return Value{T: TString}
	case VarRef:
		c := it.lookup(fr, x.Name)
		it.noteRead(fr, c)
		return c.v
	case Group:
		it.feat("group")
		return it.eval(fr, x.E)
	case Not:
		it.feat("op:!")
		v := it.eval(fr, x.E)
		return Value{T: TBool, B: !v.B}
	case Bin:
		l := it.eval(fr, x.L)
		r := it.eval(fr, x.R)
		it.feat("op:" + x.Op)
		if l.T == TString {
			if len(l.S)+len(r.S) > 1<<16 {
				it.undef("string too long (resource guard)")
			}
			return Value{T: TString, S: l.S + r.S}
		}
		return Value{T: TInt, I: it.arith(x.Op, l.I, r.I)}
	case Cmp:
		l := it.eval(fr, x.L)
		r := it.eval(fr, x.R)
		it.feat("op:" + x.Op + ":" + l.T.String())
		return Value{T: TBool, B: it.compare(x.Op, l, r)}
	case Logic:
		l := it.eval(fr, x.L)
		r := it.eval(fr, x.R) // eager, as documented
		it.feat("op:" + x.Op)
		if x.Op == "&&" {
			return Value{T: TBool, B: l.B && r.B}
		}
		return Value{T: TBool, B: l.B || r.B}
	case Call:
		vals := it.call(fr, x)
		if len(vals) != 1 {
			it.undef("interpreter: single value expected from %s", x.Fn)
		}
		return vals[0]
	case Len:
		v := it.eval(fr, x.E)
		it.feat("len:" + v.T.String())
		if v.T == TString {
			return Value{T: TInt, I: int64(len(v.S))}
		}
		it.noteRead(fr, v.Sl)
		return Value{T: TInt, I: int64(len(v.Sl.Elems))}
	case Itoa:
		v := it.eval(fr, x.E)
		it.feat("itoa")
		return Value{T: TString, S: strconv.FormatInt(v.I, 10)}
	case Index:
		c := it.lookup(fr, x.Name)
		it.noteRead(fr, c)
		base := c.v
		i := it.eval(fr, x.I)
		if base.T == TString {
			it.feat("strindex")
			if i.I < 0 || i.I >= int64(len(base.S)) {
				it.undef("string index out of range")
			}
			return Value{T: TString, S: base.S[i.I : i.I+1]}
		}
		it.feat("sliceindex")
		it.noteRead(fr, base.Sl)
		if i.I < 0 || i.I >= int64(len(base.Sl.Elems)) {
			it.undef("slice index out of range")
		}
		return base.Sl.Elems[i.I]
	case Substr:
		c := it.lookup(fr, x.Name)
		it.noteRead(fr, c)
		s := c.v.S
		lo, hi := int64(0), int64(len(s))
		if x.Lo != nil {
			lo = it.eval(fr, x.Lo).I
		}
		if x.Hi != nil {
			hi = it.eval(fr, x.Hi).I
		}
		it.feat("substr")
		if lo < 0 || hi > int64(len(s)) || lo > hi {
			it.undef("substring bounds out of range")
		}
		return Value{T: TString, S: s[lo:hi]}
	case SliceLit:
		it.feat("slicelit")
		obj := &SliceObj{Elem: x.Elem}
		for _, el := range x.Elems {
			obj.Elems = append(obj.Elems, it.eval(fr, el))
		}
		it.noteSliceLen(obj)
		return Value{T: SliceOf(x.Elem), Sl: obj}
	case Copy:
		src := it.eval(fr, x.Src)
		c := it.lookup(fr, x.Dst)
		it.noteRead(fr, c)
		dst := c.v.Sl
		it.feat("copy")
		it.noteRead(fr, src.Sl)
		if len(dst.Elems) > len(src.Sl.Elems) {
			it.undef("copy into a longer destination")
		}
		if _, r := it.isRanging(dst); r && len(dst.Elems) != len(src.Sl.Elems) {
			it.undef("resize while ranging")
		}
		n := len(src.Sl.Elems)
		if dst != src.Sl {
			elems := make([]Value, n)
			copy(elems, src.Sl.Elems)
			dst.Elems = elems
		}
		it.noteWrite(fr, dst)
		it.noteWriteSelf(fr, dst)
		return Value{T: TInt, I: int64(n)}
	case Exists:
		p := it.eval(fr, x.Path)
		it.feat("exists")
		_, ok := it.FS[p.S]
		if !ok && it.Dirs != nil {
			ok = it.Dirs[p.S]
		}
		return Value{T: TBool, B: ok}
	case Read:
		p := it.eval(fr, x.Path)
		it.feat("read")
		data, ok := it.FS[p.S]
		if !ok {
			it.undef("read of a missing file")
		}
		s := string(data)
		s = strings.TrimSuffix(s, "\n")
		return Value{T: TString, S: s}
	case Input:
		if x.Prompt != nil {
			p := it.eval(fr, x.Prompt)
			_ = p // the prompt goes to the terminal (read -p), not to stdout
		}
		it.feat("input")
		if it.stdinPos >= len(it.Stdin) {
			it.undef("input at end of stdin")
		}
		v := it.Stdin[it.stdinPos]
		it.stdinPos++
		return Value{T: TString, S: v}
	}
	if a, ok := e.(AppCall); ok {
		// a command chain used as one value: its standard output
		return it.evalApp(fr, a)[0]
	}
	it.undef("interpreter: unsupported expression %T", e)
	return Value{}
}

// evalApp evaluates a command chain used as a value: (stdout, stderr, code).
func (it *Interp) evalApp(fr *frame, x AppCall) []Value {
	if it.AppHook == nil {
		it.undef("interpreter: no command hook")
	}
	stages := [][]string{}
	for _, st := range x.Stages {
		argv := []string{st.Name}
		for _, a := range st.Args {
			argv = append(argv, it.eval(fr, a).S)
		}
		stages = append(stages, argv)
	}
	it.feat("appcall")
	out, code := it.AppHook(stages)
	out = strings.TrimSuffix(out, "\n")
	return []Value{{T: TString, S: out}, {T: TString}, {T: TInt, I: int64(code)}}
}

func (it *Interp) noteWriteSelf(fr *frame, k interface{}) {
	// a write by the current frame after an earlier direct read in the same
	// unit is fine (x = x + 1); nothing to do. Kept for symmetry.
}

func (it *Interp) noteSliceLen(o *SliceObj) {
	if len(o.Elems) > it.maxSlice {
		it.maxSlice = len(o.Elems)
	}
}

func (it *Interp) isRanging(o *SliceObj) (int, bool) {
	for _, f := range it.frames {
		if n, ok := f.ranging[o]; ok && n > 0 {
			return n, true
		}
	}
	return 0, false
}

func (it *Interp) arith(op string, a, b int64) int64 {
	switch op {
	case "+":
		return it.wrap(a + b)
	case "-":
		return it.wrap(a - b)
	case "*":
		return it.wrap(a * b)
	case "/", "%":
		if b == 0 {
			it.undef("division by zero")
		}
		if it.Width == 32 {
			if a == math.MinInt32 && b == -1 {
				it.undef("MinInt / -1")
			}
		} else if a == math.MinInt64 && b == -1 {
			it.undef("MinInt / -1")
		}
		if op == "/" {
			return it.wrap(a / b)
		}
		return it.wrap(a % b)
	}
	it.undef("interpreter: unknown operator %s", op)
	return 0
}

func (it *Interp) compare(op string, l, r Value) bool {
	switch l.T {
	case TInt:
		switch op {
		case "==":
			return l.I == r.I
		case "!=":
			return l.I != r.I
		case "<":
			return l.I < r.I
		case "<=":
			return l.I <= r.I
		case ">":
			return l.I > r.I
		case ">=":
			return l.I >= r.I
		}
	case TBool:
		switch op {
		case "==":
			return l.B == r.B
		case "!=":
			return l.B != r.B
		}
	case TString:
		switch op {
		case "==":
			return l.S == r.S
		case "!=":
			return l.S != r.S
		}
		it.undef("ordering comparison of strings")
	}
	it.undef("interpreter: bad comparison %s on %s", op, l.T)
	return false
}

func (it *Interp) call(fr *frame, x Call) []Value {
	file := fr.file
	if x.Alias != "" {
		t, ok := it.imports[fr.file][x.Alias]
		if !ok {
			it.undef("interpreter: unknown alias %s", x.Alias)
		}
		if t < 0 {
			mod := it.natives[fr.file][x.Alias]
			nf := it.Natives[mod][x.Fn]
			if nf == nil {
				it.undef("interpreter: unknown native %s.%s", mod, x.Fn)
			}
			args := make([]Value, len(x.Args))
			for i, a := range x.Args {
				args[i] = it.eval(fr, a)
			}
			it.feat("nativecall")
			return nf(args)
		}
		file = t
	}
	fd := it.funcs[file][x.Fn]
	if fd == nil {
		it.undef("interpreter: unknown function %s", x.Fn)
	}
	args := make([]Value, len(x.Args))
	for i, a := range x.Args {
		args[i] = it.eval(fr, a)
	}
	it.feat(fmt.Sprintf("call:%d->%d", len(fd.Params), len(fd.Results)))
	if len(it.frames) > 1 {
		it.feat("nestedcall")
	}
	nf := &frame{vars: map[string]*cell{}, file: file, visible: it.funcVisible[fd]}
	for i, p := range fd.Params {
		nf.vars[p.Name] = &cell{v: args[i]}
	}
	if len(it.frames) > 64 {
		it.undef("call depth")
	}
	it.frames = append(it.frames, nf)
	saveSwitch := it.switchDepth
	it.switchDepth = 0
	c := it.execBlock(nf, fd.Body, false)
	it.switchDepth = saveSwitch
	it.frames = it.frames[:len(it.frames)-1]
	if c == ctlBreak || c == ctlContinue {
		it.undef("interpreter: break/continue escaped function")
	}
	var rv []Value
	if c == ctlReturn {
		rv = it.retVals
		it.retVals = nil
	}
	if len(rv) != len(fd.Results) {
		it.undef("interpreter: function %s fell off its end", x.Fn)
	}
	return rv
}

// evalMulti evaluates a value list that may be a single multi-value call.
func (it *Interp) evalMulti(fr *frame, values []Expr, want int) []Value {
	if len(values) == 1 && want > 1 {
		if a, ok := values[0].(AppCall); ok {
			vals := it.evalApp(fr, a)
			if len(vals) != want {
				it.undef("interpreter: arity mismatch")
			}
			return vals
		}
		if c, ok := values[0].(Call); ok {
			it.feat("multivalue")
			vals := it.call(fr, c)
			if len(vals) != want {
				it.undef("interpreter: arity mismatch")
			}
			return vals
		}
	}
	out := make([]Value, len(values))
	for i, v := range values {
		out[i] = it.eval(fr, v)
	}
	return out
}

// ---- statements ----

func (it *Interp) execBlock(fr *frame, body []Stmt, top bool) ctl {
	for _, s := range body {
		if c := it.exec(fr, s, top); c != ctlNone {
			return c
		}
	}
	return ctlNone
}

func (it *Interp) setVar(fr *frame, name string, v Value) {
	c := it.lookup(fr, name)
	c.v = v
	it.noteWrite(fr, c)
}

func (it *Interp) exec(fr *frame, s Stmt, top bool) ctl {
	it.step()
	switch x := s.(type) {
	case RawStmt:
		if strings.HasPrefix(strings.TrimSpace(x.Text), "//") {
			return ctlNone // a comment line
		}
	case FuncDecl:
		fd := x
		it.funcs[fr.file][x.Name] = &fd
		if it.funcVisible == nil {
			it.funcVisible = map[*FuncDecl]map[string]bool{}
		}
		vis := map[string]bool{}
		for n := range it.properGlobals[fr.file] {
			vis[n] = true
		}
		it.funcVisible[&fd] = vis
		return ctlNone
	case VarDecl:
		it.beginUnit(fr)
		it.feat("vardecl")
		if top {
			// defined at top level outside every block: a global that later functions of the file see
			if it.properGlobals == nil {
				it.properGlobals = map[int]map[string]bool{}
			}
			if it.properGlobals[fr.file] == nil {
				it.properGlobals[fr.file] = map[string]bool{}
			}
			for _, n := range x.Names {
				it.properGlobals[fr.file][n] = true
			}
		}
		if len(x.Values) == 0 {
			for _, n := range x.Names {
				it.define(fr, n, zeroValue(x.Type))
			}
			return ctlNone
		}
		vals := it.evalMulti(fr, x.Values, len(x.Names))
		for i, n := range x.Names {
			// the language has no shadowing: in a short definition of several names inside a function, a name
			// that is a global defined before the function is that global (at least one other name is new)
			if x.Short && len(x.Names) > 1 && fr.visible != nil && fr.visible[n] {
				if _, local := fr.vars[n]; !local {
					if _, ok := it.globals[fr.file][n]; ok {
						it.feat("partial-definition-reuses-global")
						it.setVar(fr, n, vals[i])
						continue
					}
				}
			}
			it.define(fr, n, vals[i])
		}
		return ctlNone
	case Assign:
		it.beginUnit(fr)
		it.feat(fmt.Sprintf("assign:%d", len(x.Names)))
		vals := it.evalMulti(fr, x.Values, len(x.Names))
		for i, n := range x.Names {
			it.setVar(fr, n, vals[i])
		}
		return ctlNone
	case OpAssign:
		it.beginUnit(fr)
		it.feat("opassign:" + x.Op)
		c := it.lookup(fr, x.Name)
		it.noteRead(fr, c)
		l := c.v
		r := it.eval(fr, x.V)
		if l.T == TString {
			if len(l.S)+len(r.S) > 1<<16 {
				it.undef("string too long (resource guard)")
			}
			c.v = Value{T: TString, S: l.S + r.S}
		} else {
			c.v = Value{T: TInt, I: it.arith(x.Op, l.I, r.I)}
		}
		it.noteWrite(fr, c)
		return ctlNone
	case IncDec:
		it.beginUnit(fr)
		c := it.lookup(fr, x.Name)
		if x.Inc {
			it.feat("inc")
			c.v = Value{T: TInt, I: it.wrap(c.v.I + 1)}
		} else {
			it.feat("dec")
			c.v = Value{T: TInt, I: it.wrap(c.v.I - 1)}
		}
		it.noteWrite(fr, c)
		return ctlNone
	case SliceSet:
		it.beginUnit(fr)
		c := it.lookup(fr, x.Name)
		it.noteRead(fr, c)
		obj := c.v.Sl
		i := it.eval(fr, x.I)
		v := it.eval(fr, x.V)
		if i.I < 0 {
			it.undef("negative index")
		}
		if i.I > 300 {
			it.undef("index too large")
		}
		if int(i.I) >= len(obj.Elems) {
			if _, r := it.isRanging(obj); r {
				it.undef("resize while ranging")
			}
			if int(i.I) > len(obj.Elems) {
				it.feat("slicegrow:gap")
			} else {
				it.feat("slicegrow:append")
			}
			for len(obj.Elems) <= int(i.I) {
				obj.Elems = append(obj.Elems, Value{T: obj.Elem})
			}
		} else {
			it.feat("sliceset")
		}
		obj.Elems[i.I] = v
		it.noteSliceLen(obj)
		it.noteWrite(fr, obj)
		return ctlNone
	case Print:
		it.beginUnit(fr)
		it.feat(fmt.Sprintf("print:%d", len(x.Args)))
		parts := make([]string, len(x.Args))
		for i, a := range x.Args {
			v := it.eval(fr, a)
			if v.T.IsSlice() {
				it.undef("printing a slice")
			}
			parts[i] = v.Show()
		}
		it.out.WriteString(strings.Join(parts, " "))
		it.out.WriteByte('\n')
		if it.out.Len() > 1<<20 {
			it.undef("output too large")
		}
		return ctlNone
	case Panic:
		it.beginUnit(fr)
		v := it.eval(fr, x.E)
		it.feat("panic")
		if len(it.frames) > 1 {
			it.feat("panic:infunc")
		}
		it.out.WriteString("panic: " + v.Show() + "\n")
		panic(exitErr{1})
	case ExprStmt:
		it.beginUnit(fr)
		if a, ok := x.E.(AppCall); ok {
			it.evalAppStmt(fr, a)
			return ctlNone
		}
		if c, ok := x.E.(Call); ok {
			it.feat("callstmt")
			it.call(fr, c)
			return ctlNone
		}
		it.eval(fr, x.E)
		return ctlNone
	case Return:
		it.beginUnit(fr)
		it.feat(fmt.Sprintf("return:%d", len(x.Values)))
		vals := make([]Value, len(x.Values))
		for i, v := range x.Values {
			vals[i] = it.eval(fr, v)
		}
		it.retVals = vals
		return ctlReturn
	case Break:
		if it.switchDepth > 0 {
			it.undef("break inside switch")
		}
		it.feat("break")
		return ctlBreak
	case Continue:
		it.feat("continue")
		return ctlContinue
	case If:
		it.beginUnit(fr)
		it.feat(fmt.Sprintf("if:elifs=%d,else=%v", len(x.Branches)-1, x.HasElse))
		conds := make([]bool, len(x.Branches))
		for i, br := range x.Branches {
			conds[i] = it.eval(fr, br.Cond).B // all conditions first
		}
		for i, br := range x.Branches {
			if conds[i] {
				return it.execBlock(fr, br.Body, false)
			}
		}
		if x.HasElse {
			return it.execBlock(fr, x.Else, false)
		}
		return ctlNone
	case Switch:
		it.beginUnit(fr)
		it.feat("switch")
		var tag Value
		if x.Tag != nil {
			tag = it.eval(fr, x.Tag)
		} else {
			tag = Value{T: TBool, B: true}
		}
		hits := make([]bool, len(x.Cases))
		for i, c := range x.Cases {
			if c.Default {
				continue
			}
			v := it.eval(fr, c.E)
			hits[i] = it.compare("==", tag, v)
		}
		run := -1
		for i, c := range x.Cases {
			if !c.Default && hits[i] {
				run = i
				break
			}
		}
		if run < 0 {
			for i, c := range x.Cases {
				if c.Default {
					run = i
					it.feat("switch:default")
				}
			}
		}
		if run < 0 {
			return ctlNone
		}
		it.switchDepth++
		c := it.execBlock(fr, x.Cases[run].Body, false)
		it.switchDepth--
		return c
	case For:
		return it.execFor(fr, x)
	case Write:
		it.beginUnit(fr)
		p := it.eval(fr, x.Path)
		d := it.eval(fr, x.Data)
		app := false
		if x.Append != nil {
			app = it.eval(fr, x.Append).B
		}
		it.feat("write")
		if app {
			it.FS[p.S] = append(it.FS[p.S], []byte(d.S+"\n")...)
		} else {
			it.FS[p.S] = []byte(d.S + "\n")
		}
		return ctlNone
	}
	it.undef("interpreter: unsupported statement %T", s)
	return ctlNone
}

func (it *Interp) execFor(fr *frame, x For) ctl {
	saveSwitch := it.switchDepth
	it.switchDepth = 0
	defer func() { it.switchDepth = saveSwitch }()
	switch x.Kind {
	case ForRange:
		it.beginUnit(fr)
		over := it.eval(fr, x.Over)
		it.feat("for:range:" + over.T.String())
		if over.T.IsSlice() {
			if fr.ranging == nil {
				fr.ranging = map[*SliceObj]int{}
			}
			fr.ranging[over.Sl]++
			defer func() { fr.ranging[over.Sl]-- }()
		}
		it.define(fr, x.RangeIdx, Value{T: TInt})
		for i := 0; ; i++ {
			it.step()
			n := len(over.S)
			if over.T.IsSlice() {
				n = len(over.Sl.Elems)
			}
			if i >= n {
				break
			}
			it.define(fr, x.RangeIdx, Value{T: TInt, I: int64(i)})
			if x.RangeVal != "" {
				if over.T.IsSlice() {
					it.define(fr, x.RangeVal, over.Sl.Elems[i])
				} else {
					it.define(fr, x.RangeVal, Value{T: TString, S: over.S[i : i+1]})
				}
			}
			c := it.execBlock(fr, x.Body, false)
			if c == ctlBreak {
				break
			}
			if c == ctlReturn {
				return c
			}
			// the number of evaluations of a range operand is unspecified: a body that changes
			// what the operand denotes makes the program undefined
			if vr, ok := x.Over.(VarRef); ok {
				now := it.lookup(fr, vr.Name).v
				if now.Sl != over.Sl || now.S != over.S {
					it.undef("range operand changed during the loop")
				}
			}
		}
		return ctlNone
	}
	kind := map[ForKind]string{ForEver: "ever", ForCond: "cond", ForThree: "three"}[x.Kind]
	it.feat("for:" + kind)
	if x.Init != nil {
		it.exec(fr, x.Init, false)
	}
	first := true
	for {
		it.step()
		if !first && x.Post != nil {
			it.exec(fr, x.Post, false)
		}
		first = false
		if x.Cond != nil {
			it.beginUnit(fr)
			if !it.eval(fr, x.Cond).B {
				break
			}
		}
		c := it.execBlock(fr, x.Body, false)
		if c == ctlBreak {
			break
		}
		if c == ctlReturn {
			return c
		}
	}
	return ctlNone
}

func featureKeys(m map[string]int) []string {
	ks := make([]string, 0, len(m))
	for k := range m {
		ks = append(ks, k)
	}
	sort.Strings(ks)
	return ks
}

// evalAppStmt: a command chain as a statement writes its output to stdout.
func (it *Interp) evalAppStmt(fr *frame, x AppCall) {
	if it.AppHook == nil {
		it.undef("interpreter: no command hook")
	}
	stages := [][]string{}
	for _, st := range x.Stages {
		argv := []string{st.Name}
		for _, a := range st.Args {
			argv = append(argv, it.eval(fr, a).S)
		}
		stages = append(stages, argv)
	}
	it.feat("appcallstmt")
	out, _ := it.AppHook(stages)
	it.out.WriteString(out)
}
