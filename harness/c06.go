package main

import (
	"fmt"
	"os"
	"path/filepath"
	"strings"
	"time"
)

func init() { register("C06", checkC06) }

// ---- the typing table ----

type offer struct {
	typ   string   // int bool string []int []bool []string void multi
	forms []string // first form is a plain variable (or the only call form)
}

var c06Offers = []offer{
	{"int", []string{"vi", "7", "fi()", "(vi + 1)", "si[0]", "len(vs)", "(fi())"}},
	{"bool", []string{"vb", "true", "fb()", "(vi < 2)", "!vb", "sb[0]", "(fb())"}},
	{"string", []string{"vs", `"lit"`, "fs()", `(vs + "x")`, "nil", "itoa(vi)", "vs[0]", "((fs()))", `""`, "``", "ve", "fe()"}},
	{"[]int", []string{"si", "[]int{1}", "fsi()", "(fsi())"}},
	{"[]bool", []string{"sb", "[]bool{true}"}},
	{"[]string", []string{"ss", `[]string{"a"}`}},
	{"void", []string{"fv()"}},
	{"multi", []string{"f2()"}},
	// a parenthesised expression is one value: a grouped void or multi-value call is never one
	{"void-grouped", []string{"(fv())", "((fv()))"}},
	{"multi-grouped", []string{"(f2())"}},
	// a program call yields three values (stdout, stderr, status); in round brackets it is still not one value
	{"multi3", []string{`@echo("a")`}},
	{"multi3-grouped", []string{`(@echo("a"))`, `((@pwd()))`}},
}

const c06Prelude = `vi := 1
vj := 2
vb := true
vs := "s"
si := []int{1, 2}
sb := []bool{true}
ss := []string{"a"}
var ve error = "e"
func fv() {
}
func f2() (int, int) {
	return 1, 2
}
func fi() int {
	return 1
}
func fb() bool {
	return true
}
func fs() string {
	return "r"
}
func fsi() []int {
	return []int{3}
}
func fe() error {
	return "bad"
}
func f2e() (int, error) {
	return 1, nil
}
func gi(p int) {
}
func gb(p bool) {
}
func gs(p string) {
}
func gsi(p []int) {
}
func ge(p error) {
}
func gss(p []string) {
}
func g2(p int, q string) {
}
func hi(p int) int {
	return p
}
`

var c06PreludeItems = func() [][2]string {
	items := [][2]string{}
	lines := strings.Split(c06Prelude, "\n")
	for i := 0; i < len(lines); i++ {
		l := lines[i]
		if l == "" {
			continue
		}
		if strings.HasPrefix(l, "func ") {
			name := l[5:strings.Index(l, "(")]
			text := l + "\n"
			for i++; lines[i] != "}"; i++ {
				text += lines[i] + "\n"
			}
			items = append(items, [2]string{name, text + "}\n"})
		} else {
			name := l[:strings.Index(l, " ")]
			if name == "var" {
				name = strings.Fields(l)[1]
			}
			items = append(items, [2]string{name, l + "\n"})
		}
	}
	return items
}()

// preludeFor returns only the prelude definitions the body refers to.
func preludeFor(body string) string {
	var b strings.Builder
	for _, it := range c06PreludeItems {
		if wordIn(body, it[0]) {
			b.WriteString(it[1])
		}
	}
	return b.String()
}

func wordIn(s, w string) bool {
	for i := 0; ; {
		j := strings.Index(s[i:], w)
		if j < 0 {
			return false
		}
		j += i
		before := j == 0 || !isIdentByte(s[j-1])
		after := j+len(w) >= len(s) || !isIdentByte(s[j+len(w)])
		if before && after {
			return true
		}
		i = j + 1
	}
}

func isIdentByte(c byte) bool {
	return c == '_' || (c >= '0' && c <= '9') || (c >= 'a' && c <= 'z') || (c >= 'A' && c <= 'Z')
}

type position struct {
	name     string
	tmpl     string   // statement text, $X marks the typed position
	allowed  []string // offered types that must be accepted
	excluded []string // offered types for which nothing is asserted
	varOnly  bool     // only plain variables can be offered
	kind     string   // "stmt" (wrapped in contexts) or "func" (top level only)
}

func c06Positions() []position {
	ps := []position{}
	add := func(name, tmpl string, allowed ...string) {
		ps = append(ps, position{name: name, tmpl: tmpl, allowed: allowed, kind: "stmt"})
	}
	addx := func(name, tmpl string, allowed []string, excluded []string) {
		ps = append(ps, position{name: name, tmpl: tmpl, allowed: allowed, excluded: excluded, kind: "stmt"})
	}
	scal := []string{"int", "bool", "string"}
	slices := []string{"[]int", "[]bool", "[]string"}
	anyval := append(append([]string{}, scal...), slices...)
	for _, op := range []string{"+", "-", "*", "/", "%"} {
		add("arith-left/"+op, "t := $X "+op+" vi", "int")
		add("arith-right/"+op, "t := vi "+op+" $X", "int")
	}
	add("concat-left", "t := $X + vs", "string")
	add("concat-right", "t := vs + $X", "string")
	add("string-minus-left", "t := $X - vs")
	add("string-minus-right", "t := vs - $X")
	add("bool-plus-left", "t := $X + vb")
	add("bool-plus-right", "t := vb + $X")
	for _, op := range []string{"==", "!=", "<", "<=", ">", ">="} {
		add("cmp-int-left/"+op, "t := $X "+op+" vi", "int")
		add("cmp-int-right/"+op, "t := vi "+op+" $X", "int")
	}
	for _, op := range []string{"==", "!="} {
		add("cmp-string-left/"+op, "t := $X "+op+" vs", "string")
		add("cmp-string-right/"+op, "t := vs "+op+" $X", "string")
		add("cmp-bool-left/"+op, "t := $X "+op+" vb", "bool")
		add("cmp-bool-right/"+op, "t := vb "+op+" $X", "bool")
		addx("cmp-slice-left/"+op, "t := $X "+op+" si", nil, []string{"[]int"})
	}
	for _, op := range []string{"<", "<=", ">", ">="} {
		add("cmp-bool-order-left/"+op, "t := $X "+op+" vb")
		add("cmp-bool-order-right/"+op, "t := vb "+op+" $X")
		addx("cmp-string-order-left/"+op, "t := $X "+op+" vs", nil, []string{"string"})
	}
	for _, op := range []string{"&&", "||"} {
		add("logic-left/"+op, "t := $X "+op+" vb", "bool")
		add("logic-right/"+op, "t := vb "+op+" $X", "bool")
		add("logic-right-in-cond/"+op, "if vb "+op+" $X {\n}", "bool")
		add("logic-third/"+op, "t := vb "+op+" vb "+op+" $X", "bool")
	}
	add("cmp-chain-third/==", "t := vi < 2 == $X", "bool")
	add("cmp-chain-third/!=", "t := vi >= vj != $X", "bool")
	add("cmp-chain-first/<", "t := $X < 2 == vb", "int")
	add("cmp-chain-first/==", "t := $X == vj == vb", "int")
	add("cmp-chain-string-third", "t := vs == \"a\" != $X", "bool")
	add("cmp-chain-in-cond", "if vi > 0 == $X {\n}", "bool")
	add("not", "t := !$X", "bool")
	// "!" binds tighter than a comparison: !x == 0 negates x, whatever follows
	add("not-then-equal-int", "t := !$X == 0")
	add("not-then-greater-int", "t := !$X > 0")
	add("not-then-equal-string", "t := !$X == \"a\"")
	add("not-then-equal-bool", "t := !$X == true", "bool")
	add("not-then-compare-in-condition", "if !$X == 0 {\n}")
	add("not-then-compare-in-loop", "for !$X >= 3 {\n\tbreak\n}")
	add("not-then-compare-right-of-or", "t := vb || !$X != 2")
	add("cond-if", "if $X {\n}", "bool")
	add("cond-else-if", "if vb {\n} else if $X {\n}", "bool")
	add("cond-for", "for $X {\n\tbreak\n}", "bool")
	add("cond-for-3-only-cond", "for ; $X; {\n\tbreak\n}", "bool")
	add("cond-for-3", "for k := 0; $X; k++ {\n\tbreak\n}", "bool")
	add("switch-case-int", "switch vi {\ncase $X:\n}", "int")
	add("switch-case-int-second", "switch vi {\ncase 1:\ncase $X:\n}", "int")
	add("switch-case-string", "switch vs {\ncase $X:\n}", "string")
	add("switch-case-bool", "switch vb {\ncase $X:\n}", "bool")
	add("switch-case-tagless", "switch {\ncase $X:\n}", "bool")
	add("switch-case-true", "switch true {\ncase $X:\n}", "bool")
	add("switch-tag-vs-int-case", "switch $X {\ncase 1:\n}", "int")
	add("switch-tag-vs-string-case", "switch $X {\ncase \"a\":\n}", "string")
	add("switch-tag-default-only", "switch $X {\ndefault:\n}", scal...)
	add("index-slice-read", "t := si[$X]", "int")
	add("index-slice-write", "si[$X] = 1", "int")
	add("index-string", "t := vs[$X]", "int")
	add("index-string-lo", "t := vs[$X:]", "int")
	add("index-string-hi", "t := vs[:$X]", "int")
	add("index-string-lo2", "t := vs[$X:1]", "int")
	add("index-string-hi2", "t := vs[0:$X]", "int")
	ps = append(ps, position{name: "subscripted-value", tmpl: "t := $X[0]", allowed: []string{"string", "[]int", "[]bool", "[]string"}, varOnly: true, kind: "stmt"})
	add("slicelit-int", "t := []int{$X}", "int")
	add("slicelit-int-second", "t := []int{1, $X}", "int")
	add("slicelit-bool", "t := []bool{$X}", "bool")
	add("slicelit-string", "t := []string{$X}", "string")
	add("var-int", "var t int = $X", "int")
	add("var-bool", "var t bool = $X", "bool")
	add("var-string", "var t string = $X", "string")
	add("var-error", "var t error = $X", "string")
	add("var-slice-int", "var t []int = $X", "[]int")
	add("var-slice-string", "var t []string = $X", "[]string")
	add("var-two-second", "var t, u int = 1, $X", "int")
	add("var-two-from-call", "var t, u int = $X", "multi")
	add("short-any", "t := $X", anyval...)
	add("short-two-from-call", "t, u := $X", "multi")
	add("short-two-second", "t, u := 1, $X", anyval...)
	// := re-using a variable of the SAME scope must keep its type (in an inner block Go would shadow: not asserted)
	ps = append(ps, position{name: "short-partial-redefinition-int", tmpl: "vi, nn := $X, 2\n", allowed: []string{"int"}, kind: "func"})
	ps = append(ps, position{name: "short-partial-redefinition-string", tmpl: "nn, vs := 2, $X\n", allowed: []string{"string"}, kind: "func"})
	ps = append(ps, position{name: "short-partial-redefinition-slice", tmpl: "si, nn := $X, 2\n", allowed: []string{"[]int"}, kind: "func"})
	add("var-untyped", "var t = $X", anyval...)
	add("assign-int", "vi = $X", "int")
	add("assign-bool", "vb = $X", "bool")
	add("assign-string", "vs = $X", "string")
	add("assign-error", "ve = $X", "string")
	add("compound-error/+", "ve += $X", "string")
	add("assign-two-second-error", "vi, ve = 1, $X", "string")
	add("assign-string-from-error-pair", "vi, vs = f2e()\nvs = $X", "string")
	add("assign-error-pair-then", "vi, ve = f2e()\nve = $X", "string")
	add("cmp-error-nil", "t := ve == $X", "string")
	add("arg-string-to-error-param", "ge($X)", "string")
	add("assign-slice-int", "si = $X", "[]int")
	add("assign-slice-string", "ss = $X", "[]string")
	add("assign-two-second", "vi, vb = 1, $X", "bool")
	add("assign-two-from-call", "vi, vj = $X", "multi")
	add("assign-three-from-call", "vi, vj, vb = $X")
	for _, op := range []string{"+", "-", "*", "/", "%"} {
		add("compound-int/"+op, "vi "+op+"= $X", "int")
	}
	add("compound-string/+", "vs += $X", "string")
	add("compound-string/-", "vs -= $X")
	add("compound-bool/+", "vb += $X")
	add("compound-slice/+", "si += $X")
	ps = append(ps, position{name: "incdec/++", tmpl: "$X++", allowed: []string{"int"}, varOnly: true, kind: "stmt"})
	ps = append(ps, position{name: "incdec/--", tmpl: "$X--", allowed: []string{"int"}, varOnly: true, kind: "stmt"})
	add("slice-elem-int", "si[0] = $X", "int")
	add("slice-elem-bool", "sb[0] = $X", "bool")
	add("slice-elem-string", "ss[0] = $X", "string")
	add("arg-int", "gi($X)", "int")
	add("arg-bool", "gb($X)", "bool")
	add("arg-string", "gs($X)", "string")
	add("arg-slice-int", "gsi($X)", "[]int")
	add("arg-slice-string", "gss($X)", "[]string")
	add("arg-second", "g2(1, $X)", "string")
	add("arg-first-of-two", "g2($X, \"a\")", "int")
	add("arg-of-valued-call", "t := hi($X)", "int")
	add("arg-nested", "t := hi(hi($X))", "int")
	addx("arg-arity-extra", "gi(1, $X)", nil, nil)
	addx("arg-arity-single-for-two", "g2($X)", nil, []string{"multi"})
	add("len", "t := len($X)", "string", "[]int", "[]bool", "[]string")
	add("itoa", "t := itoa($X)", "int")
	add("exists", "t := exists($X)", "string")
	add("read", "t := read($X)", "string")
	add("write-path", "write($X, vs)", "string")
	add("write-data", "write(vs, $X)", "string")
	add("write-append", "write(vs, vs, $X)", "bool")
	add("copy-src-int", "t := copy(si, $X)", "[]int")
	add("copy-src-string", "t := copy(ss, $X)", "[]string")
	ps = append(ps, position{name: "copy-dst", tmpl: "t := copy($X, si)", allowed: []string{"[]int"}, varOnly: true, kind: "stmt"})
	add("input-prompt", "t := input($X)", "string")
	addx("print-only", "print($X)", scal, []string{"[]int", "[]bool", "[]string", "multi"})
	addx("print-second", "print(vi, $X)", scal, []string{"[]int", "[]bool", "[]string", "multi"})
	add("range-two", "for i, v := range $X {\n}", "string", "[]int", "[]bool", "[]string")
	add("range-one", "for i := range $X {\n}", "string", "[]int", "[]bool", "[]string")
	add("for-init-value", "for k := $X; k < 3; k++ {\n\tbreak\n}", "int")
	add("for-post-value", "for k := 0; k < 3; k += $X {\n\tbreak\n}", "int")
	// return positions
	nests := map[string][2]string{
		"top":     {"", ""},
		"if":      {"if vb {\n", "}\nreturn $D\n"},
		"else":    {"if vb {\n} else {\n", "}\nreturn $D\n"},
		"elseif":  {"if vb {\n} else if vb {\n", "}\nreturn $D\n"},
		"for":     {"for k := 0; k < 1; k++ {\n", "}\nreturn $D\n"},
		"switch":  {"switch vi {\ncase 1:\n", "}\nreturn $D\n"},
		"default": {"switch vi {\ndefault:\n", "}\nreturn $D\n"},
		"for-if":  {"for k := 0; k < 1; k++ {\nif vb {\n", "}\n}\nreturn $D\n"},
		// directly in the function body but not its last statement
		"early":             {"", "print(1)\nreturn $D\n"},
		"early-after-stmt":  {"print(0)\n", "print(1)\nreturn $D\n"},
		"early-after-block": {"if vb {\n}\n", "for k := 0; k < 1; k++ {\n}\nreturn $D\n"},
		"early-twice":       {"", "return $D\nprint(1)\nreturn $D\n"},
	}
	defaults := map[string]string{"int": "0", "bool": "false", "string": `""`, "[]int": "[]int{}"}
	for _, nest := range []string{"top", "if", "else", "elseif", "for", "switch", "default", "for-if", "early", "early-after-stmt", "early-after-block", "early-twice"} {
		n := nests[nest]
		for _, rt := range []string{"int", "bool", "string", "[]int"} {
			t := "func r() " + rt + " {\n" + n[0] + "return $X\n" + strings.ReplaceAll(n[1], "$D", defaults[rt]) + "}\n"
			ps = append(ps, position{name: "return-" + rt + "/" + nest, tmpl: t, allowed: []string{rt}, kind: "func"})
		}
		t := "func r() (int, string) {\n" + n[0] + "return 1, $X\n" + strings.ReplaceAll(n[1], "$D", `0, ""`) + "}\n"
		ps = append(ps, position{name: "return-second-of-two/" + nest, tmpl: t, allowed: []string{"string"}, kind: "func"})
		t = "func r() ([]string, error) {\n" + n[0] + "return $X, \"e\"\n" + strings.ReplaceAll(n[1], "$D", `[]string{}, ""`) + "}\n"
		ps = append(ps, position{name: "return-slice-first-of-two/" + nest, tmpl: t, allowed: []string{"[]string"}, kind: "func"})
		t = "func r() error {\n" + n[0] + "return $X\n" + strings.ReplaceAll(n[1], "$D", `""`) + "}\n"
		ps = append(ps, position{name: "return-error/" + nest, tmpl: t, allowed: []string{"string"}, kind: "func"})
		t = "func r() (int, int) {\n" + n[0] + "return $X\n" + strings.ReplaceAll(n[1], "$D", "0, 0") + "}\n"
		ps = append(ps, position{name: "return-one-for-two/" + nest, tmpl: t, excluded: []string{"multi"}, kind: "func"})
		t = "func r() int {\n" + n[0] + "return 1, $X\n" + strings.ReplaceAll(n[1], "$D", "0") + "}\n"
		ps = append(ps, position{name: "return-two-for-one/" + nest, tmpl: t, kind: "func"})
		if nest != "top" {
			t = "func r() {\n" + n[0] + "return $X\n" + strings.ReplaceAll(n[1], "return $D\n", "") + "}\n"
		} else {
			t = "func r() {\nreturn $X\n}\n"
		}
		ps = append(ps, position{name: "return-in-void/" + nest, tmpl: t, kind: "func"})
	}
	return ps
}

var c06Contexts = []struct {
	name       string
	open, shut string
}{
	{"top", "", ""},
	{"func", "func ctx() {\n", "}\nctx()\n"},
	{"deadfunc", "func ctx() {\n", "}\n"}, // a function nobody calls: removed before the converters see it, so only the parser can reject
	{"if", "if vb {\n", "}\n"},
	{"for", "for kk := 0; kk < 1; kk++ {\n", "}\n"},
	{"switch", "switch vi {\ncase 1:\n", "}\n"},
}

type c06Cell struct {
	key    string
	src    string
	expect string // accept | reject
	extra  map[string]string // further files of the program (imported ones)
}

func hexKey(s string) string {
	var b strings.Builder
	for i := 0; i < len(s); i++ {
		c := s[i]
		if (c >= 'a' && c <= 'z') || (c >= 'A' && c <= 'Z') || (c >= '0' && c <= '9') || c == '_' || c == '.' || c == '-' {
			b.WriteByte(c)
		} else {
			fmt.Fprintf(&b, "~%02x", c)
		}
	}
	return b.String()
}

func c06Cells(thorough bool) []c06Cell {
	cells := []c06Cell{}
	contains := func(l []string, s string) bool {
		for _, x := range l {
			if x == s {
				return true
			}
		}
		return false
	}
	for _, p := range c06Positions() {
		for _, o := range c06Offers {
			if contains(p.excluded, o.typ) || contains(p.excluded, strings.TrimSuffix(o.typ, "-grouped")) {
				continue
			}
			if strings.HasPrefix(o.typ, "multi3") && contains(p.excluded, "multi") {
				continue
			}
			forms := o.forms
			if p.varOnly {
				if strings.HasPrefix(o.typ, "void") || strings.HasPrefix(o.typ, "multi") {
					continue
				}
				forms = forms[:1]
			}
			for fi, form := range forms {
				if form == "nil" && (contains(p.allowed, "[]int") || contains(p.allowed, "[]string") || contains(p.allowed, "[]bool")) {
					continue // nil where a slice is wanted: README (nil = empty string) and Go (nil slice) disagree; nothing asserted
				}
				expect := "reject"
				if contains(p.allowed, o.typ) {
					expect = "accept"
				}
				body := strings.ReplaceAll(p.tmpl, "$X", form)
				if p.kind == "func" {
					cells = append(cells, c06Cell{key: fmt.Sprintf("%s/%s#%d/top", p.name, o.typ, fi), src: preludeFor(body) + body, expect: expect})
					continue
				}
				for ci, ctx := range c06Contexts {
					if !thorough && fi > 0 && ci != (fi+len(p.name))%len(c06Contexts) {
						continue // quick tier: secondary spellings visit one context each
					}
					src := preludeFor(ctx.open+body+ctx.shut) + ctx.open + body + "\n" + ctx.shut
					cells = append(cells, c06Cell{key: fmt.Sprintf("%s/%s#%d/%s", p.name, o.typ, fi, ctx.name), src: src, expect: expect})
				}
			}
		}
	}
	// fixed cells that do not depend on an offered value
	fixed := map[string][2]string{
		"fixed/bracketless-func-with-arg":   {"func nb {\n}\nnb(1)\n", "reject"},
		"fixed/bracketless-func-two-args":   {"func nb {\n}\nnb(vi, \"a\")\n", "reject"},
		"fixed/bracketless-func-no-arg":     {"func nb {\n}\nnb()\n", "accept"},
		"fixed/bracketless-valued-with-arg": {"func nbv int {\n\treturn 1\n}\nt := nbv(2)\n", "reject"},
		"fixed/arity-missing":         {"gi()\n", "reject"},
		"fixed/arity-extra":           {"gi(1, 2)\n", "reject"},
		"fixed/arity-two-missing":     {"g2(1)\n", "reject"},
		"fixed/arity-ok":              {"g2(1, \"a\")\n", "accept"},
		"fixed/void-statement":        {"fv()\n", "accept"},
		"fixed/valued-call-statement": {"fi()\n", "accept"},
		"fixed/multi-call-statement":  {"f2()\n", "accept"},
		"fixed/three-from-two":        {"a, b, c := f2()\n", "reject"},
		"fixed/one-from-two":          {"a := f2()\n", "reject"},
		"fixed/two-values-one-var":    {"a := 1, 2\n", "reject"},
		"fixed/one-value-two-vars":    {"a, b := 1\n", "reject"},
		"fixed/assign-count":          {"vi, vj = 1\n", "reject"},
		"fixed/return-too-many":       {"func r() int {\nreturn 1, 2\n}\n", "reject"},
		"fixed/return-too-few":        {"func r() (int, int) {\nreturn 1\n}\n", "reject"},
		"fixed/value-list-with-program-call-second": {"t, u := 1, @echo(\"a\")\n", "reject"},
		"fixed/value-list-with-program-call-first":  {"t, u := @echo(\"a\"), 1\n", "reject"},
		"fixed/value-list-with-pipeline":            {"var t, u = @echo(\"b\") | @cat(), vi\n", "reject"},
		"fixed/assign-list-with-program-call":       {"vs, vi = @echo(\"a\"), 1\n", "reject"},
		"fixed/program-call-three-values-ok":        {"t, u, w := @echo(\"a\")\nprint(t, u, w)\n", "accept"},
		"fixed/program-call-two-values":             {"t, u := @echo(\"a\")\n", "reject"},
		// a program call yields three values; where one string is required it is refused like any multi-value call
		"fixed/program-call-as-argument":      {"func takes(p string) int {\n\treturn len(p)\n}\nt := takes(@echo(\"hi\"))\n", "reject"},
		"fixed/program-call-as-operand":       {"t := \"say: \" + @echo(\"hi\")\n", "reject"},
		"fixed/program-call-as-left-operand":  {"t := @echo(\"hi\") + \"!\"\n", "reject"},
		"fixed/program-call-compared":         {"if @echo(\"hi\") == \"hi\" {\n}\n", "reject"},
		"fixed/program-call-as-element":       {"t := []string{@echo(\"a\")}\n", "reject"},
		"fixed/program-call-as-element-store": {"ss[0] = @echo(\"a\")\n", "reject"},
		"fixed/program-call-ranged":           {"for i, ch := range @echo(\"xyz\") {\n}\n", "reject"},
		"fixed/program-call-in-len":           {"t := len(@echo(\"hi\"))\n", "reject"},
		"fixed/program-call-in-exists":        {"t := exists(@pwd())\n", "reject"},
		"fixed/program-call-in-read":          {"t := read(@echo(\"f\"))\n", "reject"},
		"fixed/program-call-in-write":         {"write(@echo(\"f\"), \"x\")\n", "reject"},
		"fixed/program-call-as-switch-tag":    {"switch @echo(\"a\") {\ncase \"a\":\n}\n", "reject"},
		"fixed/program-call-as-case":          {"switch vs {\ncase @echo(\"a\"):\n}\n", "reject"},
		"fixed/program-call-returned":         {"func r() string {\n\treturn @echo(\"a\")\n}\n", "reject"},
		"fixed/program-call-compound":         {"vs += @echo(\"a\")\n", "reject"},
		"fixed/program-call-assigned-to-one":  {"vs = @echo(\"a\")\n", "reject"},
		"fixed/program-call-defined-to-one":   {"t := @echo(\"a\")\n", "reject"},
		"fixed/program-call-in-itoa":          {"t := itoa(@echo(\"1\"))\n", "reject"},
		"fixed/program-call-subscripted":      {"t := @echo(\"abc\")[1]\n", "reject"},
		"fixed/program-call-in-print-ok":      {"print(@echo(\"a\"))\n", "accept"},
		"fixed/program-call-in-program-call-ok": {"@echo(@echo(\"a\"))\n", "accept"},
		"fixed/return-ok-two":         {"func r() (int, string) {\nreturn 1, \"a\"\n}\n", "accept"},
		"fixed/write-too-few":         {"write(vs)\n", "reject"},
		"fixed/write-too-many":        {"write(vs, vs, vb, vb)\n", "reject"},
		"fixed/len-none":              {"t := len()\n", "reject"},
		"fixed/len-two":               {"t := len(vs, vs)\n", "reject"},
		"fixed/copy-one":              {"t := copy(si)\n", "reject"},
		"fixed/copy-mismatch":         {"t := copy(si, ss)\n", "reject"},
		"fixed/copy-literal-dst":      {"t := copy([]int{1}, si)\n", "reject"},
		"fixed/itoa-two":              {"t := itoa(1, 2)\n", "reject"},
		"fixed/input-two":             {"t := input(vs, vs)\n", "reject"},
		"fixed/input-none":            {"t := input()\n", "accept"},
		"fixed/print-none":            {"print()\n", "accept"},
		"fixed/slice-range-on-slice":  {"t := si[0:1]\n", "reject"},
		"fixed/switch-tag-slice":      {"switch si {\ndefault:\n}\n", "reject"},
		"fixed/switch-two-defaults":   {"switch vi {\ndefault:\ndefault:\n}\n", "reject"},
		"fixed/redeclare-typed-other": {"vi, nn := 1, 2\nvar vi, mm string = \"a\", \"b\"\n", "reject"},
		"fixed/for-init-not-assign":   {"for print(1); vb; vi++ {\nbreak\n}\n", "reject"},
		"fixed/for-post-not-assign":   {"for k := 0; vb; print(1) {\nbreak\n}\n", "reject"},
	}
	for _, k := range func() []string {
		m := map[string]string{}
		for k := range fixed {
			m[k] = ""
		}
		return sortedKeys(m)
	}() {
		for _, ctx := range c06Contexts {
			if strings.HasPrefix(fixed[k][0], "func ") && ctx.name != "top" {
				continue
			}
			cells = append(cells, c06Cell{key: k + "/" + ctx.name, src: preludeFor(ctx.open+fixed[k][0]+ctx.shut) + ctx.open + fixed[k][0] + ctx.shut, expect: fixed[k][1]})
		}
	}
	// typed positions whose callee lives in another file: two importers in different directories write the same
	// import path and mean different files, whose functions of one name take different types
	{
		lay := func(textsArg, numbersArg string) map[string]string {
			return map[string]string{
				"texts/util.tsh":     "func Width(s string) int {\n\treturn len(s)\n}\n",
				"numbers/util.tsh":   "func Width(n int) int {\n\treturn n * 2\n}\n",
				"texts/report.tsh":   "import u \"util.tsh\"\n\nfunc Show() int {\n\treturn u.Width(" + textsArg + ")\n}\n",
				"numbers/report.tsh": "import u \"util.tsh\"\n\nfunc Show() int {\n\treturn u.Width(" + numbersArg + ")\n}\n",
			}
		}
		for _, order := range [][2]string{{"texts", "numbers"}, {"numbers", "texts"}} {
			main := "import (\n\ta \"" + order[0] + "/report.tsh\"\n\tb \"" + order[1] + "/report.tsh\"\n)\n\nprint(a.Show(), b.Show())\n"
			for _, c2 := range []struct{ k, t, n, e string }{
				{"both-right", `"twenty"`, "20", "accept"}, {"texts-gets-int", "20", "20", "reject"}, {"numbers-gets-string", `"twenty"`, `"twenty"`, "reject"},
				{"both-wrong", "20", `"twenty"`, "reject"},
			} {
				cells = append(cells, c06Cell{key: "fixed/same-import-path-other-file/" + order[0] + "-first/" + c2.k, src: main, expect: c2.e, extra: lay(c2.t, c2.n)})
			}
		}
	}
	return cells
}

// transpileBoth transpiles src for both targets in a private directory.
func transpileBoth(src string, extra map[string]string) (TResult, TResult, string) {
	dir := newSandbox()
	defer os.RemoveAll(dir)
	for n, s := range extra {
		full := filepath.Join(dir, n)
		os.MkdirAll(filepath.Dir(full), 0o755)
		os.WriteFile(full, []byte(s), 0o644)
	}
	mainPath := filepath.Join(dir, "main.tsh")
	os.WriteFile(mainPath, []byte(src), 0o644)
	a := TranspileFile(mainPath, Bash, 30*time.Second)
	b := TranspileFile(mainPath, Batch, 30*time.Second)
	return a, b, dir
}

func verdictOf(r TResult) string {
	switch {
	case r.Hang:
		return "hang"
	case r.Panic != "":
		return "panic"
	case r.Err != nil:
		return "reject"
	case r.Script == "":
		return "empty"
	}
	return "accept"
}

// importedVariant wraps a cell's program into an imported file: name resolution then runs with a
// non-empty prefix, the verdict must stay the same.
func importedVariant(src string) (string, map[string]string) {
	return "import m \"lib.tsh\"\n\nprint(1)\n", map[string]string{"lib.tsh": src}
}

func checkC06(c *Check) {
	c.Rule = "exhaustive typing table: every typed position of the grammar x every offered type (int, bool, string, []int, []bool, []string, void call, 2-value call, program call (3 values), the last three also in round brackets; error-typed variables, parameters and results; empty literals; several spellings each) x enclosing context (top level, function, function nobody calls, if, for, switch case), everything else in the program well typed; expected verdict from Go's typing rules / the README signatures; both targets must agree; plus (thorough) well-typed generated programs with exactly one operand/condition/argument replaced by a value of another type. Non-trivial = every cell (each is a distinct ill- or well-typed program); distinct = SHA-256 of the source"
	c.Assumptions = []string{"the expected verdicts encode Go's typing rules for the shared syntax and the README's builtin signatures", "excluded as unspecified: ordering of strings, argument type of panic, equality of slices, printing slices/multi-values, multi-value spread"}
	runProbes(c, bashProbeJudge)
	cells := c06Cells(c.Thorough())
	c.Extra["table_cells"] = len(cells)
	c.Exhaustive = c.Thorough()
	accepts, rejects := 0, 0
	type outc struct{ a, b string }
	res := make([]outc, len(cells))
	parallelDo(len(cells), 16, func(i int) {
		cell := cells[i]
		a, b, dir := transpileBoth(cell.src, cell.extra)
		va, vb := verdictOf(a), verdictOf(b)
		res[i] = outc{va, vb}
		if cell.extra == nil && (i%5 == 0 || strings.HasPrefix(cell.key, "fixed/")) {
			msrc, extra := importedVariant(cell.src)
			ia, ib, idir := transpileBoth(msrc, extra)
			c.Eval("imported\x00"+cell.src, true)
			if verdictOf(ia) != cell.expect || verdictOf(ib) != cell.expect {
				d := ""
				if ia.Err != nil {
					d = stripDir(ia.Err.Error(), idir)
				}
				c.Violation("imported/"+cell.key, fmt.Sprintf("the same program as an imported file: expected %s, bash=%s batch=%s %s", cell.expect, verdictOf(ia), verdictOf(ib), d), map[string]string{"main.tsh": msrc, "lib.tsh": cell.src})
			}
		}
		c.Eval(cell.src, true)
		files := map[string]string{"main.tsh": cell.src, "expected": cell.expect}
		for n, x := range cell.extra {
			files[n] = x
		}
		detail := func(r TResult) string {
			if r.Err != nil {
				return stripDir(r.Err.Error(), dir)
			}
			if r.Panic != "" {
				return "panic: " + firstLine(r.Panic)
			}
			return ""
		}
		if va != cell.expect {
			files["bash.detail"] = detail(a) + a.Panic
			c.Violation("bash/"+cell.key, fmt.Sprintf("expected %s, Bash target: %s %s", cell.expect, va, detail(a)), files)
		}
		if vb != cell.expect {
			files["batch.detail"] = detail(b) + b.Panic
			c.Violation("batch/"+cell.key, fmt.Sprintf("expected %s, Batch target: %s %s", cell.expect, vb, detail(b)), files)
		}
	})
	for i, r := range res {
		if r.a == "accept" {
			accepts++
		} else {
			rejects++
		}
		if i%977 == 0 {
			c.Sample(map[string]interface{}{"key": cells[i].key, "expected": cells[i].expect, "bash": r.a, "batch": r.b, "source": cells[i].src})
		}
	}
	c.Extra["observed_accepts"] = accepts
	c.Extra["observed_rejects"] = rejects
	if c.Thorough() {
		c06Mutated(c, 20000)
	} else {
		c06Mutated(c, 1500)
	}
}

// c06Mutated: well-typed generated programs with exactly one operand,
// condition or call argument replaced by a leaf of another scalar type.
func c06Mutated(c *Check, n int) {
	cfg := GenCfg{MaxTop: 5, MaxBlock: 3, MaxDepth: 2, ExprDepth: 2, MaxFuncs: 3, Slices: true, StringOps: true}
	type job struct {
		key       string
		orig, mut string
	}
	jobs := []job{}
	for i := 0; len(jobs) < n && i < 4*n; i++ {
		seed := c.Seed*6000011 + int64(i)
		g := NewGen(seed, cfg)
		p := g.Program()
		// count candidate slots
		slots := 0
		(&Rewriter{Expr: func(e Expr, slot string) Expr {
			if slot == "operand" || slot == "cond" || slot == "arg" || slot == "index" {
				if leafType(e) != TVoid {
					slots++
				}
			}
			return e
		}}).Program(p)
		if slots == 0 {
			continue
		}
		pick := int(seed % int64(slots))
		if pick < 0 {
			pick = -pick
		}
		k := 0
		var what string
		mut := (&Rewriter{Expr: func(e Expr, slot string) Expr {
			if slot == "operand" || slot == "cond" || slot == "arg" || slot == "index" {
				if t := leafType(e); t != TVoid {
					if k == pick {
						k++
						var repl Expr
						switch t {
						case TInt:
							repl = []Expr{BoolLit{true}, StrLit{V: "zz"}}[int(seed)&1]
						case TBool:
							repl = []Expr{IntLit{3}, StrLit{V: "zz"}}[int(seed)&1]
						default:
							repl = []Expr{IntLit{3}, BoolLit{false}}[int(seed)&1]
						}
						what = fmt.Sprintf("%s slot: %s -> %s", slot, renderExpr(e), renderExpr(repl))
						return repl
					}
					k++
				}
			}
			return e
		}}).Program(p)
		jobs = append(jobs, job{fmt.Sprintf("mutated/seed=%d/%s", seed, what), RenderFile(p.Files[0]), RenderFile(mut.Files[0])})
	}
	parallelDo(len(jobs), 16, func(i int) {
		j := jobs[i]
		a, b, dir := transpileBoth(j.mut, nil)
		c.Eval(j.mut, true)
		va, vb := verdictOf(a), verdictOf(b)
		if va != "reject" || vb != "reject" {
			oa, ob, _ := transpileBoth(j.orig, nil)
			if verdictOf(oa) != "accept" || verdictOf(ob) != "accept" {
				c.Inconclusive("mutation base program not accepted (belongs to C01-C03)")
				return
			}
			_ = dir
			c.Violation(j.key, fmt.Sprintf("program with one ill-typed position: bash=%s batch=%s (expected reject/reject)", va, vb), map[string]string{"main.tsh": j.mut, "original.tsh": j.orig})
		}
	})
	c.Extra["mutated_programs"] = len(jobs)
}

// leafType returns the scalar type of a literal/variable-free leaf that can be
// replaced safely (literals only: their type is known without an environment).
func leafType(e Expr) Type {
	switch e.(type) {
	case IntLit:
		return TInt
	case BoolLit:
		return TBool
	case StrLit:
		return TString
	}
	return TVoid
}
