package main

import (
	"fmt"
	"os"
	"os/exec"
	"path/filepath"
	"strconv"
	"strings"
)

// Oracle self-check against the real Go toolchain (scalar and function
// fragment): RefLang programs are rendered to real Go with the documented
// deviations made explicit (eager and()/or() helpers, hoisted if-chain and
// switch-case conditions, pr() printing bools as 1/0, lit() keeping integer
// literals out of Go's constant arithmetic), compiled and run once; the
// outputs must equal the reference interpreter's. A disagreement is an oracle
// fault, never a violation.

type goRenderer struct {
	b   strings.Builder
	tmp int
	ok  bool
}

func (g *goRenderer) fresh(prefix string) string {
	g.tmp++
	return fmt.Sprintf("%s%d_", prefix, g.tmp)
}

func goIdent(n string) string { return "v_" + n }
func goFunc(n string) string  { return "f_" + n }

func goType(t Type) string {
	switch t {
	case TInt:
		return "int"
	case TBool:
		return "bool"
	case TString:
		return "string"
	}
	return "UNSUPPORTED"
}

func (g *goRenderer) expr(e Expr) string {
	switch x := e.(type) {
	case IntLit:
		return "lit(" + strconv.FormatInt(x.V, 10) + ")"
	case BoolLit:
		return strconv.FormatBool(x.V)
	case StrLit:
		return strconv.Quote(x.V)
	case NilLit:
		return `""`
	case VarRef:
		return goIdent(x.Name)
	case Group:
		return "(" + g.expr(x.E) + ")"
	case Not:
		return "(!" + g.expr(x.E) + ")"
	case Bin:
		return "(" + g.expr(x.L) + " " + x.Op + " " + g.expr(x.R) + ")"
	case Cmp:
		return "(" + g.expr(x.L) + " " + x.Op + " " + g.expr(x.R) + ")"
	case Logic:
		if x.Op == "&&" {
			return "and(" + g.expr(x.L) + ", " + g.expr(x.R) + ")"
		}
		return "or(" + g.expr(x.L) + ", " + g.expr(x.R) + ")"
	case Call:
		if x.Alias != "" {
			g.ok = false
		}
		args := make([]string, len(x.Args))
		for i, a := range x.Args {
			args[i] = g.expr(a)
		}
		return goFunc(x.Fn) + "(" + strings.Join(args, ", ") + ")"
	case Itoa:
		return "strconv.Itoa(" + g.expr(x.E) + ")"
	case Len:
		return "len(" + g.expr(x.E) + ")"
	}
	g.ok = false
	return "UNSUPPORTED"
}

func (g *goRenderer) line(ind int, s string) {
	g.b.WriteString(strings.Repeat("\t", ind) + s + "\n")
}

func (g *goRenderer) exprs(es []Expr) string {
	parts := make([]string, len(es))
	for i, e := range es {
		parts[i] = g.expr(e)
	}
	return strings.Join(parts, ", ")
}

func (g *goRenderer) use(ind int, names []string) {
	for _, n := range names {
		g.line(ind, "_ = "+goIdent(n))
	}
}

func (g *goRenderer) block(ind int, body []Stmt) {
	for _, s := range body {
		g.stmt(ind, s)
	}
}

func (g *goRenderer) simple(s Stmt) string {
	switch x := s.(type) {
	case VarDecl:
		names := make([]string, len(x.Names))
		for i, n := range x.Names {
			names[i] = goIdent(n)
		}
		if len(x.Values) == 0 {
			return "var " + strings.Join(names, ", ") + " " + goType(x.Type)
		}
		if x.Short {
			return strings.Join(names, ", ") + " := " + g.exprs(x.Values)
		}
		if x.Type != TVoid {
			return "var " + strings.Join(names, ", ") + " " + goType(x.Type) + " = " + g.exprs(x.Values)
		}
		return "var " + strings.Join(names, ", ") + " = " + g.exprs(x.Values)
	case Assign:
		names := make([]string, len(x.Names))
		for i, n := range x.Names {
			names[i] = goIdent(n)
		}
		return strings.Join(names, ", ") + " = " + g.exprs(x.Values)
	case OpAssign:
		return goIdent(x.Name) + " " + x.Op + "= " + g.expr(x.V)
	case IncDec:
		if x.Inc {
			return goIdent(x.Name) + "++"
		}
		return goIdent(x.Name) + "--"
	}
	g.ok = false
	return "UNSUPPORTED"
}

func (g *goRenderer) stmt(ind int, s Stmt) {
	switch x := s.(type) {
	case VarDecl:
		// a := with partial redefinition is rendered verbatim; Go has the same rule
		g.line(ind, g.simple(x))
		g.use(ind, x.Names)
	case Assign, OpAssign, IncDec:
		g.line(ind, g.simple(x))
	case Print:
		g.line(ind, "pr("+g.exprs(x.Args)+")")
	case Panic:
		g.line(ind, "doPanic("+g.expr(x.E)+")")
	case ExprStmt:
		if _, isCall := x.E.(Call); isCall {
			g.line(ind, g.expr(x.E))
		} else {
			// Go rejects an unused value; "_ = e" evaluates e once, which is the meaning under test
			g.line(ind, "_ = "+g.expr(x.E))
		}
	case Return:
		g.line(ind, "return "+g.exprs(x.Values))
	case Break:
		g.line(ind, "break")
	case Continue:
		g.line(ind, "continue")
	case If:
		// all conditions first, in order
		g.line(ind, "{")
		cs := make([]string, len(x.Branches))
		for i, br := range x.Branches {
			cs[i] = g.fresh("c")
			g.line(ind+1, cs[i]+" := "+g.expr(br.Cond))
		}
		for i, br := range x.Branches {
			if i == 0 {
				g.line(ind+1, "if "+cs[i]+" {")
			} else {
				g.line(ind+1, "} else if "+cs[i]+" {")
			}
			g.block(ind+2, br.Body)
		}
		if x.HasElse {
			g.line(ind+1, "} else {")
			g.block(ind+2, x.Else)
		}
		g.line(ind+1, "}")
		g.line(ind, "}")
	case Switch:
		g.line(ind, "{")
		tag := g.fresh("t")
		if x.Tag != nil {
			g.line(ind+1, tag+" := "+g.expr(x.Tag))
		} else {
			g.line(ind+1, tag+" := true")
		}
		g.line(ind+1, "_ = "+tag)
		hits := []string{}
		for _, c := range x.Cases {
			if c.Default {
				hits = append(hits, "")
				continue
			}
			h := g.fresh("k")
			g.line(ind+1, h+" := "+tag+" == "+g.expr(c.E))
			hits = append(hits, h)
		}
		first := true
		for i, c := range x.Cases {
			if c.Default {
				continue
			}
			if first {
				g.line(ind+1, "if "+hits[i]+" {")
				first = false
			} else {
				g.line(ind+1, "} else if "+hits[i]+" {")
			}
			g.block(ind+2, c.Body)
		}
		hasDefault := false
		for _, c := range x.Cases {
			if c.Default {
				hasDefault = true
				if first {
					g.line(ind+1, "if true {")
					first = false
				} else {
					g.line(ind+1, "} else {")
				}
				g.block(ind+2, c.Body)
			}
		}
		_ = hasDefault
		if !first {
			g.line(ind+1, "}")
		}
		g.line(ind, "}")
	case For:
		switch x.Kind {
		case ForEver:
			g.line(ind, "for {")
		case ForCond:
			g.line(ind, "for "+g.expr(x.Cond)+" {")
		case ForThree:
			h := "for "
			if x.Init != nil {
				h += g.simple(x.Init)
			}
			h += "; "
			if x.Cond != nil {
				h += g.expr(x.Cond)
			}
			h += "; "
			if x.Post != nil {
				h += g.simple(x.Post)
			}
			g.line(ind, h+" {")
			if d, ok := x.Init.(VarDecl); ok {
				g.use(ind+1, d.Names)
			}
		default:
			g.ok = false
			return
		}
		g.block(ind+1, x.Body)
		g.line(ind, "}")
	case FuncDecl:
		ps := make([]string, len(x.Params))
		for i, p := range x.Params {
			ps[i] = goIdent(p.Name) + " " + goType(p.T)
			if p.T.IsSlice() {
				g.ok = false
			}
		}
		rs := make([]string, len(x.Results))
		for i, t := range x.Results {
			rs[i] = goType(t)
			if t.IsSlice() {
				g.ok = false
			}
		}
		res := ""
		if len(rs) > 0 {
			res = " (" + strings.Join(rs, ", ") + ")"
		}
		g.line(ind, goFunc(x.Name)+" := func("+strings.Join(ps, ", ")+")"+res+" {")
		for _, p := range x.Params {
			g.line(ind+1, "_ = "+goIdent(p.Name))
		}
		g.block(ind+1, x.Body)
		g.line(ind, "}")
		g.line(ind, "_ = "+goFunc(x.Name))
	default:
		g.ok = false
	}
}

const goSelfCheckPrelude = `package main

import (
	"bufio"
	"fmt"
	"os"
	"strconv"
	"strings"
)

var out = bufio.NewWriter(os.Stdout)
var _ = strconv.Itoa
var _ = strings.Join

type exitSignal struct{}

func lit(v int) int { return v }
func and(a, b bool) bool { return a && b }
func or(a, b bool) bool { return a || b }
func show(v interface{}) string {
	switch x := v.(type) {
	case bool:
		if x {
			return "1"
		}
		return "0"
	}
	return fmt.Sprint(v)
}
func pr(args ...interface{}) {
	parts := make([]string, len(args))
	for i, a := range args {
		parts[i] = show(a)
	}
	out.WriteString(strings.Join(parts, " ") + "\n")
}
func doPanic(m string) {
	out.WriteString("panic: " + m + "\n")
	panic(exitSignal{})
}
func run(id int, f func()) {
	code := 0
	func() {
		defer func() {
			if r := recover(); r != nil {
				if _, ok := r.(exitSignal); ok {
					code = 1
					return
				}
				code = 99
				out.WriteString(fmt.Sprint("GO-RUNTIME-PANIC ", r, "\n"))
			}
		}()
		f()
	}()
	fmt.Fprintf(out, "\x00END %d %d\n", id, code)
}
`

// GoSelfCheck renders the programs to Go, builds and runs them, and compares
// with the interpreter. Returns the number compared and the disagreements.
func GoSelfCheck(progs []*Program) (compared int, problems []string) {
	var src strings.Builder
	src.WriteString(goSelfCheckPrelude)
	type item struct {
		id  int
		ref Result
		tsh string
	}
	items := []item{}
	for i, p := range progs {
		if len(p.Files) != 1 {
			continue
		}
		ref := Interpret(p, 64, interpBudget)
		if ref.Undefined != "" {
			continue
		}
		g := &goRenderer{ok: true}
		g.block(1, p.Files[0].Stmts)
		if !g.ok || strings.Contains(g.b.String(), "UNSUPPORTED") {
			continue
		}
		fmt.Fprintf(&src, "func prog%d() {\n%s}\n", i, g.b.String())
		items = append(items, item{i, ref, RenderFile(p.Files[0])})
	}
	src.WriteString("func main() {\n")
	for _, it := range items {
		fmt.Fprintf(&src, "\trun(%d, prog%d)\n", it.id, it.id)
	}
	src.WriteString("\tout.Flush()\n}\n")
	dir := filepath.Join(scratch(), "goselfcheck")
	os.MkdirAll(dir, 0o755)
	defer os.RemoveAll(dir)
	os.WriteFile(filepath.Join(dir, "main.go"), []byte(src.String()), 0o644)
	os.WriteFile(filepath.Join(dir, "go.mod"), []byte("module selfcheck\n\ngo 1.22\n"), 0o644)
	build := exec.Command("go", "build", "-o", "selfcheck", ".")
	build.Dir = dir
	build.Env = append(os.Environ(), "GOFLAGS=-mod=mod", "GOPROXY=off", "GOSUMDB=off", "GOTOOLCHAIN=local")
	if outb, err := build.CombinedOutput(); err != nil {
		return 0, []string{"the rendered Go file does not compile: " + clip(string(outb), 1500)}
	}
	run := exec.Command(filepath.Join(dir, "selfcheck"))
	outb, err := run.Output()
	if err != nil {
		return 0, []string{"the rendered Go program failed: " + err.Error()}
	}
	chunks := strings.Split(string(outb), "\x00END ")
	if len(chunks) != len(items)+1 {
		return 0, []string{fmt.Sprintf("expected %d program outputs, got %d", len(items), len(chunks)-1)}
	}
	// chunk k holds the stdout of item k followed (in chunk k+1's head) by "id code\n"
	stdout := chunks[0]
	for k, it := range items {
		rest := chunks[k+1]
		nl := strings.IndexByte(rest, '\n')
		head := rest[:nl]
		var id, code int
		fmt.Sscanf(head, "%d %d", &id, &code)
		compared++
		if id != it.id || stdout != it.ref.Stdout || code != it.ref.Exit {
			problems = append(problems, fmt.Sprintf("program %d: Go toolchain prints %q (status %d), interpreter %q (status %d)\n%s", it.id, clip(stdout, 300), code, clip(it.ref.Stdout, 300), it.ref.Exit, clip(it.tsh, 1500)))
		}
		stdout = rest[nl+1:]
	}
	return
}

func selfCheckPrograms(seed int64, n int) []*Program {
	progs := []*Program{}
	for _, bc := range f1OperatorChains(2, false) {
		progs = append(progs, bc.Prog)
	}
	for _, fam := range [][]BashCase{f1Unary(), f2ArithmeticEdges(), f3LastStatement(), f4LoopSkeletons(false), f5Switch(), f6Definitions(), g1NameReuse(), g3Arity(), g5Simultaneous()} {
		for _, bc := range fam {
			progs = append(progs, bc.Prog)
		}
	}
	for i := 0; i < n; i++ {
		fam := []string{"c01", "c02"}[i%2]
		cfg := genConfigs[fam]
		g := NewGen(seed*77000003+int64(i), cfg)
		progs = append(progs, g.Program())
	}
	return progs
}

func init() {
	extraCommands["selfcheck"] = func(args []string) {
		n := 600
		if len(args) > 0 {
			n, _ = strconv.Atoi(args[0])
		}
		compared, problems := GoSelfCheck(selfCheckPrograms(1, n))
		cleanupScratch()
		fmt.Printf("go-toolchain self-check: %d programs compared, %d disagreements\n", compared, len(problems))
		for i, p := range problems {
			if i < 5 {
				fmt.Println("INCONCLUSIVE oracle-self-check:", p)
			}
		}
		if len(problems) > 0 || compared == 0 {
			os.Exit(2)
		}
	}
}
