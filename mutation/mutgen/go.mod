module mutgen

go 1.22
