// mutgen lists mechanical mutants of the Go sources of a TypeShell checkout.
//
// usage: mutgen <repo dir>            prints one mutant per line: id <TAB> file <TAB> offset <TAB> length <TAB> replacement(quoted) <TAB> description
//        mutgen <repo dir> apply <id> applies that mutant in place (to be used on a scratch copy only)
//
// Mutants are byte-range replacements located through go/ast positions, so the rest of the file keeps its bytes.
// Operators: comparison/arithmetic/logical operator swaps, negated if/for conditions, ++/--, integer literal +1,
// true/false, deletion of call statements and of plain assignments, and token swaps inside string literals of the
// converters (shell comparison words, redirections, quoting).
package main

import (
	"fmt"
	"go/ast"
	"go/parser"
	"go/token"
	"os"
	"path/filepath"
	"sort"
	"strconv"
	"strings"
)

type mutant struct {
	file   string
	off    int
	length int
	repl   string
	desc   string
}

var files = []string{
	"lexer/lexer.go", "parser/parser.go", "parser/types.go", "parser/variable.go", "parser/function.go",
	"parser/slice.go", "parser/literals.go", "parser/if.go",
	"transpiler/transpiler.go", "transpiler/converter.go",
	"converters/bash/converter.go", "converters/batch/converter.go", "tsh.go",
}

var opSwap = map[token.Token][]string{
	token.EQL: {"!="}, token.NEQ: {"=="},
	token.LSS: {"<=", ">"}, token.LEQ: {"<"}, token.GTR: {">=", "<"}, token.GEQ: {">"},
	token.ADD: {"-"}, token.SUB: {"+"}, token.MUL: {"+"}, token.QUO: {"*"}, token.REM: {"/"},
	token.LAND: {"||"}, token.LOR: {"&&"},
}

var strSwaps = [][2]string{
	{"-lt", "-le"}, {"-le", "-lt"}, {"-eq", "-ne"}, {"-ne", "-eq"}, {"-gt", "-ge"}, {"-ge", "-gt"},
	{" lss ", " leq "}, {" leq ", " lss "}, {" equ ", " neq "}, {" neq ", " equ "}, {" gtr ", " geq "}, {" geq ", " gtr "},
	{">>", ">"}, {"+1", "+2"}, {"-1", "-2"}, {"+ 1", "+ 2"}, {"- 1", "- 2"}, {"local ", ""}, {"\\\"", ""},
	{"%d", "0"}, {"%s", "x"}, {"_", "__"}, {":", ""}, {"!", "%"}, {"setlocal", "rem"}, {"&&", "||"}, {"/B", ""},
	{"eval ", ""}, {"$?", "0"}, {"-n ", ""}, {"-e ", "-f "}, {"1", "0"}, {"0", "1"},
}

func main() {
	if len(os.Args) < 2 {
		fmt.Fprintln(os.Stderr, "usage: mutgen <repo> [apply <id>]")
		os.Exit(2)
	}
	repo := os.Args[1]
	var all []mutant
	for _, f := range files {
		all = append(all, mutantsOf(repo, f)...)
	}
	if len(os.Args) >= 4 && os.Args[2] == "apply" {
		id, err := strconv.Atoi(os.Args[3])
		if err != nil || id < 0 || id >= len(all) {
			fmt.Fprintln(os.Stderr, "bad id")
			os.Exit(2)
		}
		m := all[id]
		p := filepath.Join(repo, m.file)
		b, _ := os.ReadFile(p)
		nb := append([]byte{}, b[:m.off]...)
		nb = append(nb, m.repl...)
		nb = append(nb, b[m.off+m.length:]...)
		if err := os.WriteFile(p, nb, 0o644); err != nil {
			fmt.Fprintln(os.Stderr, err)
			os.Exit(2)
		}
		fmt.Printf("%d\t%s\t%s\n", id, m.file, m.desc)
		return
	}
	for i, m := range all {
		fmt.Printf("%d\t%s\t%d\t%d\t%q\t%s\n", i, m.file, m.off, m.length, m.repl, m.desc)
	}
}

func mutantsOf(repo, rel string) []mutant {
	p := filepath.Join(repo, rel)
	src, err := os.ReadFile(p)
	if err != nil {
		return nil
	}
	fset := token.NewFileSet()
	f, err := parser.ParseFile(fset, p, src, 0)
	if err != nil {
		return nil
	}
	var out []mutant
	pos := func(p token.Pos) int { return fset.Position(p).Offset }
	line := func(p token.Pos) int { return fset.Position(p).Line }
	add := func(off, length int, repl, desc string, at token.Pos) {
		out = append(out, mutant{rel, off, length, repl, fmt.Sprintf("%s:%d %s", rel, line(at), desc)})
	}
	isConv := strings.HasPrefix(rel, "converters/") || rel == "transpiler/transpiler.go"
	ast.Inspect(f, func(n ast.Node) bool {
		switch x := n.(type) {
		case *ast.BinaryExpr:
			for _, r := range opSwap[x.Op] {
				add(pos(x.OpPos), len(x.Op.String()), r, fmt.Sprintf("%s -> %s", x.Op, r), x.OpPos)
			}
		case *ast.IfStmt:
			s, e := pos(x.Cond.Pos()), pos(x.Cond.End())
			add(s, e-s, "!("+string(src[s:e])+")", "negate if condition", x.Cond.Pos())
		case *ast.ForStmt:
			if x.Cond != nil {
				s, e := pos(x.Cond.Pos()), pos(x.Cond.End())
				add(s, e-s, "("+string(src[s:e])+") && false", "loop never entered", x.Cond.Pos())
			}
		case *ast.IncDecStmt:
			r := "--"
			if x.Tok == token.DEC {
				r = "++"
			}
			add(pos(x.TokPos), 2, r, fmt.Sprintf("%s -> %s", x.Tok, r), x.TokPos)
		case *ast.BasicLit:
			if x.Kind == token.INT {
				if v, err := strconv.Atoi(x.Value); err == nil {
					add(pos(x.Pos()), len(x.Value), strconv.Itoa(v+1), fmt.Sprintf("%d -> %d", v, v+1), x.Pos())
					if v > 0 {
						add(pos(x.Pos()), len(x.Value), strconv.Itoa(v-1), fmt.Sprintf("%d -> %d", v, v-1), x.Pos())
					}
				}
			}
			if x.Kind == token.STRING && isConv {
				lit := x.Value
				seen := map[string]bool{}
				for _, sw := range strSwaps {
					from := sw[0]
					idx := 0
					cnt := 0
					for cnt < 2 { // at most the first two occurrences per literal and swap
						k := strings.Index(lit[idx:], from)
						if k < 0 {
							break
						}
						k += idx
						idx = k + len(from)
						if k == 0 || k+len(from) >= len(lit) { // keep the delimiters
							continue
						}
						nl := lit[:k] + sw[1] + lit[k+len(from):]
						if seen[nl] {
							continue
						}
						seen[nl] = true
						cnt++
						add(pos(x.Pos()), len(lit), nl, fmt.Sprintf("string %q: %q -> %q at %d", trunc(lit), from, sw[1], k), x.Pos())
					}
				}
			}
		case *ast.Ident:
			if x.Name == "true" || x.Name == "false" {
				r := "false"
				if x.Name == "false" {
					r = "true"
				}
				add(pos(x.Pos()), len(x.Name), r, x.Name+" -> "+r, x.Pos())
			}
		case *ast.ExprStmt:
			if _, ok := x.X.(*ast.CallExpr); ok {
				s, e := pos(x.Pos()), pos(x.End())
				add(s, e-s, "", "delete call statement "+trunc(string(src[s:e])), x.Pos())
			}
		case *ast.AssignStmt:
			if x.Tok == token.ASSIGN && len(x.Lhs) == 1 {
				if id, ok := x.Lhs[0].(*ast.Ident); !ok || id.Name != "_" {
					s, e := pos(x.Pos()), pos(x.End())
					add(s, e-s, "", "delete assignment "+trunc(string(src[s:e])), x.Pos())
				}
			}
		case *ast.ReturnStmt:
			// return a, nil where a is a bool literal etc. is covered by the literal flips
		}
		return true
	})
	sort.SliceStable(out, func(i, j int) bool { return out[i].off < out[j].off })
	return out
}

func trunc(s string) string {
	s = strings.ReplaceAll(s, "\n", " ")
	s = strings.ReplaceAll(s, "\t", " ")
	if len(s) > 60 {
		return s[:60] + "…"
	}
	return s
}
