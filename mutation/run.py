#!/usr/bin/env python3
"""Mechanical mutation campaign against the quick checks.

phase A (filter):  every mutant listed by mutgen is applied to a private scratch copy of /repo; mutants that do not
                   build or that the repository's own suite kills are dropped. Survivors "compile and pass the
                   existing tests" - the class of change the checks are there for.
phase B (checks):  for a seed-determined sample of the survivors the quick checks that can see the mutated file run
                   against the scratch copy (VERIF_REPO), in a fixed order, until one reports a VIOLATION.

usage: run.py A [jobs]                 -> results/phaseA.tsv   (id, file, verdict, description)
       run.py B <n> [seed] [file-prefix] -> results/phaseB.tsv (id, file, caught-by | SURVIVED, checks run, description)
Nothing is applied to /repo; scratch copies live under a mktemp directory and are removed.
"""
import os, random, shutil, subprocess, sys, tempfile, threading, queue, time

ROOT = os.path.dirname(os.path.abspath(__file__))
VERIF = os.path.dirname(ROOT)
MUTGEN = os.path.join(VERIF, 'build', 'mutgen')
ENV = dict(os.environ, GOFLAGS='-mod=mod', GOPROXY='off', GOSUMDB='off', GOTOOLCHAIN='local')
RES = os.path.join(ROOT, 'results')

CHECKS = {
    'lexer/': ['C11', 'C12', 'C13', 'C01'],
    'parser/': ['C06', 'C07', 'C01', 'C02', 'C03', 'C04', 'C09', 'C12', 'C13', 'C16', 'C05', 'C08', 'C17', 'C18', 'C14'],
    'transpiler/': ['C01', 'C02', 'C03', 'C04', 'C08', 'C17', 'C18', 'C09', 'C16', 'C05', 'C06', 'C13', 'C14'],
    'converters/bash/': ['C01', 'C02', 'C03', 'C04', 'C08', 'C17', 'C18', 'C16', 'C09', 'C15', 'C10'],
    'converters/batch/': ['C05', 'C16', 'C13', 'C10'],
    'tsh.go': ['C19'],
}


def run_group(cmd, cwd, timeout):
    """Runs cmd in a process group of its own and kills the whole group afterwards: a mutant with an endless loop leaves
    emitted test scripts (bash children of the test binary) running after `go test` itself has been timed out."""
    import signal
    p = subprocess.Popen(cmd, cwd=cwd, env=ENV, stdout=subprocess.DEVNULL, stderr=subprocess.DEVNULL, start_new_session=True)
    try:
        rc = p.wait(timeout=timeout)
    except subprocess.TimeoutExpired:
        rc = None
    try:
        os.killpg(p.pid, signal.SIGKILL)
    except ProcessLookupError:
        pass
    p.wait()
    return rc


def build_mutgen():
    subprocess.run(['go', 'build', '-o', MUTGEN, '.'], cwd=os.path.join(ROOT, 'mutgen'), env=ENV, check=True)


ORIG = '/repo'  # replaced by a snapshot taken at the start of a phase: /repo may get fix commits while a phase runs


def snapshot(base):
    global ORIG
    d = os.path.join(base, 'orig')
    subprocess.run(['rsync', '-a', '--exclude', '.git', '/repo/', d + '/'], check=True)
    ORIG = d
    head = subprocess.run(['git', '-C', '/repo', 'log', '--format=%h', '-1'], capture_output=True, text=True).stdout.strip()
    return head


def list_mutants():
    out = subprocess.run([MUTGEN, ORIG], capture_output=True, text=True, check=True).stdout
    ms = []
    for l in out.splitlines():
        f = l.split('\t')
        ms.append((int(f[0]), f[1], f[5]))
    return ms


def fresh_copy(base):
    d = tempfile.mkdtemp(prefix='mut-', dir=base)
    subprocess.run(['rsync', '-a', ORIG + '/', d + '/repo/'], check=True)
    return d + '/repo'


def apply(copy, mid):
    subprocess.run([MUTGEN, copy, 'apply', str(mid)], check=True, capture_output=True)


def restore(copy, rel):
    shutil.copyfile(os.path.join(ORIG, rel), os.path.join(copy, rel))


def phase_a(jobs):
    os.makedirs(RES, exist_ok=True)
    base = tempfile.mkdtemp(prefix='mutA-')
    head = snapshot(base)
    open(os.path.join(RES, 'COMMIT'), 'w').write(head + '\n')
    ms = list_mutants()
    done = {}
    pa = os.path.join(RES, 'phaseA.tsv')
    if os.path.exists(pa):
        for l in open(pa):
            f = l.rstrip('\n').split('\t')
            done[int(f[0])] = f
    q = queue.Queue()
    for m in ms:
        if m[0] not in done:
            q.put(m)
    lock = threading.Lock()
    out = open(pa, 'a')

    def worker():
        copy = fresh_copy(base)
        while True:
            try:
                mid, rel, desc = q.get_nowait()
            except queue.Empty:
                return
            apply(copy, mid)
            verdict = 'survivor'
            r = subprocess.run(['go', 'build', './...'], cwd=copy, env=ENV, capture_output=True)
            if r.returncode != 0:
                verdict = 'nobuild'
            else:
                rc = run_group(['go', 'test', '-vet=off', '-count=1', '-timeout', '150s', './...'], copy, 200)
                if rc is None:
                    verdict = 'suite-killed(timeout)'
                elif rc != 0:
                    verdict = 'suite-killed'
            restore(copy, rel)
            with lock:
                out.write(f'{mid}\t{rel}\t{verdict}\t{desc}\n')
                out.flush()

    ts = [threading.Thread(target=worker) for _ in range(jobs)]
    for t in ts:
        t.start()
    for t in ts:
        t.join()
    shutil.rmtree(base, ignore_errors=True)


def checks_for(rel):
    for k, v in CHECKS.items():
        if rel.startswith(k):
            return v
    return []


def phase_b(n, seed, prefix):
    surv = []
    for l in open(os.path.join(RES, 'phaseA.tsv')):
        f = l.rstrip('\n').split('\t')
        if f[2] == 'survivor' and f[1].startswith(prefix):
            surv.append((int(f[0]), f[1], f[3]))
    surv.sort()
    random.Random(seed).shuffle(surv)
    pb = os.path.join(RES, 'phaseB.tsv')
    done = set()
    if os.path.exists(pb):
        for l in open(pb):
            done.add(int(l.split('\t')[0]))
    base = tempfile.mkdtemp(prefix='mutB-')
    head = snapshot(base)
    rec = open(os.path.join(RES, 'COMMIT')).read().strip()
    if head != rec:
        print(f'warning: phase A ran at {rec}, /repo is at {head}: mutant ids may have moved', file=sys.stderr)
    copy = fresh_copy(base)
    out = open(pb, 'a')
    count = 0
    for mid, rel, desc in surv:
        if count >= n:
            break
        if mid in done:
            continue
        count += 1
        apply(copy, mid)
        caught, ran = 'SURVIVED', []
        for chk in checks_for(rel):
            outdir = os.path.join(base, 'out')
            env = dict(ENV, VERIF_REPO=copy, VERIF_OUT=outdir, VERIF_SEED='1')
            t0 = time.time()
            try:
                r = subprocess.run([os.path.join(VERIF, 'check'), chk, 'quick'], env=env, capture_output=True, text=True, timeout=1500)
                rc, so = r.returncode, r.stdout
            except subprocess.TimeoutExpired:
                rc, so = 99, ''
            ran.append(f'{chk}:{rc}:{time.time()-t0:.0f}s')
            shutil.rmtree(os.path.join(outdir, 'replays'), ignore_errors=True)
            if rc == 1 and f'VIOLATION property={chk}' in so:
                caught = chk
                break
        restore(copy, rel)
        out.write(f'{mid}\t{rel}\t{caught}\t{" ".join(ran)}\t{desc}\n')
        out.flush()
    shutil.rmtree(base, ignore_errors=True)


if __name__ == '__main__':
    build_mutgen()
    if sys.argv[1] == 'A':
        phase_a(int(sys.argv[2]) if len(sys.argv) > 2 else 6)
    else:
        phase_b(int(sys.argv[2]), int(sys.argv[3]) if len(sys.argv) > 3 else 1, sys.argv[4] if len(sys.argv) > 4 else '')
