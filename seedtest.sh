#!/bin/bash
# usage: seedtest.sh <seed source dir> <seed id> <property> <check ids...>
# Confirms a seeded change (builds, passes the suite, demo fails with / passes without it), runs the given
# checks (quick tier) against it and, when confirmed, stores it as /verif/seeded/<seed id>/.
export GOFLAGS=-mod=mod GOPROXY=off GOSUMDB=off GOTOOLCHAIN=local
SRC="$1"; ID="$2"; PROP="$3"; shift 3
W=$(mktemp -d /tmp/seedtest-XXXXXX)
trap 'git -C /repo worktree remove --force "$W/wt" >/dev/null 2>&1; rm -rf "$W"' EXIT
git -C /repo worktree add -q --detach "$W/wt" HEAD || exit 3
demo_clean=$(cd "$SRC" && bash ./demo.sh "$W/wt" >"$W/demo_clean.log" 2>&1; echo $?)
(cd "$W/wt" && git apply "$SRC/patch.diff") || { echo "PATCH DOES NOT APPLY"; exit 3; }
build=$(cd "$W/wt" && go build ./... >"$W/build.log" 2>&1; echo $?)
suite=$(cd "$W/wt" && go test -vet=off -count=1 ./... >"$W/suite.log" 2>&1; echo $?)
demo_seeded=$(cd "$SRC" && bash ./demo.sh "$W/wt" >"$W/demo_seeded.log" 2>&1; echo $?)
echo "seed $ID: build=$build suite=$suite demo_clean=$demo_clean demo_seeded=$demo_seeded"
confirmed=no
if [ "$build" = 0 ] && [ "$suite" = 0 ] && [ "$demo_clean" = 0 ] && [ "$demo_seeded" != 0 ]; then confirmed=yes; fi
results=""
for chk in "$@"; do
  out=$(VERIF_REPO="$W/wt" VERIF_OUT="$W/out" /verif/check $chk quick 2>&1); rc=$?
  line=$(echo "$out" | tail -1)
  first=$(echo "$out" | grep -A2 -m1 '^VIOLATION' | sed -n '2,3p' | tr '\n' ' ' | cut -c1-300)
  echo "  check $chk rc=$rc :: $line"
  [ -n "$first" ] && echo "     first violation: $first"
  results="$results{\"check\":\"$chk\",\"exit\":$rc,\"summary\":$(python3 -c 'import json,sys; print(json.dumps(sys.argv[1]))' "$line"),\"first_violation\":$(python3 -c 'import json,sys; print(json.dumps(sys.argv[1]))' "$first")},"
done
if [ "$confirmed" = yes ]; then
  D=/verif/seeded/$ID
  if [ "$(readlink -f "$SRC")" != "$(readlink -f "$D")" ]; then rm -rf "$D"; mkdir -p "$D"; cp -r "$SRC"/* "$D"/; fi
  python3 - "$D" "$ID" "$PROP" "[${results%,}]" <<'PY'
import json,sys,os
d,i,prop,res=sys.argv[1:5]
notes=open(os.path.join(d,'notes.txt')).read() if os.path.exists(os.path.join(d,'notes.txt')) else ''
meta={"id":i,"breaks_property":prop,"needs_to_manifest":notes[:1500],
 "confirmed":{"builds":True,"suite_passes_with_change":True,"demo_passes_without_change":True,"demo_fails_with_change":True,
   "how":"seedtest.sh: fresh git worktree of /repo HEAD, git apply patch.diff, go build ./..., go test -vet=off -count=1 ./..., demo.sh <worktree> before and after"},
 "checks_run":json.loads(res)}
json.dump(meta,open(os.path.join(d,'meta.json'),'w'),indent=1)
PY
  echo "  stored in $D"
else
  echo "  NOT CONFIRMED (see logs)"; tail -5 "$W/demo_clean.log" "$W/demo_seeded.log" "$W/suite.log" 2>/dev/null | head -30
fi
