#!/bin/bash
# usage: seedcheck.sh [id-prefix]   re-runs every stored seeded change (or those whose id starts with the prefix)
# against the quick check of the property it breaks: applies patch.diff to a scratch copy of /repo, builds,
# runs the check with VERIF_REPO, prints caught/MISSED per change. Nothing is applied to /repo itself.
export GOFLAGS=-mod=mod GOPROXY=off GOSUMDB=off GOTOOLCHAIN=local
cd "$(dirname "$0")"
for d in seeded/${1}*/; do
  id=$(basename "$d"); prop=${id%%-*}
  M=$(mktemp -d /tmp/sc-XXXXXX)
  rsync -a --exclude .git /repo/ "$M/repo/"
  if ! (cd "$M/repo" && patch -p1 -s -F3 < "/verif/$d/patch.diff" >/dev/null 2>&1); then echo "$id PATCH-DOES-NOT-APPLY"; rm -rf "$M"; continue; fi
  if ! (cd "$M/repo" && go build ./... >/dev/null 2>&1); then echo "$id DOES-NOT-BUILD"; rm -rf "$M"; continue; fi
  out=$(VERIF_REPO="$M/repo" VERIF_OUT="$M/out" timeout 1500 ./check $prop quick 2>&1); rc=$?
  if [ $rc -eq 1 ] && echo "$out" | grep -q "^VIOLATION property=$prop"; then echo "$id caught ($(echo "$out" | tail -1 | grep -o 'violations=[0-9]*'))"; elif [ -f "$d/OUT-OF-REACH" ]; then echo "$id not caught, as recorded (out of reach: $(head -1 "$d/OUT-OF-REACH"))"; else echo "$id MISSED rc=$rc"; fi
  rm -rf "$M"
done
