#!/bin/bash
# usage: mutant.sh <patch-file|-e 'sed-expr' file> -- <check id> [tier]
# Applies a change to a scratch copy of /repo, confirms it builds and passes the
# repository's suite, runs the given check against it, then deletes the copy.
export GOFLAGS=-mod=mod GOPROXY=off GOSUMDB=off GOTOOLCHAIN=local
M=$(mktemp -d /tmp/mut-XXXXXX)
trap 'rm -rf "$M"' EXIT
rsync -a --exclude .git /repo/ "$M/repo/"
if [ "$1" = "-e" ]; then sed -i "$2" "$M/repo/$3"; shift 3;
elif [ "$1" = "-r" ]; then python3 - "$M/repo/$2" "$3" "$4" <<'PY' || exit 3
import sys
p,old,new=sys.argv[1:4]
s=open(p).read()
old=old.encode().decode('unicode_escape'); new=new.encode().decode('unicode_escape')
assert s.count(old)>=1, "pattern not found"
open(p,'w').write(s.replace(old,new,1))
PY
shift 4;
else (cd "$M/repo" && patch -p1 -s -F3 < "$1") || exit 3; shift; fi
[ "$1" = "--" ] && shift
(cd "$M/repo" && diff -r -q /repo "$M/repo" -x .git | head -5)
if ! (cd "$M/repo" && go build ./... ); then echo "MUTANT DOES NOT BUILD"; exit 3; fi
if [ -z "$SKIP_SUITE" ]; then
  if ! (cd "$M/repo" && go test -vet=off -count=1 ./... >"$M/suite.log" 2>&1); then echo "MUTANT FAILS THE SUITE"; grep -m5 -- '--- FAIL' "$M/suite.log"; exit 4; fi
  echo "mutant builds and passes the suite"
fi
VERIF_REPO="$M/repo" VERIF_OUT="$M/out" /verif/check "$@" 2>&1 | tail -${TAIL:-8}
echo "check exit: ${PIPESTATUS[0]}"
