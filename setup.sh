#!/bin/bash
# Builds the framework from files on disk only (offline).
export GOFLAGS=-mod=mod GOPROXY=off GOSUMDB=off GOTOOLCHAIN=local
cd "$(dirname "$0")" || exit 1
mkdir -p build/std evidence
(cd harness && go build -tags verif -o ../build/tsverif . && go build -o ../build/probe ./probe) || exit 1
(cd /repo && go build -tags verif -o /verif/build/tsh .) || exit 1
cp -f /repo/std/*.tsh build/std/
./build/tsverif selfcheck 400 || exit 1
echo "setup ok"
