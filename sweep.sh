#!/bin/bash
# usage: sweep.sh [tier] [seeds...]   runs every check at several seeds, prints one line per run
tier=${1:-quick}; shift
seeds=${@:-1 2 3 7 12345}
for s in $seeds; do
  for id in C01 C02 C03 C04 C05 C06 C07 C08 C09 C10 C11 C12 C13 C14 C15 C16 C17 C18 C19; do
    out=$(VERIF_SEED=$s ./check $id $tier 2>&1); rc=$?
    echo "seed=$s rc=$rc $(echo "$out" | tail -1)"
    if [ $rc -ne 0 ]; then echo "$out" | grep -A3 VIOLATION | head -12; fi
  done
done
